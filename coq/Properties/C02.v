(* C02 — accepted values conform to the declared type; acceptance is compositional. Property theorems only.
   Models: Model/Ty.v (adapt_typehints / ActionTypeHint._check_type / the re-check of validate, with repair switches),
   Model/C02TyMut.v (the same with in-place adaptation of lists and dicts), Spec/C02Guard.v (`impl` = the pinned tree,
   `in_guard` = no recorded defect changes what the pinned tree does with this input). The loader `yl` is arbitrary. *)
From JV Require Import Lib.Base Model.TyVal Model.Scalar Model.Ty Model.C02TyMut Spec.Conforms Spec.ConformsRx Spec.C02Defs
  Spec.C02Guard Spec.C02Group Model.C02Ext Proofs.C02Proofs Proofs.C02CompleteProofs Proofs.C02GuardProofs Proofs.C02ExtProofs Proofs.C02TextProofs.
From Coq Require Import Permutation.

(* ---- 1. accepted => conforms ----------------------------------------------------------------------------------- *)
(* the full statement, true of the repaired model for every hint of the grammar, every input and every loader *)
Theorem C02_sound_repaired :
  forall yl t v0 w, parse_key_g all_fixed yl t v0 = AOk w -> conforms t w = true.
Proof. exact parse_key_sound. Qed.
Print Assumptions C02_sound_repaired.

(* the pinned tree: the same, for every input inside the guard *)
Theorem C02_sound :
  forall yl t v0 w, in_guard yl t v0 = true -> impl yl t v0 = AOk w -> conforms t w = true.
Proof. exact sound_pinned. Qed.
Print Assumptions C02_sound.

(* inside the guard the pinned tree and the repaired model agree on outcome and value *)
Theorem C02_guard_means_repaired :
  forall yl t v0, in_guard yl t v0 = true ->
  forall w, impl yl t v0 = AOk w <-> parse_key_g all_fixed yl t v0 = AOk w.
Proof. exact guard_repaired. Qed.
Print Assumptions C02_guard_means_repaired.

(* first pass alone (ActionTypeHint._check_type): exact shape, None only where the hint allows it *)
Theorem C02_check_type_shape :
  forall yl t v0 w, check_type_g all_fixed yl t v0 = AOk w -> shaped t w = true.
Proof. exact check_type_sound. Qed.
Print Assumptions C02_check_type_shape.

(* ---- 2. compositionality of adapt_typehints — for EVERY setting of the switches, the pinned tree included ------- *)
Theorem C02_list_iff_items :
  forall fx yl ser orig t v l, seq_items v = Some l ->
  is_ok (adapt_g fx yl ser orig (TList t) v) = forallb (fun x => is_ok (adapt_g fx yl ser orig t x)) l.
Proof. exact list_ok_iff. Qed.
Print Assumptions C02_list_iff_items.

Theorem C02_tuplevar_iff_items :
  forall fx yl ser orig t v l, seq_items v = Some l ->
  is_ok (adapt_g fx yl ser orig (TTupleVar t) v) = forallb (fun x => is_ok (adapt_g fx yl ser orig t x)) l.
Proof. exact tuplevar_ok_iff. Qed.
Print Assumptions C02_tuplevar_iff_items.

Theorem C02_tuple_iff_arity_and_items :
  forall fx yl ser orig ts v l, seq_items v = Some l ->
  is_ok (adapt_g fx yl ser orig (TTuple ts) v)
  = Nat.eqb (length l) (length ts) && all2 (fun t x => is_ok (adapt_g fx yl ser orig t x)) ts l.
Proof. exact tuple_ok_iff. Qed.
Print Assumptions C02_tuple_iff_arity_and_items.

Theorem C02_dict_iff_values :
  forall fx yl ser orig t d,
  is_ok (adapt_g fx yl ser orig (TDict false t) (VDict d))
  = (negb (fx_key fx && negb ser) || forallb (fun kv => is_str (fst kv)) d)
    && forallb (fun kv => is_ok (adapt_g fx yl ser orig t (snd kv))) d.
Proof. exact dict_str_ok_iff. Qed.
Print Assumptions C02_dict_iff_values.

(* a Union accepts exactly when some member accepts — or, for a value that came from text and is not a str, when `str`
   is a member (the text itself is then the value) *)
Theorem C02_union_iff_some_member :
  forall fx yl ser orig ts v,
  is_ok (adapt_g fx yl ser orig (TUnion ts) v)
  = existsb (fun t => is_ok (adapt_g fx yl ser orig t v)) ts || str_fallback orig v ts.
Proof. exact union_ok_iff. Qed.
Print Assumptions C02_union_iff_some_member.

Theorem C02_union_order_independent :
  forall fx yl ser orig ts ts' v, Permutation ts ts' ->
  is_ok (adapt_g fx yl ser orig (TUnion ts) v) = is_ok (adapt_g fx yl ser orig (TUnion ts') v).
Proof. exact union_ok_perm. Qed.
Print Assumptions C02_union_order_independent.

(* the first pass on a Union accepts independently of the member order, for every setting of the switches (the pinned
   tree included: there the order only matters through the VALUE handed to the re-check, see C02_union_order_refuted) *)
Theorem C02_first_pass_union_order_independent :
  forall fx yl ts ts' v0, Permutation ts ts' ->
  is_ok (check_type_g fx yl (TUnion ts) v0) = is_ok (check_type_g fx yl (TUnion ts') v0).
Proof. exact check_type_union_perm. Qed.
Print Assumptions C02_first_pass_union_order_independent.

(* ---- 2b. whole parses (first pass + the re-check of validate), repaired model ------------------------------------- *)
(* a value of the right shape is never rejected (wf_ty: the item type of a Set is a hashable type) *)
Theorem C02_never_rejects_right_shape_repaired :
  forall yl t v0, wf_ty t = true -> shaped t v0 = true -> accepts all_fixed yl t v0 = true.
Proof. exact parse_key_complete. Qed.
Print Assumptions C02_never_rejects_right_shape_repaired.

(* the re-check never rejects what the first pass produced: a parse is decided by the first pass *)
Theorem C02_recheck_passes_repaired :
  forall yl t v0 w, wf_ty t = true -> check_type_g all_fixed yl t v0 = AOk w -> is_ok (check_type_g all_fixed yl t w) = true.
Proof. exact recheck_ok. Qed.
Print Assumptions C02_recheck_passes_repaired.

Theorem C02_union_order_independent_repaired :      (* every input: text and Python objects *)
  forall yl ts ts' v0, wf_ty (TUnion ts) = true -> Permutation ts ts' ->
  accepts all_fixed yl (TUnion ts) v0 = accepts all_fixed yl (TUnion ts') v0.
Proof. exact union_perm_parse. Qed.
Print Assumptions C02_union_order_independent_repaired.

Theorem C02_union_iff_some_member_repaired :         (* Python objects *)
  forall yl ts v0, wf_ty (TUnion ts) = true -> is_str v0 = false -> v0 <> VNone ->
  accepts all_fixed yl (TUnion ts) v0 = existsb (fun t => accepts all_fixed yl t v0) ts.
Proof. exact union_members_parse. Qed.
Print Assumptions C02_union_iff_some_member_repaired.

Theorem C02_list_iff_items_repaired :
  forall yl t l, wf_ty t = true ->
  accepts all_fixed yl (TList t) (VList l) = forallb (accepts_item all_fixed yl t) l.
Proof. exact list_items_parse. Qed.
Print Assumptions C02_list_iff_items_repaired.

Theorem C02_tuple_iff_arity_and_items_repaired :
  forall yl ts l, wf_ty (TTuple ts) = true ->
  accepts all_fixed yl (TTuple ts) (VTuple l) = Nat.eqb (length l) (length ts) && all2 (accepts_item all_fixed yl) ts l.
Proof. exact tuple_items_parse. Qed.
Print Assumptions C02_tuple_iff_arity_and_items_repaired.

Theorem C02_dict_iff_keys_and_values_repaired :
  forall yl t d, wf_ty t = true ->
  accepts all_fixed yl (TDict false t) (VDict d)
  = forallb (fun kv => is_str (fst kv)) d && forallb (fun kv => accepts_item all_fixed yl t (snd kv)) d.
Proof. exact dict_items_parse. Qed.
Print Assumptions C02_dict_iff_keys_and_values_repaired.

Theorem C02_set_iff_items_repaired :       (* the input a set, a list or a tuple; the item type hashable (wf_ty) *)
  forall yl t v l, wf_ty (TSet t) = true -> seq_items v = Some l ->
  accepts all_fixed yl (TSet t) v = forallb (accepts_item all_fixed yl t) l.
Proof. exact set_items_parse. Qed.
Print Assumptions C02_set_iff_items_repaired.

(* an item that is a Python object (not a str, not None) is accepted as an item exactly when it is accepted stand-alone *)
Theorem C02_item_is_standalone_repaired :
  forall yl t x, wf_ty t = true -> is_str x = false -> x <> VNone ->
  accepts all_fixed yl t x = accepts_item all_fixed yl t x.
Proof. exact accepts_object. Qed.
Print Assumptions C02_item_is_standalone_repaired.

(* the pinned tree inside the guard: never rejects a value of the right shape; Union order does not matter *)
Theorem C02_never_rejects_right_shape :
  forall yl t v0, in_guard yl t v0 = true -> wf_ty t = true -> shaped t v0 = true -> is_ok (impl yl t v0) = true.
Proof. exact complete_pinned. Qed.
Print Assumptions C02_never_rejects_right_shape.

Theorem C02_union_order_independent_parse :
  forall yl ts ts' v0, in_guard yl (TUnion ts) v0 = true -> in_guard yl (TUnion ts') v0 = true ->
  wf_ty (TUnion ts) = true -> Permutation ts ts' ->
  is_ok (impl yl (TUnion ts) v0) = is_ok (impl yl (TUnion ts') v0).
Proof. exact union_perm_pinned. Qed.
Print Assumptions C02_union_order_independent_parse.

Theorem C02_list_iff_items_parse :
  forall yl t l, in_guard yl (TList t) (VList l) = true -> wf_ty t = true ->
  (forall x, In x l -> in_guard yl t x = true /\ is_str x = false /\ x <> VNone) ->
  is_ok (impl yl (TList t) (VList l)) = forallb (fun x => is_ok (impl yl t x)) l.
Proof. exact list_items_pinned. Qed.
Print Assumptions C02_list_iff_items_parse.

Theorem C02_set_iff_items_parse :
  forall yl t v l, in_guard yl (TSet t) v = true -> wf_ty (TSet t) = true -> seq_items v = Some l ->
  (forall x, In x l -> in_guard yl t x = true /\ is_str x = false /\ x <> VNone) ->
  is_ok (impl yl (TSet t) v) = forallb (fun x => is_ok (impl yl t x)) l.
Proof. exact set_items_pinned. Qed.
Print Assumptions C02_set_iff_items_parse.

Theorem C02_union_iff_some_member_parse :
  forall yl ts v0, in_guard yl (TUnion ts) v0 = true -> wf_ty (TUnion ts) = true -> is_str v0 = false -> v0 <> VNone ->
  (forall t, In t ts -> in_guard yl t v0 = true) ->
  is_ok (impl yl (TUnion ts) v0) = existsb (fun t => is_ok (impl yl t v0)) ts.
Proof. exact union_members_pinned. Qed.
Print Assumptions C02_union_iff_some_member_parse.

(* a toy loader for the examples and witnesses below *)
Definition yl0 (s : str) : lres :=          (* a toy loader: "1" -> 1, "a" -> 'a', "0x_" -> ValueError, else syntax error *)
  if str_eqb s [49]%N then LVal (VInt 1)
  else if str_eqb s [97]%N then LVal (VStr [97]%N)
  else if str_eqb s [48;120;95]%N then LValErr
  else LYamlErr.
Definition s_null : str := [110;117;108;108]%N.

Example C02_set_example :     (* Set[int] given [1, True]: True alone is rejected, so is the list — and in the other order too *)
  in_guard yl0 (TSet TInt) (VList [VInt 1; VBool true]) = true
  /\ is_ok (impl yl0 (TSet TInt) (VList [VInt 1; VBool true])) = false
  /\ is_ok (impl yl0 (TSet TInt) (VList [VBool true; VInt 1])) = false
  /\ impl yl0 (TSet (TUnion [TInt; TBool])) (VList [VInt 1; VBool true]) = AOk (VSet [VInt 1]).
Proof. vm_compute. repeat split. Qed.

(* ---- 2c. registered / restricted Union members and declared defaults (Model/C02Ext.v) ------------------------------ *)
(* the trial loop itself, for ARBITRARY member results `rs` (whatever a registered type's constructor did with the value:
   returned something, raised ValueError, OverflowError, decimal.InvalidOperation, ...): accepted exactly when some member
   result is a success (or the original text is taken for a str member), in every order, for every setting of the switches *)
Theorem C02_union_loop_iff_some_result :
  forall fx orig v rs,
  is_ok (adapt_union fx orig v rs)
  = existsb (fun r => is_ok (snd r)) rs || (is_some orig && negb (is_str v) && existsb (fun r => is_str_ty (fst r)) rs).
Proof. exact adapt_union_ok. Qed.
Print Assumptions C02_union_loop_iff_some_result.

Theorem C02_union_loop_order_independent :
  forall fx orig v rs rs', Permutation rs rs' -> is_ok (adapt_union fx orig v rs) = is_ok (adapt_union fx orig v rs').
Proof. exact union_loop_perm. Qed.
Print Assumptions C02_union_loop_order_independent.

Theorem C02_union_with_registered_members_order_independent :
  forall fx yl tbl orig v ms ms', Permutation ms ms' ->
  is_ok (adapt_union fx orig v (map (member_result fx yl tbl orig v) ms))
  = is_ok (adapt_union fx orig v (map (member_result fx yl tbl orig v) ms')).
Proof. exact members_perm. Qed.
Print Assumptions C02_union_with_registered_members_order_independent.

(* a declared default of the declared shape does not open a way around the hint: `val == default` is only ever applied
   to the original STRING (the retry of _check_type), so the first pass still yields the declared shape *)
Theorem C02_default_keeps_shape_repaired :
  forall yl tbl d t v0 w, (forall dv, d = Some dv -> shaped t dv = true) ->
  check_type_x all_fixed yl tbl d [MTy t] v0 = AOk w -> shaped t w = true.
Proof. exact check_type_default_sound. Qed.
Print Assumptions C02_default_keeps_shape_repaired.

Example C02_default_example :      (* int with default 1 given True / 1.0 (typed objects): rejected; the text 'a' equal to a str default: taken *)
  parse_key_x pinned yl0 [] (Some (VInt 1)) [MTy TInt] (VBool true) = AErr ErrType
  /\ parse_key_x pinned yl0 [] (Some (VInt 1)) [MTy TInt] (VFloat (FFin 1 0)) = AErr ErrType
  /\ parse_key_x pinned yl0 [] (Some (VStr [97]%N)) [MTy (TUnion [TInt; TStr])] (VStr [97]%N) = AOk (VStr [97]%N).
Proof. vm_compute. repeat split. Qed.

Example C02_registered_member_example :  (* Union[PositiveFloat, int] on 10**400: the first member raises, int accepts — in both orders *)
  let tbl := [([80]%N, VInt (10 ^ 400), AErr ErrValue)] in
  parse_key_x pinned yl0 tbl None [MOpq [80]%N; MTy TInt] (VInt (10 ^ 400)) = AOk (VInt (10 ^ 400))
  /\ parse_key_x pinned yl0 tbl None [MTy TInt; MOpq [80]%N] (VInt (10 ^ 400)) = AOk (VInt (10 ^ 400)).
Proof. vm_compute. split; reflexivity. Qed.

(* ---- 2d. command-line / config TEXT of the right shape is never rejected --------------------------------------- *)
(* `text_shaped yl t s` (Spec/C02Defs.v, the function the judge evaluates as text_right_shape): the text is not blank and not
   '-', load_basic reads it as the loader does, and the loader reads it as a value that is not a str and has the shape of
   the hint. Every hint of the grammar, every text, every loader: the loaded value is adapted (None, lists, dicts), or the
   parser keeps the text (ints, floats, bools) and the leaf / Literal / Any / Union branches load it again. *)
Theorem C02_text_of_right_shape_accepted_repaired :
  forall yl t s, wf_ty t = true -> text_shaped yl t s = true -> accepts all_fixed yl t (VStr s) = true.
Proof. exact parse_key_text_complete. Qed.
Print Assumptions C02_text_of_right_shape_accepted_repaired.

(* the first pass alone (ActionTypeHint._check_type), before the re-check *)
Theorem C02_text_of_right_shape_first_pass_repaired :
  forall yl t s, wf_ty t = true -> text_shaped yl t s = true -> is_ok (check_type_g all_fixed yl t (VStr s)) = true.
Proof. exact check_type_text_complete. Qed.
Print Assumptions C02_text_of_right_shape_first_pass_repaired.

(* the pinned tree inside the guard *)
Theorem C02_text_of_right_shape_accepted :
  forall yl t s, in_guard yl t (VStr s) = true -> wf_ty t = true -> text_shaped yl t s = true ->
  is_ok (impl yl t (VStr s)) = true.
Proof. exact text_complete_pinned. Qed.
Print Assumptions C02_text_of_right_shape_accepted.

(* the premises are satisfiable: '1' under Union[Literal['a', 1], None] (the parser keeps the text, the Literal branch loads
   it) and '[1, 1]' under Union[List[int], None] (the loaded list is adapted), with a loader that reads both *)
Definition yl1 (s : str) : lres :=
  if str_eqb s [91;49;44;32;49;93]%N then LVal (VList [VInt 1; VInt 1]) else yl0 s.
Example C02_text_shape_example :
  text_shaped yl1 (TUnion [TLit [LStr [97]%N; LInt 1]; TNone]) [49]%N = true
  /\ in_guard yl1 (TUnion [TLit [LStr [97]%N; LInt 1]; TNone]) (VStr [49]%N) = true
  /\ impl yl1 (TUnion [TLit [LStr [97]%N; LInt 1]; TNone]) (VStr [49]%N) = AOk (VInt 1)
  /\ text_shaped yl1 (TUnion [TList TInt; TNone]) [91;49;44;32;49;93]%N = true
  /\ in_guard yl1 (TUnion [TList TInt; TNone]) (VStr [91;49;44;32;49;93]%N) = true
  /\ impl yl1 (TUnion [TList TInt; TNone]) (VStr [91;49;44;32;49;93]%N) = AOk (VList [VInt 1; VInt 1])
  /\ text_shaped yl1 TStr [49]%N = false.          (* a text that YAML reads as an int is not str-shaped: no claim *)
Proof. vm_compute. repeat split. Qed.

(* ---- 3. the hypotheses are satisfiable by non-trivial inputs ----------------------------------------------------- *)

Example C02_guard_example :
  let t := TDict false (TUnion [TList (TTuple [TInt; TStr]); TNone]) in
  let v := VDict [(VStr [97]%N, VList [VTuple [VInt 3; VStr [120]%N]]); (VStr [98]%N, VNone)] in
  in_guard yl0 t v = true /\ impl yl0 t v = AOk (VDict [(VStr [97]%N, VList [VTuple [VInt 3; VStr [120]%N]]); (VStr [98]%N, VNone)]).
Proof. vm_compute. split; reflexivity. Qed.

Example C02_guard_example_text :      (* Union[int, str] given the text 'null': inside the guard, accepted as 'null' *)
  in_guard yl0 (TUnion [TInt; TStr]) (VStr s_null) = true /\ impl yl0 (TUnion [TInt; TStr]) (VStr s_null) = AOk (VStr s_null).
Proof. vm_compute. split; reflexivity. Qed.

(* ---- 4. the one open defect of the pinned tree -------------------------------------------------------------------- *)
(* the full statement that is still FALSE of the pinned tree:
     forall yl t v0 w, impl yl t v0 = AOk w -> conforms t w = true *)
Theorem C02_dict_key_refuted :              (* dict-key-unchecked: Dict[str, int] accepts {1: 2} *)
  exists yl, impl yl (TDict false TInt) (VDict [(VInt 1, VInt 2)]) = AOk (VDict [(VInt 1, VInt 2)])
             /\ conforms (TDict false TInt) (VDict [(VInt 1, VInt 2)]) = false
             /\ in_guard yl (TDict false TInt) (VDict [(VInt 1, VInt 2)]) = false.
Proof. exists yl0. vm_compute. repeat split. Qed.
Print Assumptions C02_dict_key_refuted.

(* ---- 5. regression witnesses: the tree BEFORE the C02 repairs (impl_before = as_is switches + in-place adaptation)
        violated the property; each of these inputs is now inside the guard of the pinned model and is replayed by every
        run (tie/props/c02.py witness_cases), so a recurrence is a model disagreement and a spec failure in class 0 ------ *)
Theorem C02_union_order_regression :        (* ec37b24: Union[str,int] rejected the str 'null', Union[int,str] accepted *)
  exists yl v0, shaped (TUnion [TStr; TInt]) v0 = true /\ is_ok (impl_before yl (TUnion [TStr; TInt]) v0) = false
                /\ is_ok (impl_before yl (TUnion [TInt; TStr]) v0) = true
                /\ in_guard yl (TUnion [TStr; TInt]) v0 = true /\ is_ok (impl yl (TUnion [TStr; TInt]) v0) = true.
Proof. exists yl0, (VStr s_null). vm_compute. repeat split. Qed.
Print Assumptions C02_union_order_regression.

Theorem C02_union_exception_value_regression : (* ec37b24: an exception instance was handed out as the value *)
  exists yl t v0 w, impl_before yl t v0 = AOk w /\ conforms t w = false
                    /\ in_guard yl t v0 = true /\ (forall w', impl yl t v0 = AOk w' -> conforms t w' = true).
Proof.
  exists (fun s => if str_eqb s [91;110;44;49;93]%N then LVal (VList [VNone; VStr [49]%N]) else yl0 s),
         (TUnion [TTuple [TUnion [TStr; TInt]; TStr]; TTuple [TAny; TInt]]), (VStr [91;110;44;49;93]%N),
         (VTuple [exc_val; VStr [49]%N]).
  repeat split; try (vm_compute; reflexivity).
  intros w' H. eapply sound_pinned; [|exact H]. vm_compute. reflexivity.
Qed.
Print Assumptions C02_union_exception_value_regression.

Theorem C02_literal_regression :            (* d000fe2: Literal[1, 2] accepted True *)
  exists yl, impl_before yl (TLit [LInt 1; LInt 2]) (VBool true) = AOk (VBool true)
             /\ conforms (TLit [LInt 1; LInt 2]) (VBool true) = false
             /\ in_guard yl (TLit [LInt 1; LInt 2]) (VBool true) = true
             /\ is_ok (impl yl (TLit [LInt 1; LInt 2]) (VBool true)) = false.
Proof. exists yl0. vm_compute. repeat split. Qed.
Print Assumptions C02_literal_regression.

Theorem C02_any_str_regression :            (* f7876f0: Any rejected the str '0x_' *)
  exists yl v0, shaped TAny v0 = true /\ is_ok (impl_before yl TAny v0) = false
                /\ in_guard yl TAny v0 = true /\ is_ok (impl yl TAny v0) = true.
Proof. exists yl0, (VStr [48;120;95]%N). vm_compute. repeat split. Qed.
Print Assumptions C02_any_str_regression.

Theorem C02_union_mutation_regression :     (* ce28ec8: Union[List[int], List[str]] rejected ['1', 'a'] *)
  exists yl v0, is_ok (impl_before yl (TUnion [TList TInt; TList TStr]) v0) = false
                /\ is_ok (impl_before yl (TUnion [TList TStr; TList TInt]) v0) = true
                /\ shaped (TUnion [TList TInt; TList TStr]) v0 = true
                /\ in_guard yl (TUnion [TList TInt; TList TStr]) v0 = true
                /\ is_ok (impl yl (TUnion [TList TInt; TList TStr]) v0) = true.
Proof. exists yl0, (VList [VStr [49]%N; VStr [97]%N]). vm_compute. repeat split. Qed.
Print Assumptions C02_union_mutation_regression.

Theorem C02_optional_enum_order_regression : (* c374a1a: Union[None, E] could not even be declared *)
  decl_crash_g false (TUnion [TNone; TEnum [69]%N [[65]%N]]) = true
  /\ decl_crash_g false (TUnion [TEnum [69]%N [[65]%N]; TNone]) = false
  /\ decl_crash (TUnion [TNone; TEnum [69]%N [[65]%N]]) = false.
Proof. vm_compute. repeat split. Qed.
Print Assumptions C02_optional_enum_order_regression.

Theorem C02_group_scalar_regression :       (* 895597a: parse_object({'g': 5}) with keys g.a: int was accepted *)
  exists yl, group_parse_g false yl [([97]%N, TInt)] (VInt 5) = AOk (VInt 5) /\ group_conforms [([97]%N, TInt)] (VInt 5) = false
             /\ is_ok (group_parse yl [([97]%N, TInt)] (VInt 5)) = false.
Proof. exists yl0. vm_compute. repeat split. Qed.
Print Assumptions C02_group_scalar_regression.

(* the hypotheses of the parse-level statements are satisfiable together: a list of tuples, one of them given as a list *)
Example C02_parse_level_example :
  let t := TTuple [TInt; TUnion [TFloat; TStr]] in
  let l := [VTuple [VInt 1; VFloat (FFin 5 (-1))]; VList [VInt 2; VInt 3]] in
  in_guard yl0 (TList t) (VList l) = true /\ wf_ty t = true
  /\ forallb (fun x => in_guard yl0 t x && negb (is_str x)) l = true
  /\ impl yl0 (TList t) (VList l) = AOk (VList [VTuple [VInt 1; VFloat (FFin 5 (-1))]; VTuple [VInt 2; VFloat (FFin 3 0)]]).
Proof. vm_compute. repeat split. Qed.

(* C05 — property theorems only. Each is closed by `exact` of a lemma proved in Proofs/ (or a vm_compute witness). *)
From JV Require Import Lib.Base Lib.Regex Model.TyVal Model.Scalar Model.Ty Model.TyLoader Model.C05Channels Model.C05History
  Model.C05Plain Proofs.C05Proofs Proofs.C05JsonYaml Proofs.C05PlainProofs Gen.C01Resolvers.

(* The input channels differ only in whether a text or a loaded value enters the type check, in how often the
   check runs before the value is stored, and in letting None through unchecked.  Hence, for ANY type check C
   (any type hint of the grammar, any loader), any text s and any value v: if the check takes the text for what
   it takes the value for, leaves its own result alone, and None is only given where the type admits it
   (guard — the same function the correspondence evaluates per case), then the environment, object / config
   document and config-via-environment channels store exactly what the command line stores, or all reject. *)
Theorem C05_channels_agree :
  forall (C : ty -> val -> ares) (t : ty) (s : str) (v : val),
    guard C t s v = true ->
    agree (via_env C t s) (via_argv C t s) /\
    agree (via_object C t v) (via_argv C t s) /\
    agree (via_cfgenv C t v) (via_argv C t s).
Proof. exact channels_agree. Qed.
Print Assumptions C05_channels_agree.

(* Strings at a str-typed position: for EVERY string, EVERY loader and every combination of the repairs of Model/Ty.v (whatever the text looks like — null,
   1e3, [1, 2], a: b, ...) each channel of the pinned type check stores the string itself. *)
Theorem C05_str_position_all_channels :
  forall (fx : fixes) (yl : str -> lres) (s : str),
    via_argv (chk fx yl) TStr s = AOk (VStr s) /\
    via_env (chk fx yl) TStr s = AOk (VStr s) /\
    via_object (chk fx yl) TStr (VStr s) = AOk (VStr s) /\
    via_cfgenv (chk fx yl) TStr (VStr s) = AOk (VStr s).
Proof. exact str_position_all_channels. Qed.
Print Assumptions C05_str_position_all_channels.

(* Non-string scalars at int / float / bool / None positions: for every loader, every text s and every
   non-string value x that the loader reads s as (`denotes`), the guard holds — so by C05_channels_agree all
   channels agree on (s, x), acceptance and rejection alike. *)
Theorem C05_scalar_text_is_object :
  forall (fx : fixes) (yl : str -> lres) (k : leaf) (s : str) (x : val),
    k <> LfStr -> denotes fx yl s x -> x <> VNone \/ k = LfNone ->
    guard (chk fx yl) (leaf_ty k) s x = true.
Proof. exact leaf_guard. Qed.
Print Assumptions C05_scalar_text_is_object.

(* The scalar half of "a JSON document is read identically under yaml": every JSON integer is resolved by the
   YAML loader's regenerated implicit-resolver table (first-character dispatch, first match wins) to tag int,
   every JSON number with a fraction or an exponent to tag float (this is why jsonargparse replaces PyYAML's
   float resolver), and true / false / null are read as the JSON literals. *)
Theorem C05_json_scalars_in_yaml :
  (forall s, matches json_int_re s = true -> resolve loader_table s = TgInt) /\
  (forall s, matches json_float_re s = true -> resolve loader_table s = TgFloat) /\
  model_yload [116;114;117;101]%N = LVal (VBool true) /\
  model_yload [102;97;108;115;101]%N = LVal (VBool false) /\
  model_yload [110;117;108;108]%N = LVal VNone.
Proof. exact json_scalars_in_yaml. Qed.
Print Assumptions C05_json_scalars_in_yaml.

(* What an earlier call can leave behind for the channels of a later one is the ContextVar previous_config, which
   parse_string / parse_path read: after ANY history of parse_args calls — accepted, rejected by an option, rejected
   while a --cfg value was being applied — it is what it was before (None at top level), so parse_string and
   parse_path keep answering like parse_object, options and --cfg.  The try/finally of previous_config_context is
   what this rests on (`nofinally_leaks` in Proofs/C05Proofs.v: without it [option; rejected --cfg] leaves Some 1). *)
Theorem C05_history_independent :
  forall (calls : list (list pitem)) (s : pstate), state_after s calls = s.
Proof. exact history_independent. Qed.
Print Assumptions C05_history_independent.

(* Options declared with nargs (? * + N), choices and / or a plain callable type — the code of _check_value_key below its
   type-hint branch, of _load_env_vars for list-valued options and of argparse's own value collection (Model/C05Plain.v):
   for ANY element function E (the callable, or the type-hint check), any choices, any nargs, any tokens following the
   option string, any environment text, any loader and any value: if the nargs pattern admits the number of tokens, the
   check takes the tokens and what the environment text is loaded as for what it takes the value for, argparse's test of
   the raw strings against the choices (type hints only) says what the test of the adapted values says, the check leaves
   its own result alone and None is given only where admitted (plain_guard — the function the correspondence evaluates per
   case), then environment, object / config document and config-via-environment store exactly what the command line
   stores, or all reject. *)
Theorem C05_plain_channels_agree :
  forall (E : val -> ares) (typed hint rawchk : bool) (choices : list val) (na : nargs)
         (yl : str -> lres) (toks : list str) (text : str) (v : val),
    plain_guard E typed hint rawchk choices na yl toks text v = true ->
    agree (via_plain_env E typed choices na yl text) (via_plain_argv E typed hint rawchk choices na toks) /\
    agree (via_plain_object E typed choices na v) (via_plain_argv E typed hint rawchk choices na toks) /\
    agree (via_plain_cfgenv E typed choices na v) (via_plain_argv E typed hint rawchk choices na toks).
Proof. exact plain_channels_agree. Qed.
Print Assumptions C05_plain_channels_agree.

Example C05_plain_guard_satisfiable :
  plain_guard (elem as_is w_yl PfPos) true false true [VInt 5; VInt 6; VInt 7] NPlus w_yl [[53]%N; [54]%N] [91;53;44;32;54;93]%N
              (VList [VInt 5; VInt 6]) = true
  /\ via_plain_argv (elem as_is w_yl PfPos) true false true [VInt 5; VInt 6; VInt 7] NPlus [[53]%N; [54]%N] = AOk (VList [VInt 5; VInt 6]).
Proof. exact example_plain_guard. Qed.

(* finding nargs-count-unchecked: without the count premise the statement is false — nargs=2 and ONE value: the command
   line rejects (for every E, choices: plain_argv_counts), the object and environment channels store [5] *)
Theorem C05_nargs_count_refuted :
  exists (na : nargs) (toks : list str) (text : str) (v : val),
    let E := elem as_is w_yl PfPos in
    is_ok (via_plain_argv E true false true [] na toks) = false /\
    via_plain_object E true [] na v = AOk v /\
    via_plain_env E true [] na w_yl text = AOk v.
Proof. exists (NNum 2), [[53]%N], [53]%N, (VList [VInt 5]). exact nargs_count_witness. Qed.

(* finding typed-choices-raw-argv: without the raw-choices premise the statement is false — type=int, choices=[1, 2, 3],
   setting 2: argparse tests the raw string, the command line rejects; object and environment store 2; without that test
   (rawchk = false: fixes/C05-typed-choices-raw-argv.patch) the command line stores 2 as well *)
Theorem C05_typed_choices_refuted :
  exists (choices : list val) (toks : list str) (text : str) (v : val),
    let E := elem as_is model_yload (PfHint TInt) in
    is_ok (via_plain_argv E true true true choices NOne toks) = false /\
    via_plain_argv E true true false choices NOne toks = AOk v /\
    via_plain_object E true choices NOne v = AOk v /\
    via_plain_env E true choices NOne model_yload text = AOk v.
Proof. exists [VInt 1; VInt 2; VInt 3], [[50]%N], [50]%N, (VInt 2). exact typed_choices_witness. Qed.

(* the hypotheses are satisfiable by non-trivial inputs *)
Example C05_guard_satisfiable : guard (chk as_is ex_yl) (TList TInt) ex_text ex_val = true.
Proof. exact example_guard. Qed.
Example C05_denotes_satisfiable : denotes as_is model_yload [49;50]%N (VInt 12).
Proof. exact example_denotes. Qed.

(* ---- the statement without its guards is false of the tree as pinned (`as_is`: no repair applied) -------------------------------------------- *)
(* finding none-unchecked: int-typed key, setting None — the object / document channels store None, `--k=null`
   is rejected, although the text reads as the value and the value is a fixed point *)
Theorem C05_none_unchecked_refuted :
  exists (t : ty) (s : str) (v : val),
    let C := chk as_is model_yload in
    g_reads C t s v = true /\ g_fixpt C t v = true /\
    via_object C t v = AOk VNone /\ is_ok (via_argv C t s) = false.
Proof. exists TInt, [110;117;108;108]%N, VNone. exact none_unchecked_witness. Qed.

(* finding clash-key-unadapted: float-typed key named like a Namespace attribute, setting 1 — inside the guard,
   yet the object channel stores int 1 where the command line stores float 1.0 *)
Theorem C05_clash_key_refuted :
  exists (t : ty) (s : str) (v : val),
    let C := chk as_is model_yload in
    guard C t s v = true /\
    run_channel C true ChObject t s v = AOk (VInt 1) /\
    run_channel C true ChArgv t s v = AOk (VFloat (FFin 1 0)).
Proof. exists TFloat, [49]%N, (VInt 1). exact clash_key_witness. Qed.

(* finding literal-eq-channels: Literal[1, 2] takes the object True (True == 1) but not the text "true"; with
   Literal membership by type-and-value the guard holds again *)
Theorem C05_literal_eq_refuted :
  exists (t : ty) (s : str) (v : val),
    let C := chk as_is model_yload in
    via_object C t v = AOk (VBool true) /\ is_ok (via_argv C t s) = false /\
    guard (chk_lit as_is model_yload) t s v = true.
Proof. exists (TLit [LInt 1; LInt 2]), [116;114;117;101]%N, (VBool true). exact literal_eq_witness. Qed.

(* finding nested-item-no-string-fallback: Dict[str, str], entry k = "null" — `--key={"k": "null"}` stores it,
   `--key.k=null` is rejected; with the retry on the entry's raw text both agree *)
Theorem C05_nested_item_refuted :
  exists (t : ty) (whole : str) (items : list (str * str)) (yl : str -> lres) (w : val),
    via_argv (chk as_is yl) t whole = AOk w /\
    is_ok (via_argv_nested as_is yl false t items) = false /\
    via_argv_nested as_is yl true t items = AOk w.
Proof.
  exists (TDict false TStr), [123;34;107;34;58;32;34;110;117;108;108;34;125]%N, [([107]%N, [110;117;108;108]%N)],
    (case_yload [([123;34;107;34;58;32;34;110;117;108;108;34;125]%N, LVal (VDict [(VStr [107]%N, VStr [110;117;108;108]%N)]))]),
    (VDict [(VStr [107]%N, VStr [110;117;108;108]%N)]).
  exact nested_item_witness.
Qed.

(* C08 — parse, validate, dump, save, merge, strip and instantiate never modify what they are given.
   Property theorems only; each is closed by `exact` of a lemma of Proofs/C08HeapProofs.v, or is a
   witness evaluated by the kernel. *)
From JV Require Import Lib.Base Model.C08Heap Model.C08Inst Spec.C08FrameSpec Proofs.C08HeapProofs Proofs.C08InstProofs.

(* ---- the full statement, which is FALSE of the pinned tree (see the _refuted witnesses below):
     forall p h0 o g, firstn (length h0) (s_h (out_st (run_op p o (mkst h0 g)))) = h0            *)

(* frame.  For every parser, every heap of caller-owned objects (any size, any nesting, sharing
   and cycles allowed), every operation of
     {get_defaults, parse_object, parse_string, parse_path, validate, dump, save, merge_config,
      strip_unknown, instantiate_classes}
   and every state of the globals: if no mutable container hangs below a tuple in the objects
   handed over (and, for parse_object, the argument is a dict without nested mutable containers),
   then after the call EVERY object that existed before — arguments, declared defaults, anything
   else — has exactly the content it had, whether the call returned, raised at any point, or the
   model ran out of fuel.  `guard` is the function the correspondence judge uses as finding class. *)
Theorem C08_frame :
  forall (p : parser) (h0 : heap) (o : op) (g : globals),
    guard p h0 o = true ->
    firstn (length h0) (s_h (out_st (run_op p o (mkst h0 g)))) = h0.
Proof. exact frame_all. Qed.
Print Assumptions C08_frame.

Theorem C08_frame_loc :
  forall (p : parser) (h0 : heap) (o : op) (g : globals) (l : nat) (c : cell),
    guard p h0 o = true -> nth_error h0 l = Some c ->
    nth_error (s_h (out_st (run_op p o (mkst h0 g)))) l = Some c.
Proof. exact frame_loc. Qed.
Print Assumptions C08_frame_loc.

(* brackets_restore.  No guard: for every operation, every input and every failure point, every
   global (cwd, argparse.Namespace, the parser context variables, current_path_dir, sub_defaults,
   os.environ) has after the call the value it had before. *)
Theorem C08_brackets_restore :
  forall (p : parser) (o : op) (s : st) (x : nat), s_g (out_st (run_op p o s)) x = s_g s x.
Proof. exact brackets_restore_thm. Qed.
Print Assumptions C08_brackets_restore.

(* the same region without its `finally` leaks: the theorem above is about the try/finally *)
Theorem C08_region_without_finally_leaks :
  exists s, s_g (out_st (bracket_nofinally G_CWD 1 (@fail unit) s)) G_CWD <> s_g s G_CWD.
Proof. exact nofinally_leaks. Qed.
Print Assumptions C08_region_without_finally_leaks.

(* defaults_untouched.  get_defaults returns a tree whose containers were all allocated by the call
   (it shares nothing with the declared defaults), and the declared defaults are as before: two
   calls give two separate, equal trees. *)
Theorem C08_defaults_untouched :
  forall (p : parser) (h0 : heap) (g : globals),
    guard p h0 OGetDefaults = true ->
    match get_defaults false p (mkst h0 g) with
    | Ok r s' => refs_ge (length h0) r = true /\ firstn (length h0) (s_h s') = h0
    | Err _ s' => firstn (length h0) (s_h s') = h0
    end.
Proof. exact defaults_untouched_thm. Qed.
Print Assumptions C08_defaults_untouched.

(* ---- findings on the pinned tree: the unguarded statement is false --------------------------- *)
Definition k_ : str := [107]%N.
Definition s1 : str := [49]%N.
Definition s2 : str := [50]%N.
Definition changed (p : parser) (h0 : heap) (o : op) : bool :=
  negb (list_eqb oval_eqb (view_old (length h0) (s_h (out_st (run_op p o (mkst h0 g0))))) (snapshot0 h0)).

(* parse_object({'k': [['1','2'],[3]]}) with k: List[List[int]] — the caller's inner list becomes [1,2] *)
Definition po_parser : parser := [{| d_key := k_; d_ty := TList (TList TInt); d_dflt := VNone |}].
Definition po_heap : heap :=
  [CDict [(k_, VRef 1)]; CList [VRef 2; VRef 3]; CList [VStr s1; VStr s2]; CList [VInt 3]].
Theorem C08_parse_object_mutates_refuted :
  exists p h0 o, nth_error (s_h (out_st (run_op p o (mkst h0 g0)))) 2 <> nth_error h0 2 /\ changed p h0 o = true
                 /\ guard_class p h0 o = 1%N.
Proof.
  exists po_parser, po_heap, (OParseObject (VRef 0)). vm_compute. repeat split; congruence.
Qed.
Print Assumptions C08_parse_object_mutates_refuted.

(* dump(Namespace(k=([(1,2)],))) with k: Tuple[List[Tuple[int,int]]] — the caller's ([(1,2)],) becomes ([[1,2]],) *)
Definition dt_parser : parser := [{| d_key := k_; d_ty := TTup1 (TList (TTup2 TInt TInt)); d_dflt := VNone |}].
Definition dt_heap : heap := [CNs [(k_, VTup [VRef 1])]; CList [VTup [VInt 1; VInt 2]]].
Theorem C08_dump_tuple_refuted :
  exists p h0 o, nth_error (s_h (out_st (run_op p o (mkst h0 g0)))) 1 <> nth_error h0 1 /\ changed p h0 o = true
                 /\ guard_class p h0 o = 2%N.
Proof.
  exists dt_parser, dt_heap, (ODump (VRef 0) false). vm_compute. repeat split; congruence.
Qed.
Print Assumptions C08_dump_tuple_refuted.

(* a failing parse_object leaves a half-rewritten list behind: {'k': ['1','x']} with List[int] *)
Theorem C08_parse_object_failure_mutates_refuted :
  exists p h0 o, (match run_op p o (mkst h0 g0) with Err EFail _ => true | _ => false end) = true /\ changed p h0 o = true.
Proof.
  exists [{| d_key := k_; d_ty := TList TInt; d_dflt := VNone |}],
         [CDict [(k_, VRef 1)]; CList [VStr s1; VStr [120]%N]], (OParseObject (VRef 0)).
  vm_compute. split; reflexivity.
Qed.
Print Assumptions C08_parse_object_failure_mutates_refuted.

(* get_defaults with the default ([1],) for Tuple[List[int]] hands out the parser's own list *)
Theorem C08_get_defaults_shares_refuted :
  exists p h0, match get_defaults false p (mkst h0 g0) with
               | Ok r s' => has_old (view FUEL (length h0) (s_h s') r) = true
               | Err _ _ => False
               end.
Proof.
  exists [{| d_key := k_; d_ty := TTup1 (TList TInt); d_dflt := VTup [VRef 0] |}], [CList [VInt 1]].
  vm_compute. reflexivity.
Qed.
Print Assumptions C08_get_defaults_shares_refuted.

(* ---- the repaired tree (fixes/C08-container-below-tuple-shared.patch + fixes/C08-parse-object-adapts-in-place.patch):
   `run_op_fixed` is the same model with recreate_branches rebuilding plain tuples and parse_object
   working on recreate_branches(cfg_obj).  The statement holds WITHOUT any guard: every parser, every
   heap (containers below tuples, sharing, cycles, Namespace arguments), every operation, every state
   of the globals, success or failure. *)
Definition is_ok {A} (r : out A) : bool := match r with Ok _ _ => true | Err _ _ => false end.
Theorem C08_fixed_frame :
  forall (p : parser) (h0 : heap) (o : op) (g : globals),
    groups_guard h0 o = true ->
    firstn (length h0) (s_h (out_st (run_op_fixed p o (mkst h0 g)))) = h0.
Proof. exact frame_fixed. Qed.
Print Assumptions C08_fixed_frame.

Theorem C08_fixed_frame_loc :
  forall (p : parser) (h0 : heap) (o : op) (g : globals) (l : nat) (c : cell),
    groups_guard h0 o = true -> nth_error h0 l = Some c ->
    nth_error (s_h (out_st (run_op_fixed p o (mkst h0 g)))) l = Some c.
Proof. exact frame_fixed_loc. Qed.
Print Assumptions C08_fixed_frame_loc.

(* ---- class groups (round 6).  The operations now include instantiate_classes on a parser with class groups
   (OInstantiateGroups a gs: after the typed components every group stores a NEW instance under its key of the
   namespace strip_meta returned).  `groups_guard` (= finding class 4 of the judge, open finding
   empty-config-not-copied) excludes exactly: an EMPTY configuration object and at least one group - there
   strip_meta (`if cfg:`) hands the caller's own namespace on and the instances are written into it.  With
   fixes/C08-empty-config-not-copied.patch (strip_meta always copies; run_op_fixed3) no guard is left. *)
Theorem C08_fixed3_frame :
  forall (p : parser) (h0 : heap) (o : op) (g : globals),
    firstn (length h0) (s_h (out_st (run_op_fixed3 p o (mkst h0 g)))) = h0.
Proof. exact frame_fixed3. Qed.
Print Assumptions C08_fixed3_frame.

Theorem C08_fixed3_frame_loc :
  forall (p : parser) (h0 : heap) (o : op) (g : globals) (l : nat) (c : cell),
    nth_error h0 l = Some c ->
    nth_error (s_h (out_st (run_op_fixed3 p o (mkst h0 g)))) l = Some c.
Proof. exact frame_fixed3_loc. Qed.
Print Assumptions C08_fixed3_frame_loc.

Theorem C08_fixed3_brackets_restore :
  forall (p : parser) (o : op) (s : st) (x : nat), s_g (out_st (run_op_fixed3 p o s)) x = s_g s x.
Proof. exact brackets_restore_fixed3. Qed.
Print Assumptions C08_fixed3_brackets_restore.

(* finding on the current tree: p.add_class_arguments(Unit, "u"); cfg = Namespace(); p.instantiate_classes(cfg)
   returns cfg itself, now holding u=<Unit object>; the repaired model leaves it empty and returns a new namespace *)
Definition u_ : str := [117]%N.
Theorem C08_instantiate_empty_config_refuted :
  exists p h0 o, groups_guard h0 o = false /\ guard_class p h0 o = 4%N
                 /\ firstn (length h0) (s_h (out_st (run_op_fixed p o (mkst h0 g0)))) <> h0
                 /\ firstn (length h0) (s_h (out_st (run_op_fixed3 p o (mkst h0 g0)))) = h0.
Proof. exists [], [CNs []], (OInstantiateGroups (VRef 0) [u_]). vm_compute. repeat split; congruence. Qed.
Print Assumptions C08_instantiate_empty_config_refuted.

(* the guard is satisfiable by the ordinary use: a non-empty configuration on a parser with two groups, and an empty
   one on a parser without groups; both succeed and leave the caller's objects alone *)
Example C08_groups_guard_satisfiable :
  groups_guard [CNs [(k_, VRef 1)]; CList [VStr s1]] (OInstantiateGroups (VRef 0) [u_; [118]%N]) = true
  /\ is_ok (run_op_fixed [{| d_key := k_; d_ty := TList TInt; d_dflt := VNone |}]
                         (OInstantiateGroups (VRef 0) [u_; [118]%N]) (mkst [CNs [(k_, VRef 1)]; CList [VStr s1]] g0)) = true
  /\ groups_guard [CNs []] (OInstantiateGroups (VRef 0) []) = true.
Proof. vm_compute. repeat split; reflexivity. Qed.

Theorem C08_fixed_brackets_restore :
  forall (p : parser) (o : op) (s : st) (x : nat), s_g (out_st (run_op_fixed p o s)) x = s_g s x.
Proof. exact brackets_restore_fixed. Qed.
Print Assumptions C08_fixed_brackets_restore.

Theorem C08_fixed_defaults_untouched :
  forall (p : parser) (h0 : heap) (g : globals),
    match get_defaults true p (mkst h0 g) with
    | Ok r s' => refs_ge (length h0) r = true /\ firstn (length h0) (s_h s') = h0
    | Err _ s' => firstn (length h0) (s_h s') = h0
    end.
Proof. exact defaults_untouched_fixed. Qed.
Print Assumptions C08_fixed_defaults_untouched.

(* the four witnesses above, run through the repaired model: nothing the caller owns changes, the
   calls still succeed / fail as before, and get_defaults shares nothing *)
Definition changed_fixed (p : parser) (h0 : heap) (o : op) : bool :=
  negb (list_eqb oval_eqb (view_old (length h0) (s_h (out_st (run_op_fixed p o (mkst h0 g0))))) (snapshot0 h0)).
Example C08_fixed_witnesses_repaired :
  changed_fixed po_parser po_heap (OParseObject (VRef 0)) = false
  /\ is_ok (run_op_fixed po_parser (OParseObject (VRef 0)) (mkst po_heap g0)) = true
  /\ changed_fixed dt_parser dt_heap (ODump (VRef 0) false) = false
  /\ is_ok (run_op_fixed dt_parser (ODump (VRef 0) false) (mkst dt_heap g0)) = true
  /\ changed_fixed [{| d_key := k_; d_ty := TList TInt; d_dflt := VNone |}]
                   [CDict [(k_, VRef 1)]; CList [VStr s1; VStr [120]%N]] (OParseObject (VRef 0)) = false
  /\ is_ok (run_op_fixed [{| d_key := k_; d_ty := TList TInt; d_dflt := VNone |}] (OParseObject (VRef 0))
                         (mkst [CDict [(k_, VRef 1)]; CList [VStr s1; VStr [120]%N]] g0)) = false
  /\ match get_defaults true [{| d_key := k_; d_ty := TTup1 (TList TInt); d_dflt := VTup [VRef 0] |}] (mkst [CList [VInt 1]] g0) with
     | Ok r s' => has_old (view FUEL 1 (s_h s') r) = false
     | Err _ _ => False
     end.
Proof. vm_compute. repeat split; reflexivity. Qed.

(* ---- "Instantiating classes twice from one configuration builds, for every class given by a
   class_path/init_args spec (including specs derived from signature defaults), two distinct fresh
   objects" (Model/C08Inst.v: a configuration is a tree of scalars, lists, tuples and specs of any size
   and nesting, every spec listing all parameters of its class, those derived from defaults marked;
   identity = the n-th object built by the process).  For every configuration and every starting state:
   each call builds one object per spec, the objects of the two calls are pairwise distinct, and none
   of them existed before — on the current tree (fx = false) under `inst_guard` (no default-derived
   spec below a tuple; = finding class 3 of the judge), with fixes/C08-default-below-tuple-shared.patch
   (fx = true) without any guard. *)
Theorem C08_instantiate_twice_fresh :
  forall (fx : bool) (c : nat) (cfg : ivals),
    (fx = false -> inst_guard cfg = true) ->
    let '(ids1, ids2) := inst_twice fx c cfg in
    NoDup (ids1 ++ ids2) /\ (forall i, In i (ids1 ++ ids2) -> c <= i)
    /\ length ids1 = count_list cfg /\ length ids2 = count_list cfg.
Proof. exact instantiate_twice_fresh. Qed.
Print Assumptions C08_instantiate_twice_fresh.

Theorem C08_instantiate_twice_pairwise_distinct :
  forall (fx : bool) (c : nat) (cfg : ivals) (k : nat),
    (fx = false -> inst_guard cfg = true) ->
    k < count_list cfg ->
    nth k (fst (inst_twice fx c cfg)) 0 <> nth k (snd (inst_twice fx c cfg)) 0.
Proof. exact instantiate_twice_pairwise_distinct. Qed.
Print Assumptions C08_instantiate_twice_pairwise_distinct.

(* the executable spec used by the correspondence judge accepts exactly this behaviour ... *)
Theorem C08_instantiate_twice_spec :
  forall (fx : bool) (c : nat) (cfg : ivals),
    (fx = false -> inst_guard cfg = true) ->
    fresh_twice_ok c cfg (fst (inst_twice fx c cfg)) (snd (inst_twice fx c cfg)) = true.
Proof. exact instantiate_twice_spec. Qed.
Print Assumptions C08_instantiate_twice_spec.

(* ... and rejects an instantiate_classes that hands out the objects of the first call again *)
Theorem C08_cached_instantiate_refuted :
  exists c cfg, fresh_twice_ok c cfg (fst (inst_twice_cached c cfg)) (snd (inst_twice_cached c cfg)) = false.
Proof. exact cached_instantiate_refuted. Qed.
Print Assumptions C08_cached_instantiate_refuted.

(* finding on the current tree: the unguarded statement is false.  (Pair(), 1) for Tuple[Base, int],
   Pair.left having a lazy_instance signature default: both calls (and every other configuration) get
   the one live default object of the signature; the repaired model builds fresh ones. *)
Theorem C08_default_below_tuple_shared_refuted :
  exists cfg, inst_guard cfg = false
              /\ fresh_twice_ok 1 cfg (fst (inst_twice false 1 cfg)) (snd (inst_twice false 1 cfg)) = false
              /\ fresh_twice_ok 1 cfg (fst (inst_twice true 1 cfg)) (snd (inst_twice true 1 cfg)) = true.
Proof. exact default_below_tuple_shared_refuted. Qed.
Print Assumptions C08_default_below_tuple_shared_refuted.

(* Node(child=Pair(left=<default> Leaf(5))), [Leaf(1)]: inside the guard; 4 + 4 objects, numbered 2..9 *)
Example C08_instantiate_twice_example :
  let cfg := ICons (ISpec false [78]%N (ICons (ISpec false [80]%N (ICons (ISpec true [76]%N (ICons (IInt 5) INil)) INil)) (ICons (IInt 3) INil)))
               (ICons (IList (ICons (ISpec false [76]%N (ICons (IInt 1) INil)) INil)) INil) in
  inst_guard cfg = true /\ inst_twice false 2 cfg = ([2; 3; 4; 5], [6; 7; 8; 9])%nat.
Proof. vm_compute. split; reflexivity. Qed.

(* ---- two cooperating declarations: --o with the declared default {'m': 1} (the caller's own dict) and, below it,
   --o.h with default 2.  get_defaults (any tree) hands out a copy {'m': 1, 'h': 2} and leaves the declared dict alone
   (an instance of C08_fixed_frame, whose get_defaults now assigns through dotted keys); copying only once at the end
   instead of per action writes 'h' into the declared dict. *)
Definition pc_parser : parser :=
  [{| d_key := [111]%N; d_ty := TDict TInt; d_dflt := VRef 0 |}; {| d_key := [111; 46; 104]%N; d_ty := TInt; d_dflt := VInt 2 |}].
Definition pc_heap : heap := [CDict [([109]%N, VInt 1)]].
Example C08_parent_child_defaults :
  match get_defaults true pc_parser (mkst pc_heap g0) with
  | Ok r s' => view FUEL 1 (s_h s') r = ONewNs [([111]%N, ONewDict [([109]%N, OInt 1); ([104]%N, OInt 2)])]
               /\ nth_error (s_h s') 0 = Some (CDict [([109]%N, VInt 1)])
  | Err _ _ => False
  end.
Proof. vm_compute. split; reflexivity. Qed.
Theorem C08_get_defaults_late_copy_refuted :
  exists p h0, firstn (length h0) (s_h (out_st (get_defaults_late_copy true p (mkst h0 g0)))) <> h0.
Proof. exists pc_parser, pc_heap. vm_compute. congruence. Qed.
Print Assumptions C08_get_defaults_late_copy_refuted.

(* ---- list-valued actions (nargs): _check_type writes the checked elements back into the list it was handed, on every
   tree; validate / validate(branch=KEY) are safe only because they work on a clone (inside C08_fixed_frame, which now
   covers the type constructor TNargs and the operation OValidateBranch).  Without the clone the caller's list is rewritten: *)
Definition nb_parser : parser := [{| d_key := k_; d_ty := TNargs TInt; d_dflt := VNone |}].
Definition nb_heap : heap := [CNs [(k_, VRef 1)]; CList [VStr s1; VInt 2]].
Example C08_validate_branch_leaves_argument :
  firstn 2 (s_h (out_st (run_op_fixed nb_parser (OValidateBranch (VRef 0)) (mkst nb_heap g0)))) = nb_heap
  /\ is_ok (run_op_fixed nb_parser (OValidateBranch (VRef 0)) (mkst nb_heap g0)) = true.
Proof. vm_compute. split; reflexivity. Qed.
Theorem C08_validate_branch_noclone_refuted :
  exists p h0 a, firstn (length h0) (s_h (out_st (validate_branch_noclone true p a (mkst h0 g0)))) <> h0.
Proof. exists nb_parser, nb_heap, (VRef 0). vm_compute. congruence. Qed.
Print Assumptions C08_validate_branch_noclone_refuted.

(* ---- try/finally regions in general: any nesting of regions around any body that leaves the globals
   alone (returning or raising) leaves them alone; in particular the skeletons of parse_args with a
   config file, default_config_files in get_defaults / format_help / parse_args, list files and
   parse_env, whether the body fails or not. *)
Theorem C08_regions_restore :
  forall (A : Type) (gs : list nat) (body : M A),
    (forall s x, s_g (out_st (body s)) x = s_g s x) ->
    forall s x, s_g (out_st (regions gs body s)) x = s_g s x.
Proof. exact (fun A gs body => @regions_restore A gs body). Qed.
Print Assumptions C08_regions_restore.

Theorem C08_aux_brackets_restore :
  forall (entry : N) (fails : bool) (s : st) (x : nat), s_g (out_st (aux_run entry fails s)) x = s_g s x.
Proof. exact aux_restore_thm. Qed.
Print Assumptions C08_aux_brackets_restore.

(* ---- the guard is satisfiable by non-trivial inputs ------------------------------------------ *)
(* dump / validate / instantiate of Namespace(k=[[1,2],[3]], t=(1,2)) with a list-of-lists default *)
Definition ex_parser : parser :=
  [{| d_key := k_; d_ty := TList (TList TInt); d_dflt := VRef 4 |};
   {| d_key := [116]%N; d_ty := TTup2 TInt TInt; d_dflt := VNone |}].
Definition ex_heap : heap :=
  [CNs [(k_, VRef 1); ([116]%N, VTup [VInt 1; VInt 2])]; CList [VRef 2; VRef 3]; CList [VStr s1; VInt 2]; CList [VInt 3];
   CList [VRef 5]; CList [VInt 9]].
Example C08_guard_satisfiable_dump : guard ex_parser ex_heap (ODump (VRef 0) false) = true
  /\ (match run_op ex_parser (ODump (VRef 0) false) (mkst ex_heap g0) with Ok _ _ => true | _ => false end) = true.
Proof. vm_compute. split; reflexivity. Qed.
Example C08_guard_satisfiable_instantiate : guard ex_parser ex_heap (OInstantiate (VRef 0)) = true.
Proof. vm_compute. reflexivity. Qed.
(* parse_object({'k': (('1','2'),(3,)), 't': ['4', 5]}) is inside the guard and succeeds *)
Definition ex_heap2 : heap :=
  [CDict [(k_, VTup [VTup [VStr s1; VStr s2]; VTup [VInt 3]])]; CList [VRef 2]; CList [VInt 9]].
Definition ex_parser2 : parser := [{| d_key := k_; d_ty := TList (TList TInt); d_dflt := VRef 1 |}].
Example C08_guard_satisfiable_parse_object : guard ex_parser2 ex_heap2 (OParseObject (VRef 0)) = true
  /\ (match run_op ex_parser2 (OParseObject (VRef 0)) (mkst ex_heap2 g0) with Ok _ _ => true | _ => false end) = true.
Proof. vm_compute. split; reflexivity. Qed.

"""Standalone reproduction of the C09 finding class-parser-skip-set-shared on the unchanged tree.
Run: PYTHONPATH=/repo /venv/bin/python -B notes/C09-skip-set-repro.py   (exit 1 = the defect is present)

ActionTypeHint.get_class_parser (_typehints.py) makes a SHALLOW copy of the action's sub_add_kwargs and then does
kwargs.setdefault("skip", set()).add(skip_args): when the dict already holds a "skip" set (a signature-derived
argument whose type has a class member, added with skip={"<arg>.init_args.<p>"}), the number of positionals to skip
for a Callable[[...], Class] value is added to the ACTION's own set and stays there for every later call."""
import sys
from typing import Callable, Union

from jsonargparse import ArgumentParser


class Base:
    def __init__(self, a: int = 1):
        self.a = a


class SubB(Base):
    def __init__(self, a: int = 2, b: str = "x", c: int = 0):
        super().__init__(a)


class Fac:
    """a callable class that is no Base: fine for Callable[[int], Base], none of its parameters is skipped"""

    def __init__(self, a: int = 4, z: int = 5):
        self.a = a

    def __call__(self, x: int) -> Base:
        return Base(self.a + x)


class Other:
    def __init__(self, q: int = 1):
        pass


class Holder:
    def __init__(self, cb: Union[Other, Callable[[int], Base], None] = None):
        pass


def build():
    p = ArgumentParser(exit_on_error=False)
    p.add_class_arguments(Holder, skip={"cb.init_args.c"})
    return p


def ask(p):
    try:
        return repr(p.parse_args(["--cb=__main__.Fac", "--cb.a=3"]))
    except BaseException as e:  # noqa
        return "%s: %s" % (type(e).__name__, str(e).splitlines()[0])


p = build()
p.parse_args(["--cb=__main__.SubB", "--cb.b=q"])          # a Base subclass through the Callable member: skip_args = 1
reused, fresh = ask(p), ask(build())
print("skip set of the action now:", [a for a in p._actions if a.dest == "cb"][0].sub_add_kwargs.get("skip"))
print("reused:", reused)
print("fresh :", fresh)
sys.exit(0 if reused == fresh else 1)

"""run C19 mutants: python run.py <name> [<name> ...]   (each in its own worktree + private coq copy)"""
import json, os, shutil, subprocess, sys, tempfile

ROOT = "/verif"
M = {
    # 1. restoration of the cwd only on the success path (failure inside a nested load needed)
    "m1_no_finally": ("jsonargparse/_util.py", [(
        "    finally:\n        current_path_dir.reset(token)\n        if chdir:\n            os.chdir(chdir)\n",
        "    finally:\n        current_path_dir.reset(token)\n    if chdir:\n        os.chdir(chdir)\n")]),
    # 2. nested config file applied without entering its directory (needs nesting >= 2 in different directories)
    "m2_nested_no_chdir": ("jsonargparse/_actions.py", [(
        "            with change_to_path_dir(cfg_path):\n                cfg = parser._apply_actions(cfg, parent_key=self.dest)",
        "            with change_to_path_dir(None):\n                cfg = parser._apply_actions(cfg, parent_key=self.dest)")]),
    # 3. copy-paste: the not-writeable flag tests readability (needs r != w on the path: permission variants as non-root)
    "m3_W_tests_R": ("jsonargparse/_util.py", [(
        'if "W" in mode and os.access(abs_path, os.W_OK):', 'if "W" in mode and os.access(abs_path, os.R_OK):')]),
    # 4. mode language: "c" may occur three times (translator table changes, documented-language theorem breaks)
    "m4_ccc": ("jsonargparse/_util.py", [(
        'if count > (2 if flag == "c" else 1):', 'if count > (3 if flag == "c" else 1):')]),
    # 5. relative reports the user-expanded spelling (only '~' spellings show it)
    "m5_relative_expanded": ("jsonargparse/_util.py", [(
        "        self._relative = path\n        self._absolute = abs_path\n",
        "        self._relative = abs_path if is_absolute else path\n        self._absolute = abs_path\n")]),
    # 6. existence/type block depends on the ORDER of the flags (only modes whose first flag is not f/d show it)
    "m6_flag_order": ("jsonargparse/_util.py", [(
        '            elif "d" in mode or "f" in mode:\n', '            elif mode[:1] in ("d", "f"):\n')]),
    # 7. two cooperating sites: only the OUTERMOST config file changes the process directory (needs a nested file in
    #    another directory whose relative paths differ between the two directories)
    "m7_only_outermost_chdir": ("jsonargparse/_util.py", [(
        "    if chdir and path_dir:\n        chdir = os.getcwd()\n",
        "    if chdir and path_dir and isinstance(token.old_value, str):\n"
        "        chdir = False\n    if chdir and path_dir:\n        chdir = os.getcwd()\n")]),
    # 8. single "c" behaves like "cc" (needs a missing parent directory and exactly one c)
    "m8_c_like_cc": ("jsonargparse/_util.py", [(
        'if not os.path.isdir(pdir) and mode.count("c") == 2:', 'if not os.path.isdir(pdir) and mode.count("c") >= 1:')]),
    # 9. the fallback of _check_type swallows a failed path inside a nested file by retrying from the outer directory:
    #    list items are adapted without entering the list file's directory
    "m9_list_items_no_chdir": ("jsonargparse/_typehints.py", [(
        "                with change_to_path_dir(list_path):\n                    val[n] = adapt_typehints(v, subtypehints[0], list_item=True, **adapt_kwargs_n)",
        "                val[n] = adapt_typehints(v, subtypehints[0], list_item=True, **adapt_kwargs_n)")]),
    # 10. two cooperating sites: path_type normalises the mode of the type (set) while Path counts the "c" flags
    #     (needs "cc", a missing parent directory, and the call to go through path_type)
    "m10_path_type_dedups": ("jsonargparse/typing.py", [(
        "        _mode = mode\n", "        _mode = \"\".join(sorted(set(mode), key=mode.index))\n")]),
}


def sh(cmd, env=None, cwd=None):
    p = subprocess.run(cmd, shell=True, stdout=subprocess.PIPE, stderr=subprocess.STDOUT, env=env, cwd=cwd, timeout=3000)
    return p.returncode, "\n".join(l for l in p.stdout.decode(errors="replace").splitlines() if "conda" not in l)


def one(name, tier="quick"):
    path, edits = M[name]
    wt = "/tmp/wt_C19_%s" % name
    sh("git -C /repo worktree remove --force %s" % wt)
    rc, out = sh("git -C /repo worktree add --detach %s" % wt)
    assert rc == 0, out
    coqdir = tempfile.mkdtemp(prefix="jv_coq_C19_%s_" % name)
    outdir = "/tmp/c19_mut_out_%s" % name
    shutil.rmtree(outdir, ignore_errors=True)
    try:
        p = os.path.join(wt, path)
        s = open(p).read()
        for old, new in edits:
            assert s.count(old) == 1, (name, old)
            s = s.replace(old, new)
        open(p, "w").write(s)
        rc, diff = sh("git -C %s diff" % wt)
        sh("cp -a %s/coq/. %s/ && rm -f %s/Corr/cases_* %s/Corr/.cases_* %s/.lock" % (ROOT, coqdir, coqdir, coqdir, coqdir))
        env = dict(os.environ, VERIF_REPO=wt, VERIF_COQ_DIR=coqdir, VERIF_OUT_DIR=outdir)
        rc, out = sh("bin/check C19 --tier %s" % tier, env=env, cwd=ROOT)
        lines = out.splitlines()
        viol = [l for l in lines if l.startswith("VIOLATION")]
        print("=== %s rc=%s  %s" % (name, rc, lines[-1] if lines else ""))
        for v in viol[:3]:
            print("   ", v)
            rp = v.split("replay=")[1].split()[0]
            try:
                pl = json.load(open(rp))
                print("      kind:", pl.get("kind"))
                print("      explain:", json.dumps(pl.get("explain"))[:700])
            except Exception as e:
                print("      (replay unreadable: %r)" % e)
        if not viol:
            print("\n".join(lines[-15:]))
    finally:
        shutil.rmtree(coqdir, ignore_errors=True)
        sh("git -C /repo worktree remove --force %s" % wt)
        shutil.rmtree(wt, ignore_errors=True)


if __name__ == "__main__":
    tier = "quick"
    names = sys.argv[1:]
    if names and names[0] in ("quick", "thorough"):
        tier, names = names[0], names[1:]
    for n in names:
        one(n, tier)

from typing import Any
from jsonargparse import ArgumentParser
import traceback

class Inner:
    def __init__(self, x: Any = -1, y: Any = -1): self.x, self.y = x, y; self.at = "inner-at"
class Inner2:
    def __init__(self, z: Any = -1): self.z = z; self.out = "inner2-out"
class Outer:
    def __init__(self, sub: Inner, sub2: Inner2 = None, x: Any = -1): self.sub, self.sub2, self.x = sub, sub2, x; self.at = "outer-at"
class G:
    def __init__(self, p: Any = -1): self.p = p; self.at = "g-at"
M = __name__
def cfg_model():
    return {"model": {"class_path": f"{M}.Outer", "init_args": {"sub": {"class_path": f"{M}.Inner"}, "sub2": {"class_path": f"{M}.Inner2"}}}}

print("--- T1: nested link inside model + outer link into model.init_args.x")
for order in ((0, 1), (1, 0)):
    p = ArgumentParser(exit_on_error=False)
    p.add_argument("--model", type=Outer); p.add_class_arguments(G, "g")
    links = [("model.sub2.out", "model.init_args.sub.init_args.x"), ("g.at", "model.init_args.x")]
    try:
        for i in order:
            p.link_arguments(*links[i], apply_on="instantiate")
        init = p.instantiate_classes(p.parse_object(cfg_model()))
        print(order, "ok", init.model.x, init.model.sub.x)
    except Exception as e:
        print(order, type(e).__name__, str(e)[:200])

print("--- T1b: nested link alone")
p = ArgumentParser(exit_on_error=False); p.add_argument("--model", type=Outer)
try:
    p.link_arguments("model.sub2.out", "model.init_args.sub.init_args.x", apply_on="instantiate")
    init = p.instantiate_classes(p.parse_object(cfg_model())); print("ok", init.model.sub.x)
except Exception as e: print(type(e).__name__, str(e)[:200])

print("--- T2: link whose source is the whole-object target of another link")
class Holder:
    def __init__(self, inner: Inner = None): self.inner = inner
for order in ((0, 1), (1, 0)):
    p = ArgumentParser(exit_on_error=False)
    p.add_argument("--a", type=Inner); p.add_argument("--b", type=Inner); p.add_class_arguments(G, "g")
    links = [("a", "b"), ("b", "g.p")]
    try:
        for i in order:
            p.link_arguments(*links[i], apply_on="instantiate")
        init = p.instantiate_classes(p.parse_object({"a": {"class_path": f"{M}.Inner"}}))
        print(order, "ok", init.g.p, init.b)
    except Exception as e:
        print(order, type(e).__name__, str(e)[:200])

print("--- T3: state after a rejected cycle")
p = ArgumentParser(exit_on_error=False)
p.add_class_arguments(G, "g"); p.add_class_arguments(G, "h")
p.link_arguments("g.at", "h.p", apply_on="instantiate")
try:
    p.link_arguments("h.at", "g.p", apply_on="instantiate")
except ValueError as e:
    print("rejected:", str(e)[:100])
print("links group:", [(getattr(a, "_source", None), getattr(a, "_target", None)) for a in p._links_group._group_actions], "| g.p action:", type(p._option_string_actions.get("--g.p")).__name__)
try:
    init = p.instantiate_classes(p.parse_object({}))
    print("instantiate ok", init.h.p, init.g.p)
except Exception as e:
    print("instantiate", type(e).__name__, str(e)[:200])

"""Fail-closed translation of Python `re` patterns (as compiled objects or pattern+flags) to Gallina
terms of JV.Lib.Regex.re, with *full-match* semantics of `pattern.match(s)` for patterns of the shape
^ body $   (Python's `$` also matches before one trailing newline: translated as an optional \\n), or
^ body     (prefix match: body followed by anything).
Anything outside the supported subset raises Unsupported (the tie is then broken, never guessed)."""
import re

try:
    import re._parser as sp
    import re._constants as sc
except ImportError:  # < 3.11
    import sre_parse as sp
    import sre_constants as sc


class Unsupported(Exception):
    pass


ALLOWED_FLAGS = re.X | re.U


def cls(ranges, neg=False):
    return "(Chr {| c_ranges := [%s]; c_neg := %s |})" % ("; ".join("(%d, %d)%%N" % r for r in ranges), "true" if neg else "false")


def cat(parts):
    parts = [p for p in parts if p != "Eps"]
    if not parts:
        return "Eps"
    if len(parts) == 1:
        return parts[0]
    return "(cat_list [%s])" % "; ".join(parts)


def alt(parts):
    if len(parts) == 1:
        return parts[0]
    return "(alt_list [%s])" % "; ".join(parts)


def category_ranges(cat_code):
    # only ASCII-exact categories are supported for str patterns would be wrong (\d is Unicode): fail closed
    raise Unsupported("character category %s (Unicode-dependent) not supported" % cat_code)


def tr_items(items):
    out = []
    for op, av in items:
        out.append(tr_item(op, av))
    return cat(out)


def tr_item(op, av):
    if op is sc.LITERAL:
        return "(chr %d)" % av
    if op is sc.NOT_LITERAL:
        return cls([(av, av)], neg=True)
    if op is sc.ANY:
        return cls([(10, 10)], neg=True)  # no DOTALL (flag check): any char but newline
    if op is sc.IN:
        neg = False
        ranges = []
        for iop, iav in av:
            if iop is sc.NEGATE:
                neg = True
            elif iop is sc.LITERAL:
                ranges.append((iav, iav))
            elif iop is sc.RANGE:
                ranges.append((iav[0], iav[1]))
            elif iop is sc.CATEGORY:
                category_ranges(iav)
            else:
                raise Unsupported("class item %s" % iop)
        return cls(ranges, neg)
    if op is sc.BRANCH:
        return alt([tr_items(list(b)) for b in av[1]])
    if op is sc.SUBPATTERN:
        group, add_flags, del_flags, sub = av
        if add_flags or del_flags:
            raise Unsupported("inline flags")
        return tr_items(list(sub))
    if op in (sc.MAX_REPEAT, sc.MIN_REPEAT):
        lo, hi, sub = av
        r = tr_items(list(sub))
        if lo > 64 or (hi is not sc.MAXREPEAT and hi > 64):
            raise Unsupported("repeat bound too large")
        parts = ["(repeat_re %d %s)" % (lo, r)] if lo else []
        if hi is sc.MAXREPEAT:
            parts.append("(Star %s)" % r)
        else:
            k = hi - lo
            if k:
                t = "Eps"
                for _ in range(k):
                    t = "(opt %s)" % cat([r, t])
                parts.append(t)
        return cat(parts)
    raise Unsupported("regex construct %s" % op)


def translate(pattern, flags=0):
    """Gallina term whose language is {s | re.compile(pattern, flags).match(s)}."""
    if isinstance(pattern, re.Pattern):
        flags = pattern.flags
        pattern = pattern.pattern
    if not isinstance(pattern, str):
        raise Unsupported("bytes pattern")
    if flags & ~ALLOWED_FLAGS:
        raise Unsupported("flags %s" % re.RegexFlag(flags & ~ALLOWED_FLAGS))
    tree = list(sp.parse(pattern, flags))
    if tree and tree[0] == (sc.AT, sc.AT_BEGINNING):
        tree = tree[1:]
    anchored_end = False
    if tree and tree[-1] == (sc.AT, sc.AT_END):
        tree = tree[:-1]
        anchored_end = True
    elif tree and tree[-1] == (sc.AT, sc.AT_END_STRING):
        tree = tree[:-1]
        anchored_end = "string"

    def no_anchor(items):
        for op, av in items:
            if op is sc.AT:
                raise Unsupported("anchor inside the pattern")
            if op is sc.BRANCH:
                for b in av[1]:
                    no_anchor(list(b))
            elif op is sc.SUBPATTERN:
                no_anchor(list(av[3]))
            elif op in (sc.MAX_REPEAT, sc.MIN_REPEAT):
                no_anchor(list(av[2]))
            elif op in (sc.GROUPREF, sc.GROUPREF_EXISTS, sc.ASSERT, sc.ASSERT_NOT, sc.ATOMIC_GROUP if hasattr(sc, "ATOMIC_GROUP") else None, sc.POSSESSIVE_REPEAT if hasattr(sc, "POSSESSIVE_REPEAT") else None):
                raise Unsupported("construct %s" % op)

    no_anchor(tree)
    body = tr_items(tree)
    if anchored_end is True:
        return cat([body, "(opt (chr 10))"])
    if anchored_end == "string":
        return body
    return cat([body, "(Star any_char)"])

"""Fail-closed translator: jsonargparse._util.Path._check_mode  ->  coq/Gen/C19PathFlags.v

Only the exact statement shapes below are understood; anything else raises TieBroken (never a guess).

    if not isinstance(mode, str): raise ValueError(...)
    if len(set(mode) - set("<ALPHABET>")) > 0: raise ValueError(...)
    for flag, count in Counter(mode).items():
        if count > (<K> if flag == "<c>" else <D>): raise ValueError(...)
    if "<a>" in mode and "<b>" in mode: raise ValueError(...)          (any number of these)
"""
import ast
import os
import textwrap

from tie.framework import COQ, REPO, TieBroken


def _fail(msg, node=None):
    where = " (line %d)" % node.lineno if node is not None and hasattr(node, "lineno") else ""
    raise TieBroken("C19 translator: " + msg + where)


def _raises_value_error(body):
    if len(body) != 1 or not isinstance(body[0], ast.Raise):
        return False
    exc = body[0].exc
    return (isinstance(exc, ast.Call) and isinstance(exc.func, ast.Name) and exc.func.id == "ValueError"
            and body[0].cause is None)


def _is_name(n, name):
    return isinstance(n, ast.Name) and n.id == name


def _const_str(n, length=None):
    if isinstance(n, ast.Constant) and isinstance(n.value, str) and (length is None or len(n.value) == length):
        return n.value
    return None


def _in_mode(n):
    """`"<c>" in mode` -> c"""
    if (isinstance(n, ast.Compare) and len(n.ops) == 1 and isinstance(n.ops[0], ast.In)
            and _is_name(n.comparators[0], "mode")):
        return _const_str(n.left, 1)
    return None


def extract(source_path):
    tree = ast.parse(open(source_path).read())
    fn = None
    for cls in [n for n in tree.body if isinstance(n, ast.ClassDef) and n.name == "Path"]:
        for n in cls.body:
            if isinstance(n, ast.FunctionDef) and n.name == "_check_mode":
                fn = n
    if fn is None:
        _fail("Path._check_mode not found")
    if [a.arg for a in fn.args.args] != ["mode"] or fn.args.vararg or fn.args.kwarg or fn.args.kwonlyargs:
        _fail("unexpected signature", fn)
    if not (len(fn.decorator_list) == 1 and _is_name(fn.decorator_list[0], "staticmethod")):
        _fail("expected a staticmethod", fn)
    body = list(fn.body)
    if body and isinstance(body[0], ast.Expr) and isinstance(body[0].value, ast.Constant) and isinstance(body[0].value.value, str):
        body = body[1:]  # docstring
    if len(body) < 3:
        _fail("too few statements", fn)

    # 1. isinstance test
    s = body[0]
    ok = (isinstance(s, ast.If) and not s.orelse and _raises_value_error(s.body)
          and isinstance(s.test, ast.UnaryOp) and isinstance(s.test.op, ast.Not)
          and isinstance(s.test.operand, ast.Call) and _is_name(s.test.operand.func, "isinstance")
          and len(s.test.operand.args) == 2 and _is_name(s.test.operand.args[0], "mode")
          and _is_name(s.test.operand.args[1], "str"))
    if not ok:
        _fail("statement 1 is not `if not isinstance(mode, str): raise ValueError`", s)

    # 2. alphabet
    s = body[1]
    alphabet = None
    if isinstance(s, ast.If) and not s.orelse and _raises_value_error(s.body):
        t = s.test
        if (isinstance(t, ast.Compare) and len(t.ops) == 1 and isinstance(t.ops[0], ast.Gt)
                and isinstance(t.comparators[0], ast.Constant) and t.comparators[0].value == 0
                and isinstance(t.left, ast.Call) and _is_name(t.left.func, "len") and len(t.left.args) == 1):
            d = t.left.args[0]
            if (isinstance(d, ast.BinOp) and isinstance(d.op, ast.Sub)
                    and isinstance(d.left, ast.Call) and _is_name(d.left.func, "set") and len(d.left.args) == 1
                    and _is_name(d.left.args[0], "mode")
                    and isinstance(d.right, ast.Call) and _is_name(d.right.func, "set") and len(d.right.args) == 1):
                alphabet = _const_str(d.right.args[0])
    if alphabet is None:
        _fail('statement 2 is not `if len(set(mode) - set("...")) > 0: raise ValueError`', s)
    if len(set(alphabet)) != len(alphabet) or not alphabet.isascii():
        _fail("alphabet has repeated or non-ascii flags", s)

    # 3. multiplicities
    s = body[2]
    special = default = None
    if (isinstance(s, ast.For) and not s.orelse and isinstance(s.target, ast.Tuple) and len(s.target.elts) == 2
            and _is_name(s.target.elts[0], "flag") and _is_name(s.target.elts[1], "count")
            and isinstance(s.iter, ast.Call) and not s.iter.args and isinstance(s.iter.func, ast.Attribute)
            and s.iter.func.attr == "items" and isinstance(s.iter.func.value, ast.Call)
            and _is_name(s.iter.func.value.func, "Counter") and len(s.iter.func.value.args) == 1
            and _is_name(s.iter.func.value.args[0], "mode") and len(s.body) == 1):
        i = s.body[0]
        if isinstance(i, ast.If) and not i.orelse and _raises_value_error(i.body):
            t = i.test
            if (isinstance(t, ast.Compare) and len(t.ops) == 1 and isinstance(t.ops[0], ast.Gt)
                    and _is_name(t.left, "count") and isinstance(t.comparators[0], ast.IfExp)):
                e = t.comparators[0]
                if (isinstance(e.body, ast.Constant) and type(e.body.value) is int
                        and isinstance(e.orelse, ast.Constant) and type(e.orelse.value) is int
                        and isinstance(e.test, ast.Compare) and len(e.test.ops) == 1 and isinstance(e.test.ops[0], ast.Eq)
                        and _is_name(e.test.left, "flag") and _const_str(e.test.comparators[0], 1)):
                    special = (_const_str(e.test.comparators[0], 1), e.body.value)
                    default = e.orelse.value
    if special is None:
        _fail('statement 3 is not `for flag, count in Counter(mode).items(): if count > (K if flag == "c" else D): raise`', s)
    if not (0 <= default <= 9 and 0 <= special[1] <= 9):
        _fail("multiplicity bound out of range", s)

    # 4+. exclusions
    excl = []
    for s in body[3:]:
        pair = None
        if isinstance(s, ast.If) and not s.orelse and _raises_value_error(s.body):
            t = s.test
            if isinstance(t, ast.BoolOp) and isinstance(t.op, ast.And) and len(t.values) == 2:
                a, b = _in_mode(t.values[0]), _in_mode(t.values[1])
                if a and b:
                    pair = (a, b)
        if pair is None:
            _fail('statement is not `if "a" in mode and "b" in mode: raise ValueError`', s)
        excl.append(pair)
    return {"alphabet": alphabet, "max_default": default, "max_special": [special], "exclusions": excl}


def write_gen(tab):
    def n(c):
        return "%d" % ord(c)

    text = textwrap.dedent("""\
        (* GENERATED by tie/c19_translate.py from %s  Path._check_mode -- do not edit, not committed. *)
        From JV Require Import Lib.Base.
        Definition c19_alphabet : list N := [%s]%%N.   (* %s *)
        Definition c19_max_default : N := %d%%N.
        Definition c19_max_special : list (N * N) := [%s]%%N.
        Definition c19_exclusions : list (N * N) := %s.
        """) % (
        "jsonargparse/_util.py",
        "; ".join(n(c) for c in tab["alphabet"]), tab["alphabet"],
        tab["max_default"],
        "; ".join("(%s, %d)" % (n(c), k) for c, k in tab["max_special"]),
        ("[" + "; ".join("(%s, %s)" % (n(a), n(b)) for a, b in tab["exclusions"]) + "]%N") if tab["exclusions"] else "(@nil (N * N))",
    )
    d = os.path.join(COQ, "Gen")
    os.makedirs(d, exist_ok=True)
    path = os.path.join(d, "C19PathFlags.v")
    old = open(path).read() if os.path.exists(path) else None
    if old != text:  # keep the timestamp when nothing changed (no needless rebuild)
        with open(path, "w") as f:
            f.write(text)
    return path


def translate():
    src = os.path.join(REPO, "jsonargparse", "_util.py")
    try:
        tab = extract(src)
    except (OSError, SyntaxError) as e:
        raise TieBroken("C19 translator: cannot read %s: %s" % (src, e))
    write_gen(tab)
    return {"C19PathFlags.v": {"source": "jsonargparse/_util.py Path._check_mode", "alphabet": tab["alphabet"],
                               "max_default": tab["max_default"], "max_special": tab["max_special"],
                               "exclusions": ["".join(p) for p in tab["exclusions"]]}}

"""C03 — fail-closed translator: jsonargparse/*.py  ->  exception-flow IR  ->  coq/Gen/C03ExnIR.v

For every function of the package reachable *by name* from the parse entry points a term of

    stmt := Skip | Abrupt | Raise site | Reraise k | Call f | Seq | Choice | Loop
          | Try body handlers orelse finally | IfX a b | Nested s

is produced (see coq/Model/C03ExnFlow.v for the semantics).  Everything the translator does not
understand raises TieBroken: an unknown statement kind, a callee that is neither a package function,
nor resolvable by method name, nor listed in the committed tables of tie/c03_tables.py, a handler
type expression that cannot be evaluated to exception classes, a `raise` of something that is not
recognisably an exception class.

What is resolved how
  * `f(...)`, f a module-level/nested/imported package function   -> Call f
  * `C(...)`, C a package class                                   -> Call C.__init__ (nearest definition in the MRO)
  * `C.m(...)`, `self.m(...)`, `cls.m(...)`, `super().m(...)`      -> the method(s) m of the class family
  * `x.m(...)` for any other receiver                             -> Choice over ALL package methods named m
                                                                     (over-approximation of dynamic dispatch)
                                                                     plus the external method summary for m
  * `x[k]`, `x[k] = v`, `del x[k]`, `k in x`                       -> Choice(Skip, package __getitem__/__setitem__/
                                                                     __delitem__/__contains__)  (Namespace)
  * `with cm(...): body`, cm a package @contextmanager function    -> cm's body with the `yield` replaced by body
  * `with suppress(E...)`                                          -> Try body [(E, Skip)]
  * external callees                                               -> EXTERNAL (tie/c03_tables.py): exception classes
                                                                     "or any subclass", expanded to one raise site per
                                                                     concrete class of the universe
  * external callees that call back into the package (argparse)    -> CALLBACKS (tie/c03_tables.py)
  * calls of values (`loader(...)`, `action.type(...)`)            -> DYNAMIC (tie/c03_tables.py)
  * `if not self.exit_on_error` in ArgumentParser.error            -> IfX;   calls on a parser obtained from
    get_class_parser / ArgumentParser(exit_on_error=False)          -> Nested (exit_on_error := false in the callee)
  * tests listed in ASSUMED_TESTS (debug mode off, no capture_parser) -> only the stated branch
The subclass relation, the value of dynamic handler expressions (get_loader_exceptions()) and the class raised
by `raise helper(...)` are queried from the live classes in a subprocess with PYTHONPATH=REPO.
"""
import ast
import json
import os
import subprocess
import sys

from tie import framework
from tie.framework import TieBroken
from tie import c03_tables as T

ENTRY_METHODS = ["parse_args", "parse_object", "parse_string", "parse_env", "parse_path", "error"]
ENTRY_CLASS = "_core.ArgumentParser"


def entry_quals():
    return ["%s.%s" % (ENTRY_CLASS, m) for m in ENTRY_METHODS]


class Fn:
    def __init__(self, qual, module, cls, node, parent=None):
        self.qual, self.module, self.cls, self.node, self.parent = qual, module, cls, node, parent
        self.inner = {}  # nested function name -> qual
        decos = [ast.unparse(d) for d in node.decorator_list]
        self.is_cm = any(d.split(".")[-1] == "contextmanager" for d in decos)
        self.is_property = any(d == "property" or d.endswith(".setter") or d.endswith(".getter") for d in decos)
        self.is_overload = any(d.split(".")[-1] == "overload" for d in decos)


class Index:
    """Everything syntactic about the package."""

    def __init__(self, repo):
        self.repo = repo
        self.pkg = os.path.join(repo, "jsonargparse")
        self.fns = {}          # qual -> Fn
        self.classes = {}      # clsqual -> {"bases": [expr source], "methods": {name: qual}, "module": m}
        self.globals = {}      # module -> name -> ("fn", qual) | ("class", clsqual) | ("extmod", dotted) | ("ext", dotted) | ("var", None)
        self.methods_by_name = {}
        self.sources = {}
        mods = sorted(f[:-3] for f in os.listdir(self.pkg) if f.endswith(".py"))
        if not mods:
            raise TieBroken("no python sources under %s" % self.pkg)
        self.modules = mods
        trees = {}
        for m in mods:
            src = open(os.path.join(self.pkg, m + ".py")).read()
            self.sources[m] = src.splitlines()
            try:
                trees[m] = ast.parse(src)
            except SyntaxError as e:
                raise TieBroken("cannot parse %s.py: %s" % (m, e))
        for m in mods:
            self.globals[m] = {}
            self._index_module(m, trees[m])
        # second pass: imports between package modules (after all defs are known)
        for m in mods:
            self._index_imports(m, trees[m].body, self.globals[m])
        for q, f in self.fns.items():
            if f.cls and f.parent is None:
                self.methods_by_name.setdefault(q.rsplit(".", 1)[1], []).append(q)

    # -- definitions ------------------------------------------------------------------------------
    def _index_module(self, m, tree):
        def walk_body(body, g, toplevel=True):
            for st in body:
                if isinstance(st, (ast.FunctionDef, ast.AsyncFunctionDef)):
                    q = "%s.%s" % (m, st.name)
                    fn = Fn(q, m, None, st)
                    if fn.is_overload:
                        continue
                    self.fns[q] = fn
                    g[st.name] = ("fn", q)
                    self._index_inner(fn)
                elif isinstance(st, ast.ClassDef):
                    cq = "%s.%s" % (m, st.name)
                    info = {"bases": [ast.unparse(b) for b in st.bases], "methods": {}, "module": m, "node": st}
                    self.classes[cq] = info
                    g[st.name] = ("class", cq)
                    for it in st.body:
                        if isinstance(it, (ast.FunctionDef, ast.AsyncFunctionDef)):
                            q = "%s.%s" % (cq, it.name)
                            fn = Fn(q, m, cq, it)
                            if fn.is_overload:
                                continue
                            if fn.is_property and q in self.fns:
                                continue  # keep the getter under the plain name; setters are not followed
                            self.fns[q] = fn
                            info["methods"][it.name] = q
                            self._index_inner(fn)
                elif isinstance(st, (ast.If, ast.Try)):
                    # conditional definitions at module level (version switches): index every branch
                    for sub in ("body", "orelse", "finalbody"):
                        walk_body(getattr(st, sub, []), g, False)
                    for h in getattr(st, "handlers", []):
                        walk_body(h.body, g, False)
                elif isinstance(st, (ast.Assign, ast.AnnAssign)):
                    tgts = st.targets if isinstance(st, ast.Assign) else [st.target]
                    for t in tgts:
                        if isinstance(t, ast.Name) and t.id not in g:
                            g[t.id] = ("var", None)

        walk_body(tree.body, self.globals[m])

    def _index_inner(self, fn):
        for st in ast.walk(fn.node):
            if st is fn.node:
                continue
            if isinstance(st, (ast.FunctionDef, ast.AsyncFunctionDef)) and self._direct_parent_fn(fn.node, st):
                q = "%s.<%s>" % (fn.qual, st.name)
                inner = Fn(q, fn.module, fn.cls, st, parent=fn)
                self.fns[q] = inner
                fn.inner[st.name] = q
                self._index_inner(inner)

    @staticmethod
    def _direct_parent_fn(outer, target):
        # is `target` nested in `outer` without another function in between?
        def rec(node):
            for ch in ast.iter_child_nodes(node):
                if ch is target:
                    return True
                if isinstance(ch, (ast.FunctionDef, ast.AsyncFunctionDef, ast.Lambda, ast.ClassDef)):
                    continue
                if rec(ch):
                    return True
            return False

        return rec(outer)

    def _index_imports(self, m, body, g):
        for st in body:
            if isinstance(st, ast.Import):
                for a in st.names:
                    g[(a.asname or a.name).split(".")[0]] = ("extmod", a.name if a.asname else a.name.split(".")[0])
            elif isinstance(st, ast.ImportFrom):
                src = st.module or ""
                if st.level > 0 or src.startswith("jsonargparse"):
                    pm = src.split(".")[-1] if src and src != "jsonargparse" else "__init__"
                    for a in st.names:
                        name = a.asname or a.name
                        tgt = self.globals.get(pm, {}).get(a.name)
                        if tgt is None and pm == "__init__":
                            tgt = self._find_anywhere(a.name)
                        if tgt is None and a.name in self.modules:
                            tgt = ("pkgmod", a.name)
                        g[name] = tgt if tgt is not None else ("var", None)
                else:
                    for a in st.names:
                        g[a.asname or a.name] = ("ext", "%s.%s" % (src, a.name))
            elif isinstance(st, (ast.If, ast.Try)):
                for sub in ("body", "orelse", "finalbody"):
                    self._index_imports(m, getattr(st, sub, []), g)
                for h in getattr(st, "handlers", []):
                    self._index_imports(m, h.body, g)

    def _find_anywhere(self, name):
        for m in self.modules:
            t = self.globals.get(m, {}).get(name)
            if t and t[0] in ("fn", "class"):
                return t
        return None

    # -- class families ---------------------------------------------------------------------------
    def base_classes(self, cq):
        """package base classes of cq (transitively), nearest first; plus list of external base expressions"""
        seen, ext, order = set(), [], []

        def rec(c):
            info = self.classes[c]
            for b in info["bases"]:
                t = self.globals[info["module"]].get(b.split(".")[0]) if "." not in b else None
                if t and t[0] == "class":
                    if t[1] not in seen:
                        seen.add(t[1])
                        order.append(t[1])
                        rec(t[1])
                else:
                    ext.append(b)

        rec(cq)
        return order, ext

    def subclasses(self, cq):
        res = []
        for c in self.classes:
            if c != cq and cq in self.base_classes(c)[0]:
                res.append(c)
        return res

    def lookup_method(self, cq, name):
        """nearest definition of `name` for class cq going up the package bases"""
        for c in [cq] + self.base_classes(cq)[0]:
            q = self.classes[c]["methods"].get(name)
            if q:
                return q
        return None


# ---------------------------------------------------------------------------------------------------
# IR construction helpers (python side: tuples)
# ---------------------------------------------------------------------------------------------------
SKIP = ("skip",)
ABRUPT = ("abrupt",)


def seq(items):
    items = [i for i in items if i != SKIP]
    out = []
    for i in items:
        if i[0] == "seq":
            out.extend(i[1])
        else:
            out.append(i)
    if not out:
        return SKIP
    if len(out) == 1:
        return out[0]
    return ("seq", out)


def choice(items):
    out = []
    for i in items:
        if i[0] == "choice":
            for j in i[1]:
                if j not in out:
                    out.append(j)
        elif i not in out:
            out.append(i)
    if not out:
        return SKIP
    if len(out) == 1:
        return out[0]
    return ("choice", out)


def maybe(s):
    return SKIP if s == SKIP else choice([SKIP, s])


def subst_hole(s, body):
    k = s[0]
    if k == "hole":
        return body
    if k in ("seq", "choice"):
        return (k, [subst_hole(x, body) for x in s[1]])
    if k == "loop":
        return (k, subst_hole(s[1], body))
    if k == "relabel":
        return (k, subst_hole(s[1], body)) + tuple(s[2:])
    if k == "withx":
        return (k, s[1], subst_hole(s[2], body))
    if k == "ifx":
        return (k, subst_hole(s[1], body), subst_hole(s[2], body))
    if k == "try":
        return (k, subst_hole(s[1], body), [(cs, subst_hole(h, body)) for cs, h in s[2]], subst_hole(s[3], body), subst_hole(s[4], body))
    return s


def has_hole(s):
    k = s[0]
    if k == "hole":
        return True
    if k in ("seq", "choice"):
        return any(has_hole(x) for x in s[1])
    if k in ("loop", "relabel"):
        return has_hole(s[1])
    if k == "withx":
        return has_hole(s[2])
    if k == "ifx":
        return has_hole(s[1]) or has_hole(s[2])
    if k == "try":
        return has_hole(s[1]) or any(has_hole(h) for _, h in s[2]) or has_hole(s[3]) or has_hole(s[4])
    return False


def shift_reraise(s, d, depth=0):
    """a with-body moved inside the handlers of an inlined context manager keeps referring to ITS OWN
    enclosing handlers: add d to every Reraise index that points outside the moved body."""
    k = s[0]
    if k == "reraise":
        return ("reraise", s[1] + d) if s[1] >= depth else s
    if k in ("seq", "choice"):
        return (k, [shift_reraise(x, d, depth) for x in s[1]])
    if k == "loop":
        return (k, shift_reraise(s[1], d, depth))
    if k == "relabel":
        return (k, shift_reraise(s[1], d, depth)) + tuple(s[2:])
    if k == "withx":
        return (k, s[1], shift_reraise(s[2], d, depth))
    if k == "ifx":
        return (k, shift_reraise(s[1], d, depth), shift_reraise(s[2], d, depth))
    if k == "try":
        return (k, shift_reraise(s[1], d, depth), [(cs, shift_reraise(h, d, depth + 1)) for cs, h in s[2]],
                shift_reraise(s[3], d, depth), shift_reraise(s[4], d, depth))
    return s


# ---------------------------------------------------------------------------------------------------
# the translator proper
# ---------------------------------------------------------------------------------------------------
class Translator:
    def __init__(self, repo, mode="yaml", collect_unknown=False, implicit_sites=None):
        self.implicit_sites = [t[:3] for t in T.IMPLICIT_SITES] if implicit_sites is None else implicit_sites
        self.ix = Index(repo)
        self.repo = repo
        self.mode = mode
        self.collect_unknown = collect_unknown
        self.unknown = {}
        self.sites = []        # {"fn", "line", "cls_expr" or "cls", "module", "kind"}
        self.site_key = {}
        self.bodies = {}       # qual -> IR with symbolic sites/classes
        self.pending_exprs = {}  # (module, expr) -> list of class names (filled by live query)
        self.called = {}
        self.live = None
        self.boundary_used = set()
        self.assumed_used = set()
        self.skipped_by_name = set()

    # -- errors -----------------------------------------------------------------------------------
    def broken(self, fn, node, msg):
        where = "%s:%s" % (fn.qual if fn else "?", getattr(node, "lineno", "?"))
        if self.collect_unknown:
            self.unknown.setdefault(msg, []).append(where)
            return SKIP
        raise TieBroken("translate_exn_ir: %s at %s" % (msg, where), witness={"where": where, "what": msg})

    # -- sites ------------------------------------------------------------------------------------
    def site(self, fn, node, module, cls_expr, kind, subclasses=False, extra="{}"):
        """symbolic raise: resolved to concrete site ids once the live class table is known"""
        return ("raise_sym", fn.qual, getattr(node, "lineno", 0), module, cls_expr, kind, subclasses, extra)

    def ext_raises(self, fn, node, classes, kind):
        """summary raise: "C" raises exactly class C, "C+" raises C or any subclass of C in the universe, "C!" ALWAYS raises C
        (the callee never returns: sys.exit)"""
        always = any(c.endswith("!") for c in classes)
        return choice(([] if always else [SKIP]) + [self.site(fn, node, "@abs", c.rstrip("+!"), kind, c.endswith("+")) for c in classes]) if classes else SKIP

    # -- scopes -----------------------------------------------------------------------------------
    def resolve_name(self, fn, name, local_imports):
        if name in local_imports:
            return local_imports[name]
        f = fn
        while f is not None:
            if name in f.inner:
                return ("fn", f.inner[name])
            f = f.parent
        return self.ix.globals[fn.module].get(name)

    def local_names(self, fn):
        """names bound inside the function (params, assignments, loop targets, with-as, except-as)"""
        if hasattr(fn, "_locals"):
            return fn._locals
        names = set()
        a = fn.node.args
        for arg in a.posonlyargs + a.args + a.kwonlyargs + ([a.vararg] if a.vararg else []) + ([a.kwarg] if a.kwarg else []):
            names.add(arg.arg)

        def rec(node):
            for ch in ast.iter_child_nodes(node):
                if isinstance(ch, (ast.FunctionDef, ast.AsyncFunctionDef, ast.Lambda, ast.ClassDef)):
                    continue
                if isinstance(ch, ast.Name) and isinstance(ch.ctx, (ast.Store, ast.Del)):
                    names.add(ch.id)
                if isinstance(ch, ast.ExceptHandler) and ch.name:
                    names.add(ch.name)
                rec(ch)

        rec(fn.node)
        fn._locals = names
        return names

    def is_local(self, fn, name):
        f = fn
        while f is not None:
            if name in self.local_names(f):
                return True
            f = f.parent
        return False

    # -- function bodies --------------------------------------------------------------------------
    def translate_fn(self, qual):
        if qual in self.bodies:
            return
        fn = self.ix.fns[qual]
        self.bodies[qual] = None  # in progress
        ctx = {"handlers": [], "imports": {}, "nested_vars": self.nested_parser_vars(fn)}
        body = self.block(fn, fn.node.body, ctx)
        for site_fn, cls, why in self.implicit_sites:
            if site_fn == qual:
                body = seq([choice([SKIP, self.site(fn, fn.node, "@abs", cls, "implicit: " + why, False)]), body])
        self.bodies[qual] = body

    def nested_parser_vars(self, fn):
        """local variables bound to a freshly created parser: get_class_parser(...) / ArgumentParser(exit_on_error=False)
        give exit_on_error=False, ArgumentParser(...) / type(parser)(...) without the keyword give the default True.
        Calls on such a variable run with the exit_on_error flag set accordingly (WithX)."""
        res = {}
        for node in ast.walk(fn.node):
            if isinstance(node, ast.Assign) and isinstance(node.value, ast.Call):
                src = ast.unparse(node.value.func)
                flag = None
                if src.split(".")[-1] == "get_class_parser":
                    flag = False
                elif src.split(".")[-1] == "ArgumentParser" or src in ("type(parser)", "type(self)"):
                    if fn.cls and src == "type(self)" and not fn.cls.endswith("ArgumentParser"):
                        continue
                    flag = True
                    for k in node.value.keywords:
                        if k.arg == "exit_on_error":
                            if isinstance(k.value, ast.Constant) and isinstance(k.value.value, bool):
                                flag = k.value.value
                            else:
                                flag = None
                if flag is not None:
                    for t in node.targets:
                        if isinstance(t, ast.Name):
                            res[t.id] = flag
        return res

    def block(self, fn, stmts, ctx):
        return seq([self.stmt(fn, s, ctx) for s in stmts])

    def stmt(self, fn, s, ctx):
        E = lambda e: self.expr(fn, e, ctx)  # noqa: E731
        if isinstance(s, ast.Expr):
            if isinstance(s.value, (ast.Yield, ast.YieldFrom)):
                if fn.is_cm:
                    return seq([E(s.value.value) if s.value.value is not None else SKIP, ("hole",)])
                return E(s.value.value) if s.value.value is not None else SKIP
            return E(s.value)
        if isinstance(s, ast.Assign):
            if isinstance(s.value, (ast.Yield, ast.YieldFrom)):
                return self.broken(fn, s, "yield used as an expression")
            return seq([E(s.value)] + [self.target(fn, t, ctx) for t in s.targets])
        if isinstance(s, ast.AugAssign):
            return seq([E(s.value), self.target(fn, s.target, ctx)])
        if isinstance(s, ast.AnnAssign):
            return seq([E(s.value) if s.value is not None else SKIP, self.target(fn, s.target, ctx)])
        if isinstance(s, ast.Return):
            return seq([E(s.value) if s.value is not None else SKIP, ABRUPT])
        if isinstance(s, (ast.Break, ast.Continue)):
            return ABRUPT
        if isinstance(s, (ast.Pass, ast.Global, ast.Nonlocal)):
            return SKIP
        if isinstance(s, (ast.Import, ast.ImportFrom)):
            self.ix._index_imports(fn.module, [s], ctx["imports"])
            return SKIP
        if isinstance(s, (ast.FunctionDef, ast.AsyncFunctionDef)):
            return SKIP  # indexed as nested function, translated when called
        if isinstance(s, ast.ClassDef):
            return self.broken(fn, s, "class definition inside a reachable function")
        if isinstance(s, ast.Delete):
            return seq([self.target(fn, t, ctx, delete=True) for t in s.targets])
        if isinstance(s, ast.Assert):
            # `assert` states a programmer invariant: treated like the implicit exceptions (not in the IR; see tables)
            return E(s.test)
        if isinstance(s, ast.If):
            src = ast.unparse(s.test)
            akey = src
            for cand in ("%s:%s" % (fn.qual, src), "*.%s:%s" % (fn.qual.rsplit(".", 1)[-1], src)):
                if cand in T.ASSUMED_TESTS:
                    akey = cand
                    break
            if akey in T.ASSUMED_TESTS:
                val = T.ASSUMED_TESTS[akey][0]
                self.assumed_used.add(akey)
                return self.block(fn, s.body if val else s.orelse, ctx)
            if src in T.EXIT_ON_ERROR_TESTS:
                pos = T.EXIT_ON_ERROR_TESTS[src]
                a, b = self.block(fn, s.body, ctx), self.block(fn, s.orelse, ctx)
                return ("ifx", a, b) if pos else ("ifx", b, a)
            return seq([E(s.test), choice([self.block(fn, s.body, ctx), self.block(fn, s.orelse, ctx)])])
        if isinstance(s, (ast.For, ast.AsyncFor)):
            body = seq([self.target(fn, s.target, ctx), self.block(fn, s.body, ctx)])
            return seq([E(s.iter), ("loop", body), self.block(fn, s.orelse, ctx)])
        if isinstance(s, ast.While):
            return seq([("loop", seq([E(s.test), self.block(fn, s.body, ctx)])), E(s.test), self.block(fn, s.orelse, ctx)])
        if isinstance(s, ast.Raise):
            return self.raise_stmt(fn, s, ctx)
        if isinstance(s, ast.Try):
            return self.try_stmt(fn, s, ctx)
        if isinstance(s, (ast.With, ast.AsyncWith)):
            return self.with_stmt(fn, s, s.items, ctx)
        return self.broken(fn, s, "unsupported statement %s" % type(s).__name__)

    def target(self, fn, t, ctx, delete=False):
        if isinstance(t, ast.Name):
            return SKIP
        if isinstance(t, (ast.Tuple, ast.List)):
            return seq([self.target(fn, e, ctx, delete) for e in t.elts])
        if isinstance(t, ast.Starred):
            return self.target(fn, t.value, ctx, delete)
        if isinstance(t, ast.Attribute):
            return self.expr(fn, t.value, ctx)  # property setters / __setattr__ are not followed (documented)
        if isinstance(t, ast.Subscript):
            dunder = "__delitem__" if delete else "__setitem__"
            return seq([self.expr(fn, t.value, ctx), self.expr(fn, t.slice, ctx), self.dunder(fn, t, dunder)])
        return self.broken(fn, t, "unsupported assignment target %s" % type(t).__name__)

    def dunder(self, fn, node, name):
        if fn.qual in T.PLAIN_SUBSCRIPT_FUNCS:
            return SKIP
        recv = node.value if isinstance(node, ast.Subscript) else (node.comparators[-1] if isinstance(node, ast.Compare) else None)
        if not self.recv_is_cfg(recv):
            return SKIP
        qs = self.ix.methods_by_name.get(name, [])
        return maybe(self.pkg_call(qs, by_name=True, fn=fn, node=node))

    def recv_is_cfg(self, node):
        import re as _re
        while isinstance(node, (ast.Subscript, ast.Call)):
            node = node.value if isinstance(node, ast.Subscript) else node.func
            if isinstance(node, ast.Attribute) and isinstance(getattr(node, "ctx", None), ast.Load) and node.attr in ("get", "pop", "clone", "get_defaults"):
                node = node.value
        name = node.id if isinstance(node, ast.Name) else (node.attr if isinstance(node, ast.Attribute) else None)
        return bool(name and _re.match(T.NAMESPACE_RECEIVER, name))

    def call_to(self, q):
        self.called.setdefault(q, 0)
        self.called[q] += 1
        return ("call", q)

    # -- raise ------------------------------------------------------------------------------------
    def raise_stmt(self, fn, s, ctx):
        if s.exc is None:
            if not ctx["handlers"]:
                return self.broken(fn, s, "bare raise outside a handler")
            return ("reraise", 0)
        exc = s.exc
        pre = SKIP
        # raise ex            (ex bound by an enclosing handler)
        if isinstance(exc, ast.Name):
            for k, hname in enumerate(reversed(ctx["handlers"])):
                if hname == exc.id:
                    return ("reraise", k)
        # raise type(ex)(...) (same class as the caught exception)
        if isinstance(exc, ast.Call) and isinstance(exc.func, ast.Call) and ast.unparse(exc.func.func) == "type" \
                and len(exc.func.args) == 1 and isinstance(exc.func.args[0], ast.Name):
            for k, hname in enumerate(reversed(ctx["handlers"])):
                if hname == exc.func.args[0].id:
                    return seq([self.args_of(fn, exc, ctx), ("reraise", k)])
        cls_node = exc
        if isinstance(exc, ast.Call):
            pre = self.args_of(fn, exc, ctx)
            cls_node = exc.func
        src = ast.unparse(cls_node)
        # raise helper(...)  with helper a package function annotated `-> SomeException`
        if isinstance(cls_node, ast.Name):
            t = self.resolve_name(fn, cls_node.id, ctx["imports"])
            if t and t[0] == "fn":
                ret = self.ix.fns[t[1]].node.returns
                if ret is None:
                    return self.broken(fn, s, "raise of the result of %s, which has no return annotation" % t[1])
                helper = self.ix.fns[t[1]]
                self.translate_fn(t[1])
                return seq([pre, self.call_to(t[1]), self.site(fn, s, helper.module, ast.unparse(ret), "raise", False)])
            if self.is_local(fn, cls_node.id) and not (t and t[0] == "class"):
                key = "%s:%s" % (fn.qual, cls_node.id)
                if key in T.RAISED_VARIABLES:
                    return seq([pre] + [choice([self.site(fn, s, "@abs", c, "raise", False) for c in T.RAISED_VARIABLES[key][0]])])
                return self.broken(fn, s, "raise of local variable %r (not a handler name)" % cls_node.id)
        # function-local imports used in the class expression (`import yaml` ... `raise yaml.YAMLError(...)`)
        extra = {}
        for n in ast.walk(cls_node):
            if isinstance(n, ast.Name) and n.id in ctx["imports"]:
                t = ctx["imports"][n.id]
                extra[n.id] = list(t) if t else None
        return seq([pre, self.site(fn, s, fn.module, src, "raise", False, json.dumps(extra, sort_keys=True))])

    def args_of(self, fn, call, ctx):
        return seq([self.expr(fn, a, ctx) for a in call.args] + [self.expr(fn, k.value, ctx) for k in call.keywords])

    # -- try --------------------------------------------------------------------------------------
    def try_stmt(self, fn, s, ctx):
        body = self.block(fn, s.body, ctx)
        hs = []
        for h in s.handlers:
            if h.type is None:
                classes = ("abs", ["builtins.BaseException"])
            else:
                classes = self.handler_classes(fn, h, ctx)
            hctx = dict(ctx, handlers=ctx["handlers"] + [h.name or "<anon>"])
            hs.append((classes, self.block(fn, h.body, hctx)))
        return ("try", body, hs, self.block(fn, s.orelse, ctx), self.block(fn, s.finalbody, ctx))

    def handler_classes(self, fn, h, ctx):
        src = ast.unparse(h.type)
        key = "%s:%s" % (fn.qual, src)
        if key in T.DYNAMIC_HANDLERS:
            return ("abs", [c.rstrip("+") for c in T.DYNAMIC_HANDLERS[key][0]])
        # names used must be module globals (or builtins), never locals: otherwise the value is dynamic
        for n in ast.walk(h.type):
            if isinstance(n, ast.Name) and self.is_local(fn, n.id) and n.id not in ctx["imports"]:
                self.broken(fn, h, "handler type %r depends on local variable %r" % (src, n.id))
                return ("abs", [])
        # function-local imports used in the handler expression are given to the evaluator
        extra = {}
        for n in ast.walk(h.type):
            if isinstance(n, ast.Name) and n.id in ctx["imports"]:
                t = ctx["imports"][n.id]
                extra[n.id] = list(t) if t else None
        rewritten = src.replace("get_loader_exceptions()", "get_loader_exceptions(%r)" % self.mode)
        k = (fn.module, rewritten, json.dumps(extra, sort_keys=True))
        self.pending_exprs.setdefault(k, None)
        return ("expr", k)

    # -- with -------------------------------------------------------------------------------------
    def with_stmt(self, fn, s, items, ctx):
        if not items:
            return self.block(fn, s.body, ctx)
        it, rest = items[0], items[1:]
        inner = self.with_stmt(fn, s, rest, ctx)
        ce = it.context_expr
        tgt = self.target(fn, it.optional_vars, ctx) if it.optional_vars is not None else SKIP
        if isinstance(ce, ast.Call):
            fsrc = ast.unparse(ce.func)
            args = self.args_of(fn, ce, ctx)
            last = fsrc.split(".")[-1]
            if last == "suppress" and fsrc in ("suppress", "contextlib.suppress"):
                tup = ast.Tuple(elts=list(ce.args), ctx=ast.Load())
                fake = ast.ExceptHandler(type=tup, name=None, body=[])
                ast.copy_location(fake, s)
                ast.fix_missing_locations(fake)
                classes = self.handler_classes(fn, fake, ctx)
                return ("try", seq([tgt, inner]), [(classes, SKIP)], SKIP, SKIP)
            targets = self.resolve_callee(fn, ce, ctx, want_targets=True)
            if targets is not None and targets[0] == "pkg":
                outs = []
                for q in targets[1]:
                    f2 = self.ix.fns[q]
                    if not f2.is_cm:
                        outs = None
                        break
                    self.translate_fn(q)
                    cm = self.bodies[q]
                    if cm is None:
                        return self.broken(fn, s, "recursive context manager %s" % q)
                    if not has_hole(cm):
                        return self.broken(fn, s, "context manager %s without yield" % q)
                    outs.append(subst_hole(cm, seq([tgt, shift_reraise(inner, self.handler_depth_at_hole(cm))])))
                if outs is not None:
                    return seq([args, choice(outs)])
            if fsrc in T.EXTERNAL_CMS:
                return seq([args, self.ext_raises(fn, s, T.EXTERNAL_CMS[fsrc][0], "ext:" + fsrc), tgt, inner])
            return self.broken(fn, s, "unknown context manager %s" % fsrc)
        src = ast.unparse(ce)
        if src in T.EXTERNAL_CMS:
            return seq([self.expr(fn, ce, ctx), self.ext_raises(fn, s, T.EXTERNAL_CMS[src][0], "ext:" + src), tgt, inner])
        return self.broken(fn, s, "unknown context manager expression %s" % src)

    @staticmethod
    def handler_depth_at_hole(cm):
        """number of handlers enclosing the hole inside the context manager body (0 in practice: a yield
        inside `except` would be unusual); used to keep Reraise indices of the moved body right."""
        def rec(s, d):
            k = s[0]
            if k == "hole":
                return d
            if k in ("seq", "choice"):
                for x in s[1]:
                    r = rec(x, d)
                    if r is not None:
                        return r
            if k in ("loop", "relabel"):
                return rec(s[1], d)
            if k == "withx":
                return rec(s[2], d)
            if k == "ifx":
                return rec(s[1], d) if rec(s[1], d) is not None else rec(s[2], d)
            if k == "try":
                r = rec(s[1], d)
                if r is not None:
                    return r
                for _, h in s[2]:
                    r = rec(h, d + 1)
                    if r is not None:
                        return r
                r = rec(s[3], d)
                return r if r is not None else rec(s[4], d)
            return None

        return rec(cm, 0) or 0

    # -- expressions ------------------------------------------------------------------------------
    def expr(self, fn, e, ctx):
        if e is None:
            return SKIP
        E = lambda x: self.expr(fn, x, ctx)  # noqa: E731
        if isinstance(e, (ast.Constant, ast.Name)):
            return SKIP
        if isinstance(e, ast.Call):
            return self.call(fn, e, ctx)
        if isinstance(e, ast.Attribute):
            return E(e.value)
        if isinstance(e, ast.Subscript):
            d = self.dunder(fn, e, "__getitem__") if isinstance(e.ctx, ast.Load) else SKIP
            return seq([E(e.value), E(e.slice), d])
        if isinstance(e, ast.BoolOp):
            return seq([E(e.values[0])] + [maybe(E(v)) for v in e.values[1:]])
        if isinstance(e, ast.IfExp):
            return seq([E(e.test), choice([E(e.body), E(e.orelse)])])
        if isinstance(e, ast.Compare):
            parts = [E(e.left)] + [E(c) for c in e.comparators]
            if any(isinstance(op, (ast.In, ast.NotIn)) for op in e.ops):
                parts.append(self.dunder(fn, e, "__contains__"))
            return seq(parts)
        if isinstance(e, (ast.BinOp,)):
            return seq([E(e.left), E(e.right)])
        if isinstance(e, ast.UnaryOp):
            return E(e.operand)
        if isinstance(e, (ast.Tuple, ast.List, ast.Set)):
            return seq([E(x) for x in e.elts])
        if isinstance(e, ast.Dict):
            return seq([E(x) for x in e.keys if x is not None] + [E(x) for x in e.values])
        if isinstance(e, ast.Starred):
            return E(e.value)
        if isinstance(e, ast.JoinedStr):
            return seq([E(v) for v in e.values])
        if isinstance(e, ast.FormattedValue):
            return E(e.value)
        if isinstance(e, ast.Slice):
            return seq([E(e.lower), E(e.upper), E(e.step)])
        if isinstance(e, ast.Lambda):
            return maybe(E(e.body))  # evaluated where defined (documented approximation)
        if isinstance(e, (ast.ListComp, ast.SetComp, ast.GeneratorExp, ast.DictComp)):
            parts = []
            inner = [E(e.elt)] if not isinstance(e, ast.DictComp) else [E(e.key), E(e.value)]
            for g in reversed(e.generators):
                inner = [("loop", seq([self.target(fn, g.target, ctx)] + [maybe(E(c)) for c in g.ifs] + inner))]
                inner = [E(g.iter)] + inner
            return seq(parts + inner)
        if isinstance(e, ast.NamedExpr):
            return E(e.value)
        if isinstance(e, ast.Await):
            return E(e.value)
        if isinstance(e, (ast.Yield, ast.YieldFrom)):
            return self.broken(fn, e, "yield inside an expression")
        return self.broken(fn, e, "unsupported expression %s" % type(e).__name__)

    # -- calls ------------------------------------------------------------------------------------
    def call(self, fn, e, ctx):
        args = self.args_of(fn, e, ctx)
        recv = self.expr(fn, e.func.value, ctx) if isinstance(e.func, ast.Attribute) else (
            self.expr(fn, e.func, ctx) if not isinstance(e.func, ast.Name) else SKIP)
        body = self.resolve_callee(fn, e, ctx)
        # calls on a parser created with exit_on_error=False
        if isinstance(e.func, ast.Attribute) and isinstance(e.func.value, ast.Name) and e.func.value.id in ctx["nested_vars"]:
            body = ("withx", ctx["nested_vars"][e.func.value.id], body) if body != SKIP else SKIP
        return seq([recv, args, body])

    def pkg_call(self, quals, by_name=False, fn=None, node=None, allow_all_skipped=False):
        outs = []
        for q in quals:
            if self.ix.fns[q].is_cm:
                continue  # creating a generator-based context manager runs nothing
            if q in T.BOUNDARY:
                f2 = self.ix.fns[q]
                outs.append(self.ext_raises(f2, f2.node, T.BOUNDARY[q][0], "boundary:" + q))
                self.boundary_used.add(q)
                continue
            if self.ix.fns[q].module in T.BOUNDARY_MODULES:
                if by_name:
                    self.skipped_by_name.add(q)
                    continue
                return self.broken(fn, node, "call into unfollowed module: %s (add to BOUNDARY)" % q)
            self.translate_fn(q)
            outs.append(self.call_to(q))
        if by_name and not allow_all_skipped and quals and not outs and all(self.ix.fns[q].module in T.BOUNDARY_MODULES and q not in T.BOUNDARY for q in quals if not self.ix.fns[q].is_cm) \
                and any(not self.ix.fns[q].is_cm for q in quals):
            return self.broken(fn, node, "every candidate of a by-name call is in an unfollowed module: %s (add to BOUNDARY)" % quals)
        return choice(outs) if outs else SKIP

    def class_ctor(self, cq):
        q = self.ix.lookup_method(cq, "__init__")
        outs = []
        if q:
            outs.append(q)
        qn = self.ix.lookup_method(cq, "__new__")
        if qn:
            outs.append(qn)
        ext_bases = self.ix.base_classes(cq)[1]
        return outs, ext_bases

    def resolve_callee(self, fn, e, ctx, want_targets=False):
        f = e.func
        nargs = len(e.args) + len(e.keywords)
        src = ast.unparse(f)
        dyn_key = "%s:%s" % (fn.qual, src)
        if dyn_key in T.DYNAMIC:
            spec = T.DYNAMIC[dyn_key]
            for q in spec.get("calls", []):
                if q not in self.ix.fns:
                    return self.broken(fn, e, "DYNAMIC table names unknown function %s" % q)
            if want_targets:
                return None
            return seq([choice([SKIP] + [self.pkg_call([q], fn=fn, node=e) for q in spec.get("calls", [])]),
                        self.ext_raises(fn, e, spec.get("raises", []), "dyn:" + src)])
        if isinstance(f, ast.Name):
            t = self.resolve_name(fn, f.id, ctx["imports"])
            if self.is_local(fn, f.id) and not (t and t[0] == "fn" and f.id in self._inner_chain(fn)):
                if f.id in ctx["imports"] and t:
                    pass
                else:
                    return None if want_targets else self.broken(fn, e, "call of local value %r (add to DYNAMIC)" % f.id)
            if t and t[0] == "fn":
                return ("pkg", [t[1]]) if want_targets else self.pkg_call([t[1]], fn=fn, node=e)
            if t and t[0] == "class":
                qs, ext_bases = self.class_ctor(t[1])
                if want_targets:
                    return None
                extra = SKIP
                if not qs:
                    extra = self.ext_ctor(fn, e, t[1], ext_bases)
                return seq([self.pkg_call(qs, fn=fn, node=e), extra])
            if t and t[0] == "ext":
                return None if want_targets else self.external(fn, e, t[1], nargs)
            if t and t[0] in ("var", "extmod", "pkgmod"):
                return None if want_targets else self.broken(fn, e, "call of module-level value %r (add to DYNAMIC)" % f.id)
            # builtin
            return None if want_targets else self.external(fn, e, "builtins." + f.id, nargs)
        if isinstance(f, ast.Attribute):
            attr = f.attr
            v = f.value
            # super().m(...)
            if isinstance(v, ast.Call) and ast.unparse(v.func) == "super":
                if not fn.cls and not (fn.parent and fn.parent.cls):
                    return self.broken(fn, e, "super() outside a class")
                cq = fn.cls
                bases, ext = self.ix.base_classes(cq)
                for b in bases:
                    q = self.ix.classes[b]["methods"].get(attr)
                    if q:
                        return ("pkg", [q]) if want_targets else self.pkg_call([q], fn=fn, node=e)
                if want_targets:
                    return None
                return self.external_super(fn, e, cq, ext, attr, nargs)
            # self.m / cls.m
            if isinstance(v, ast.Name) and v.id in ("self", "cls") and fn.cls and self.is_local(fn, v.id):
                fam = [fn.cls] + self.ix.base_classes(fn.cls)[0] + self.ix.subclasses(fn.cls)
                qs = []
                for c in fam:
                    q = self.ix.classes[c]["methods"].get(attr)
                    if q and q not in qs:
                        qs.append(q)
                if qs:
                    qs = [q for q in qs if not self.ix.fns[q].is_property]
                    return ("pkg", qs) if want_targets else self.pkg_call(qs, by_name=True, fn=fn, node=e)
                if want_targets:
                    return None
                _, ext = self.ix.base_classes(fn.cls)
                return self.external_super(fn, e, fn.cls, ext, attr, nargs, via="self")
            # Name.attr where Name is a package class, an external module, or a package module
            if isinstance(v, ast.Name) and not self.is_local(fn, v.id) or (isinstance(v, ast.Name) and v.id in ctx["imports"]):
                t = self.resolve_name(fn, v.id, ctx["imports"])
                if t and t[0] == "class":
                    q = self.ix.lookup_method(t[1], attr)
                    if q:
                        return ("pkg", [q]) if want_targets else self.pkg_call([q], fn=fn, node=e)
                    if want_targets:
                        return None
                    return self.external_super(fn, e, t[1], self.ix.base_classes(t[1])[1], attr, nargs, via="class")
                if t and t[0] == "extmod":
                    return None if want_targets else self.external(fn, e, "%s.%s" % (t[1], attr), nargs)
                if t and t[0] == "pkgmod":
                    t2 = self.ix.globals[t[1]].get(attr)
                    if t2 and t2[0] == "fn":
                        return ("pkg", [t2[1]]) if want_targets else self.pkg_call([t2[1]], fn=fn, node=e)
                if t and t[0] == "ext":
                    return None if want_targets else self.external(fn, e, "%s.%s" % (t[1], attr), nargs)
            # dotted external module path: os.path.join
            dotted = self.dotted_ext(fn, f, ctx)
            if dotted:
                return None if want_targets else self.external(fn, e, dotted, nargs)
            # generic receiver: every package method of that name + the external method summary
            qs = [q for q in self.ix.methods_by_name.get(attr, []) if not self.ix.fns[q].is_property]
            if want_targets:
                return ("pkg", qs) if qs and attr not in T.EXTERNAL_METHODS else None
            parts = []
            mkey = "%s/%d" % (attr, nargs) if "%s/%d" % (attr, nargs) in T.EXTERNAL_METHODS else (attr if attr in T.EXTERNAL_METHODS else None)
            if qs and mkey is not None and not self.recv_is_cfg(v):
                qs = []  # ambiguous container-method name on a receiver that is not named like a configuration object
            if qs:
                parts.append(self.pkg_call(qs, by_name=True, fn=fn, node=e, allow_all_skipped=mkey is not None))
            if mkey is None and not qs:
                return self.broken(fn, e, "unknown method .%s() (add to EXTERNAL_METHODS)" % attr)
            if mkey is not None:
                parts.append(self.ext_raises(fn, e, T.EXTERNAL_METHODS[mkey][0], "ext:." + attr))
            elif qs:
                parts.append(SKIP)
            return choice(parts) if len(parts) > 1 else parts[0]
        if want_targets:
            return None
        return self.broken(fn, e, "call of a computed callee %s (add to DYNAMIC)" % src)

    def _inner_chain(self, fn):
        names = set()
        f = fn
        while f is not None:
            names |= set(f.inner)
            f = f.parent
        return names

    def dotted_ext(self, fn, f, ctx):
        parts = []
        node = f
        while isinstance(node, ast.Attribute):
            parts.append(node.attr)
            node = node.value
        if isinstance(node, ast.Name) and (not self.is_local(fn, node.id) or node.id in ctx["imports"]):
            t = self.resolve_name(fn, node.id, ctx["imports"])
            if t and t[0] in ("extmod", "ext"):
                return ".".join([t[1]] + list(reversed(parts)))
        return None

    def external(self, fn, e, name, nargs):
        for key in ("%s/%d" % (name, nargs), name):
            if key in T.EXTERNAL:
                return self.ext_raises(fn, e, T.EXTERNAL[key][0], "ext:" + name)
            if key in T.CALLBACKS:
                return self.callback(fn, e, key)
        short = name.split(".", 1)[1] if name.startswith("builtins.") else None
        if short and short in T.NO_RAISE_BUILTINS:
            return SKIP
        return self.broken(fn, e, "unknown external callee %s (add to EXTERNAL)" % name)

    def external_super(self, fn, e, cq, ext_bases, attr, nargs, via="super"):
        cands = ["%s.%s" % (b, attr) for b in ext_bases]
        for b in ext_bases:
            t = self.ix.globals[self.ix.classes[cq]["module"]].get(b.split(".")[0])
            if t and t[0] in ("ext", "extmod"):
                cands.append("%s.%s" % (".".join([t[1]] + b.split(".")[1:]), attr))
        if attr == "exit" and nargs == 1 and not (isinstance(e.args[0] if e.args else None, ast.Constant) and e.args[0].value == 2):
            return self.broken(fn, e, "exit(status) with a status other than the literal 2")
        cands = ["%s/%d" % (c, nargs) for c in cands] + cands
        for c in cands:
            if c in T.CALLBACKS:
                return self.callback(fn, e, c)
            if c in T.EXTERNAL:
                return self.ext_raises(fn, e, T.EXTERNAL[c][0], "ext:" + c)
        if attr in T.EXTERNAL_METHODS:
            return self.ext_raises(fn, e, T.EXTERNAL_METHODS[attr][0], "ext:." + attr)
        if attr == "__init__" and not ext_bases:
            return SKIP  # object.__init__
        return self.broken(fn, e, "unknown inherited method %s.%s via %s, external bases %s (add to EXTERNAL/CALLBACKS)" % (cq, attr, via, cands))

    def ext_ctor(self, fn, e, cq, ext_bases):
        # class without its own __init__: constructor of the external base
        key = "ctor:" + cq
        if key in T.EXTERNAL:
            return self.ext_raises(fn, e, T.EXTERNAL[key][0], "ext:" + key)
        info = self.ix.classes[cq]
        if not ext_bases or all(b in ("object", "Exception", "TypeError", "KeyError", "ValueError", "UserWarning", "str", "dict", "list", "tuple", "Enum", "StringIO") for b in ext_bases):
            return SKIP
        return self.broken(fn, e, "constructor of %s inherits from external %s (add 'ctor:%s' to EXTERNAL)" % (cq, ext_bases, cq))

    def callback(self, fn, e, key):
        spec = T.CALLBACKS[key]
        calls = []
        for pat in spec.get("calls", []):
            if pat.startswith("*."):
                # every package class deriving (by its bases' names) from the given external base defines this method
                meth, base = pat[2:].split("@")
                for q in self.ix.methods_by_name.get(meth, []):
                    cq = q.rsplit(".", 1)[0]
                    _, ext = self.ix.base_classes(cq)
                    allb = [b.split(".")[-1] for b in ext] + [c.rsplit(".", 1)[1] for c in self.ix.base_classes(cq)[0]]
                    if base in allb or base == "*":
                        calls.append(q)
            else:
                if pat not in self.ix.fns:
                    return self.broken(fn, e, "CALLBACKS[%s] names unknown function %s" % (key, pat))
                calls.append(pat)
        parts = [self.pkg_call([q], by_name=True, fn=fn, node=e, allow_all_skipped=True) for q in calls]
        inner = ("loop", choice([SKIP] + parts)) if parts else SKIP
        if spec.get("catches") and inner != SKIP:
            inner = ("try", inner, [(("abs", list(spec["catches"])), SKIP)], SKIP, SKIP)
        if spec.get("relabel") and inner != SKIP:
            inner = ("relabel", inner, fn.qual, getattr(e, "lineno", 0), "relabel:" + key)
        return seq([inner, self.ext_raises(fn, e, spec.get("raises", []), "ext:" + key)])

    # -- live queries -----------------------------------------------------------------------------
    def query_live(self, abs_classes):
        """evaluate handler/raise class expressions and the subclass relation on the live classes"""
        exprs = [[m, ex, json.loads(extra)] for (m, ex, extra) in self.pending_exprs]
        payload = {"exprs": exprs, "abs": sorted(abs_classes), "extra_universe": T.EXTRA_UNIVERSE}
        p = subprocess.run([framework.PY, "-B", os.path.join(framework.ROOT, "tie", "impl", "c03_live_classes.py")],
                           input=json.dumps(payload).encode(), stdout=subprocess.PIPE, stderr=subprocess.PIPE,
                           env=framework.impl_env(), timeout=300)
        if p.returncode != 0:
            raise TieBroken("live class query failed: %s" % p.stderr.decode()[-1500:])
        line = [l for l in p.stdout.decode().splitlines() if l.strip()][-1]
        res = json.loads(line)
        if res.get("errors"):
            raise TieBroken("live class query: %s" % res["errors"][:5], witness=res["errors"][:5])
        return res


def collect_raise_syms(s, acc):
    k = s[0]
    if k == "raise_sym":
        acc.append(s)
    elif k in ("seq", "choice"):
        for x in s[1]:
            collect_raise_syms(x, acc)
    elif k in ("loop", "relabel"):
        collect_raise_syms(s[1], acc)
    elif k == "withx":
        collect_raise_syms(s[2], acc)
    elif k == "ifx":
        collect_raise_syms(s[1], acc)
        collect_raise_syms(s[2], acc)
    elif k == "try":
        collect_raise_syms(s[1], acc)
        for _, h in s[2]:
            collect_raise_syms(h, acc)
        collect_raise_syms(s[3], acc)
        collect_raise_syms(s[4], acc)


def build(repo=None, mode="yaml", collect_unknown=False, implicit_sites=None):
    """returns the resolved program: dict with functions, sites, classes, subclass matrix"""
    repo = repo or framework.REPO
    tr = Translator(repo, mode, collect_unknown, implicit_sites)
    for q in entry_quals():
        if q not in tr.ix.fns:
            raise TieBroken("entry point %s not found" % q)
        tr.translate_fn(q)
    for q in T.EXTRA_ROOTS:
        if q in tr.ix.fns:
            tr.translate_fn(q)
    if collect_unknown:
        return tr
    # symbolic raise sites -> live classes
    syms = []
    for q, b in tr.bodies.items():
        collect_raise_syms(b, syms)
    abs_classes = set()
    for s in syms:
        if s[3] == "@abs":
            abs_classes.add(s[4])
        else:
            tr.pending_exprs.setdefault((s[3], s[4], s[7]), None)
    for q, b in tr.bodies.items():
        for cs in iter_handler_classes(b):
            if cs[0] == "abs":
                abs_classes.update(cs[1])
    live = tr.query_live(abs_classes)
    classes = live["classes"]            # list of qualified names, index = class id
    cidx = {c: i for i, c in enumerate(classes)}
    mro = live["mro"]                    # class -> list of superclasses (qualified), all in `classes`
    expr_val = {(m, ex, json.dumps(extra, sort_keys=True)): v for (m, ex, extra, v) in live["expr_values"]}
    subs = {c: [d for d in classes if c in mro[d]] for c in classes}  # c -> its subclasses (incl. itself)

    sites, site_ix = [], {}

    def site_id(fnq, line, cls, kind):
        key = (fnq, line, cls, kind)
        if key not in site_ix:
            site_ix[key] = len(sites)
            sites.append({"fn": fnq, "line": line, "cls": cls, "kind": kind})
        return site_ix[key]

    def handler_cls(cs):
        if cs[0] == "abs":
            names = cs[1]
        else:
            names = expr_val[cs[1]]
        for n in names:
            if n not in cidx:
                raise TieBroken("handler class %s not in the live class table" % n)
        return [cidx[n] for n in names]

    def resolve(s):
        k = s[0]
        if k == "raise_sym":
            _, fnq, line, module, cls_expr, kind, with_subs, extra = s
            if module == "@abs":
                names = [cls_expr]
            else:
                names = expr_val[(module, cls_expr, extra)]
                if len(names) != 1:
                    raise TieBroken("raise of %r in %s does not evaluate to one exception class: %s" % (cls_expr, fnq, names))
            outs = []
            for n in names:
                if n not in cidx:
                    raise TieBroken("raised class %s not in the live class table" % n)
                for d in (subs[n] if with_subs else [n]):
                    outs.append(("raise", site_id(fnq, line, d, kind)))
            return choice(outs)
        if k in ("seq", "choice"):
            return (k, [resolve(x) for x in s[1]])
        if k == "loop":
            return (k, resolve(s[1]))
        if k == "withx":
            return (k, s[1], resolve(s[2]))
        if k == "ifx":
            return (k, resolve(s[1]), resolve(s[2]))
        if k == "try":
            return (k, resolve(s[1]), [(handler_cls(cs), resolve(h)) for cs, h in s[2]], resolve(s[3]), resolve(s[4]))
        if k == "relabel":
            # whatever Exception subclass escapes the inner statement is re-labelled as a raise site of its own at
            # (function, line): most specific classes first, so that every class is caught by its own handler
            _, inner, fnq, line, kind = s
            excs = sorted((c for c in classes if "builtins.Exception" in mro[c]), key=lambda c: (-len(mro[c]), c))
            return ("try", resolve(inner), [([cidx[c]], ("raise", site_id(fnq, line, c, kind))) for c in excs], SKIP, SKIP)
        if k == "hole":
            return SKIP  # body of a context-manager function called as a plain function
        return s

    fnames = sorted(tr.bodies)
    fidx = {q: i for i, q in enumerate(fnames)}
    bodies = {}
    for q in fnames:
        bodies[q] = resolve(tr.bodies[q])
    prog = {
        "mode": mode,
        "functions": fnames,
        "fidx": fidx,
        "bodies": bodies,
        "sites": sites,
        "classes": classes,
        "cidx": cidx,
        "mro": mro,
        "entries": {m: fidx["%s.%s" % (ENTRY_CLASS, m)] for m in ENTRY_METHODS},
        "n_package_functions": len(tr.ix.fns),
        "tables_used": {"boundary": sorted(tr.boundary_used), "assumed_tests": sorted(tr.assumed_used),
                        "skipped_by_name": sorted(tr.skipped_by_name)},
    }
    prog["table"], prog["rounds"] = analyse(prog)
    return prog


def iter_handler_classes(s):
    k = s[0]
    if k in ("seq", "choice"):
        for x in s[1]:
            yield from iter_handler_classes(x)
    elif k in ("loop", "relabel"):
        yield from iter_handler_classes(s[1])
    elif k == "withx":
        yield from iter_handler_classes(s[2])
    elif k == "ifx":
        yield from iter_handler_classes(s[1])
        yield from iter_handler_classes(s[2])
    elif k == "try":
        yield from iter_handler_classes(s[1])
        for cs, h in s[2]:
            yield cs
            yield from iter_handler_classes(h)
        yield from iter_handler_classes(s[3])
        yield from iter_handler_classes(s[4])


# ---------------------------------------------------------------------------------------------------
# python mirror of the escape analysis (development aid + failing-input search: gives the call path).
# The verdicts of the check come from the Coq evaluation, never from this function.
# ---------------------------------------------------------------------------------------------------
def analyse(prog, x=None):
    """Faithful mirror of C03ExnFlow.esc / iterate (Jacobi rounds with join), with a call path per escaping site.
    Returns (table, rounds): table[(fn, x)] = (esc: {site: path}, may_complete_normally, may_complete_abruptly)."""
    classes, mro = prog["classes"], prog["mro"]
    site_cls = [prog["cidx"][s["cls"]] for s in prog["sites"]]
    supers = [set(prog["cidx"][d] for d in mro[c]) for c in classes]
    table = {}
    for q in prog["functions"]:
        table[(q, True)] = ({}, False, False)
        table[(q, False)] = ({}, False, False)

    def union(*ds):
        out = {}
        for d in ds:
            for i, p in d.items():
                out.setdefault(i, p)
        return out

    def esc(s, xx, stack, here):
        k = s[0]
        if k == "skip":
            return ({}, True, False)
        if k == "abrupt":
            return ({}, False, True)
        if k == "raise":
            return ({s[1]: (here,)}, False, False)
        if k == "reraise":
            return (dict(stack[-1 - s[1]]) if s[1] < len(stack) else {}, False, False)
        if k == "call":
            e, n, a = table[(s[1], xx)]
            return ({i: (here,) + p for i, p in e.items()}, n or a, False)
        if k == "seq":
            e, n, a = {}, True, False
            for y in s[1]:
                e2, n2, a2 = esc(y, xx, stack, here)
                e, n, a = union(e, e2), n2, a or a2
                if not n:
                    break
            return (e, n, a)
        if k == "choice":
            rs = [esc(y, xx, stack, here) for y in s[1]]
            return (union(*[r[0] for r in rs]), any(r[1] for r in rs), any(r[2] for r in rs))
        if k == "loop":
            e, n, a = esc(s[1], xx, stack, here)
            return (e, True, a)
        if k == "withx":
            return esc(s[2], s[1], stack, here)
        if k == "ifx":
            return esc(s[1] if xx else s[2], xx, stack, here)
        if k == "try":
            be, bn, ba = esc(s[1], xx, stack, here)
            roe = esc(s[3], xx, stack, here) if bn else ({}, False, False)
            rem = dict(be)
            he, hn, ha = {}, False, False
            for cs, h in s[2]:
                caught = {i: p for i, p in rem.items() if supers[site_cls[i]] & set(cs)}
                if not caught:
                    continue
                rem = {i: p for i, p in rem.items() if i not in caught}
                e2, n2, a2 = esc(h, xx, stack + [caught], here)
                he, hn, ha = union(he, e2), hn or n2, ha or a2
            fe, fn_, fa = esc(s[4], xx, stack, here)
            oh_norm = roe[1] or hn
            oh_abr = ba or roe[2] or ha
            return (union(rem, he, roe[0], fe), fn_ and oh_norm, (fn_ and oh_abr) or fa)
        raise AssertionError(k)

    rounds = 0
    while True:
        rounds += 1
        new = {}
        changed = False
        for q in prog["functions"]:
            for xx in (False, True):
                e, n, a = esc(prog["bodies"][q], xx, [], q)
                oe, on, oa = table[(q, xx)]
                if set(e) - set(oe) or (n and not on) or (a and not oa):
                    changed = True
                new[(q, xx)] = (union(oe, e), on or n, oa or a)
        table = new
        if not changed:
            break
        if rounds > 500:
            raise TieBroken("python mirror analysis does not converge")
    prog["_esc"] = esc
    return table, rounds


# ---------------------------------------------------------------------------------------------------
# witnesses: an oracle (list of bits) under which C03ExnFlow.run follows an execution of the entry point that
# raises a given site.  Found here by a pruned depth-first search, CHECKED by vm_compute (run_sound).
# ---------------------------------------------------------------------------------------------------
def find_witness(prog, entry_q, x, site, max_nodes=400000):
    esc = prog["_esc"]
    classes, mro = prog["classes"], prog["mro"]
    site_cls = [prog["cidx"][s["cls"]] for s in prog["sites"]]
    supers = [set(prog["cidx"][d] for d in mro[c]) for c in classes]
    failed, found = prog.setdefault("_wit_memo", (set(), {}))
    budget = [max_nodes]
    guard_hits = [0]

    def may(s, xx, stk, goal):
        e, n, a = esc(s, xx, [{j: () for j in [t]} for t in reversed(stk)], "?")
        if goal[0] == "raise":
            return goal[1] in e
        return n if goal[0] == "normal" else a

    def dist(s, xx, stk, i):
        """length of the shortest known call path from s to site i (ordering heuristic only)"""
        p_ = esc(s, xx, [{t: ()} for t in reversed(stk)], "?")[0].get(i)
        return len(p_) if p_ is not None else 10 ** 6

    def find(s, xx, stk, goal, calls):
        """stk: innermost first. Returns list of bits or None."""
        budget[0] -= 1
        if budget[0] < 0:
            guard_hits[0] += 1  # not a definitive failure
            return None
        k = s[0]
        if k == "skip":
            return [] if goal[0] == "normal" else None
        if k == "abrupt":
            return [] if goal[0] == "abrupt" else None
        if k == "raise":
            return [] if goal == ("raise", s[1]) else None
        if k == "reraise":
            return [] if goal[0] == "raise" and s[1] < len(stk) and stk[s[1]] == goal[1] else None
        key = (id(s), xx, tuple(stk), goal)
        if key in failed:
            return None
        if key in found:
            return found[key]
        if not may(s, xx, stk, goal):
            failed.add(key)
            return None
        res = None
        hits0 = guard_hits[0]
        if k == "call":
            q = s[1]
            goals = [goal] if goal[0] == "raise" else ([("normal",), ("abrupt",)] if goal[0] == "normal" else [])
            for g in goals:
                ck = (q, xx, g)
                if ck in calls:
                    guard_hits[0] += 1
                    continue
                res = find(prog["bodies"][q], xx, [], g, calls | {ck})
                if res is not None:
                    break
        elif k == "seq":
            items = s[1]
            if goal[0] == "normal":
                stops = [len(items) - 1]
            else:
                stops = [n for n in range(len(items)) if may(items[n], xx, stk, goal)]
                if goal[0] == "raise":
                    stops.sort(key=lambda n: (dist(items[n], xx, stk, goal[1]), n))
            for stop in stops:
                acc = []
                for n in range(stop):
                    r = find(items[n], xx, stk, ("normal",), calls)
                    if r is None:
                        acc = None
                        break
                    acc += r
                if acc is None:
                    continue
                r = find(items[stop], xx, stk, goal, calls)
                if r is not None:
                    res = acc + r
                    break
        elif k == "choice":
            items = s[1]
            order = list(range(len(items)))
            if goal[0] == "raise":
                order.sort(key=lambda n: (dist(items[n], xx, stk, goal[1]), n))
            for n in order:
                r = find(items[n], xx, stk, goal, calls)
                if r is not None:
                    res = [False] * n + ([True] if n < len(items) - 1 else []) + r
                    break
        elif k == "loop":
            if goal[0] == "normal":
                res = [False]
            else:
                r = find(s[1], xx, stk, goal, calls)
                res = None if r is None else [True] + r
        elif k == "withx":
            res = find(s[2], s[1], stk, goal, calls)
        elif k == "ifx":
            res = find(s[1] if xx else s[2], xx, stk, goal, calls)
        elif k == "try":
            body, hs, oe, fin = s[1], s[2], s[3], s[4]
            rf = find(fin, xx, stk, ("normal",), calls)
            cands = []
            if rf is not None:
                # body completes normally, else-clause gives the goal
                cands.append((("normal",), oe, stk))
                if goal[0] == "abrupt":
                    cands.append((("abrupt",), None, stk))
                be = esc(body, xx, [{t: ()} for t in reversed(stk)], "?")[0]
                for j in sorted(be):
                    h = next((hb for cs, hb in hs if supers[site_cls[j]] & set(cs)), None)
                    if h is None:
                        if goal == ("raise", j):
                            cands.append((("raise", j), None, stk))
                    else:
                        cands.append((("raise", j), h, [j] + list(stk)))
                for bgoal, cont, cstk in cands:
                    if cont is not None and not may(cont, xx, cstk, goal):
                        continue
                    rb = find(body, xx, stk, bgoal, calls)
                    if rb is None:
                        continue
                    rc = [] if cont is None else find(cont, xx, cstk, goal, calls)
                    if rc is None:
                        continue
                    res = rb + rc + rf
                    break
            if res is None and goal[0] != "normal":
                # the finally clause itself ends with the goal
                rfg = find(fin, xx, stk, goal, calls)
                if rfg is not None:
                    for bgoal in [("normal",), ("abrupt",)]:
                        rb = find(body, xx, stk, bgoal, calls)
                        if rb is not None:
                            rc = find(oe, xx, stk, ("normal",), calls) if bgoal[0] == "normal" else []
                            if rc is not None:
                                res = rb + rc + rfg
                                break
        else:
            raise AssertionError(k)
        if res is None:
            if guard_hits[0] == hits0:
                failed.add(key)  # no recursion guard was hit below: the failure does not depend on the call stack
        else:
            found[key] = res
        return res

    bits = find(("call", entry_q), x, [], ("raise", site), frozenset())
    return bits


# ---------------------------------------------------------------------------------------------------
# Gallina output
# ---------------------------------------------------------------------------------------------------
def g_stmt(s, out):
    k = s[0]
    if k == "skip":
        out.append("Skip")
    elif k == "abrupt":
        out.append("Abrupt")
    elif k == "raise":
        out.append("(Raise %d)" % s[1])
    elif k == "reraise":
        out.append("(Reraise %d)" % s[1])
    elif k == "call":
        out.append("(Call %d)" % s[1])
    elif k in ("seq", "choice"):
        ctor = "Seq" if k == "seq" else "Choice"
        items = s[1]
        # right-nested binary
        for i, x in enumerate(items):
            if i < len(items) - 1:
                out.append("(%s " % ctor)
                g_stmt(x, out)
                out.append(" ")
            else:
                g_stmt(x, out)
        out.append(")" * (len(items) - 1))
    elif k == "loop":
        out.append("(Loop ")
        g_stmt(s[1], out)
        out.append(")")
    elif k == "withx":
        out.append("(WithX %s " % ("true" if s[1] else "false"))
        g_stmt(s[2], out)
        out.append(")")
    elif k == "ifx":
        out.append("(IfX ")
        g_stmt(s[1], out)
        out.append(" ")
        g_stmt(s[2], out)
        out.append(")")
    elif k == "try":
        out.append("(Try ")
        g_stmt(s[1], out)
        out.append(" [")
        for j, (cs, h) in enumerate(s[2]):
            if j:
                out.append("; ")
            out.append("([%s], " % "; ".join(str(c) for c in cs))
            g_stmt(h, out)
            out.append(")")
        out.append("] ")
        g_stmt(s[3], out)
        out.append(" ")
        g_stmt(s[4], out)
        out.append(")")
    else:
        raise AssertionError(k)


def renumber_calls(s, fidx):
    k = s[0]
    if k == "call":
        return ("call", fidx[s[1]])
    if k in ("seq", "choice"):
        return (k, [renumber_calls(x, fidx) for x in s[1]])
    if k == "loop":
        return (k, renumber_calls(s[1], fidx))
    if k == "withx":
        return (k, s[1], renumber_calls(s[2], fidx))
    if k == "ifx":
        return (k, renumber_calls(s[1], fidx), renumber_calls(s[2], fidx))
    if k == "try":
        return (k, renumber_calls(s[1], fidx), [(cs, renumber_calls(h, fidx)) for cs, h in s[2]],
                renumber_calls(s[3], fidx), renumber_calls(s[4], fidx))
    return s


def emit(prog, path):
    L = []
    L.append("(* GENERATED by tie/translate_exn_ir.py from %s — do not edit, not committed. *)" % "jsonargparse/*.py")
    L.append("From JV Require Import Lib.Base Model.C03ExnFlow.")
    L.append("Open Scope N_scope.")
    L.append("")
    L.append("(* exception classes: index -> qualified name")
    for i, c in enumerate(prog["classes"]):
        L.append("   %3d %s" % (i, c))
    L.append("*)")
    L.append("(* for each class, the bit set of its superclasses (itself included) *)")
    supers = []
    for c in prog["classes"]:
        bits = 0
        for d in prog["mro"][c]:
            bits |= 1 << prog["cidx"][d]
        supers.append(bits)
    L.append("Definition ir_supers : list N := [%s]." % "; ".join(str(b) for b in supers))
    L.append("(* raise sites: index -> class; the comment table gives function:line kind *)")
    L.append("Definition ir_site_class : list N := [%s]." % "; ".join(str(prog["cidx"][s["cls"]]) for s in prog["sites"]))
    L.append("(*")
    for i, s in enumerate(prog["sites"]):
        L.append("   site %4d  %-40s %s:%d  [%s]" % (i, s["cls"], s["fn"], s["line"], s["kind"].replace("*)", "* )")))
    L.append("*)")
    L.append("")
    names = []
    for i, q in enumerate(prog["functions"]):
        out = []
        g_stmt(renumber_calls(prog["bodies"][q], prog["fidx"]), out)
        L.append("(* %d: %s *)" % (i, q))
        L.append("Definition f_%d : stmt := %s." % (i, "".join(out)))
        names.append("f_%d" % i)
    L.append("")
    L.append("Definition ir_funs : list stmt := [%s]." % "; ".join(names))
    L.append("Definition ir_prog : prog := {| p_funs := ir_funs; p_site_class := ir_site_class; p_supers := ir_supers |}.")
    for m, i in prog["entries"].items():
        L.append("Definition entry_%s : N := %d." % (m, i))
    for nm in T.NAMED_CLASSES:
        if T.NAMED_CLASSES[nm] not in prog["cidx"]:
            raise TieBroken("class %s is not in the live class table" % T.NAMED_CLASSES[nm])
        L.append("Definition cls_%s : N := %d." % (nm, prog["cidx"][T.NAMED_CLASSES[nm]]))
    L.append("Definition ir_nsites : N := %d." % len(prog["sites"]))
    L.append("Definition ir_nclasses : N := %d." % len(prog["classes"]))
    L.append("Definition ir_nsites_nat : nat := %d." % len(prog["sites"]))
    L.append("(* Jacobi rounds after which the Kleene iteration of the analysis is stable (python mirror + 2; CHECKED by postfix) *)")
    L.append("Definition ir_rounds : nat := %d." % (prog["rounds"] + 2))
    L.append("Definition ir_entries : list N := [%s]." % "; ".join("entry_%s" % m for m in ENTRY_METHODS if m != "error"))
    # known-finding site sets: described in c03_tables.FINDING_SITES by (function, class, kind-prefix, modes)
    rows = []
    for k, key in sorted(T.FINDING_KEYS.items()):
        for (mt, mf), ids in sorted(finding_sites(prog, key).items()):
            L.append("(* finding class %d = %s, exit_on_error in {%s%s} *)" % (k, key, "true " if mt else "", "false" if mf else ""))
            rows.append("(%d, (%s, %s), [%s])" % (k, "true" if mt else "false", "true" if mf else "false", "; ".join(str(i) for i in ids)))
    L.append("(* (finding class, (applies when exit_on_error=true, applies when exit_on_error=false), raise sites) *)")
    L.append("Definition ir_finding_sites : list (N * (bool * bool) * list N) := [%s]." % ";\n  ".join(rows))
    # witnesses (oracles for C03ExnFlow.run), one per finding class that still escapes, plus one per mode for the channel
    def g_wit(w):
        if w is None:
            return "None"
        x, e, i, bits = w
        return "Some (%s, %d, %d, [%s])" % ("true" if x else "false", e, i, "; ".join("true" if b else "false" for b in bits))

    prog["witnesses"] = {}
    for k, key in sorted(T.FINDING_KEYS.items()):
        w = None
        for x in (False, True):
            for m in ENTRY_METHODS[:-1]:
                q = "%s.%s" % (ENTRY_CLASS, m)
                for i in sorted(prog["table"][(q, x)][0]):
                    if w is None and not allowed(prog, x, i) and finding_of_site(prog, i, x) == k:
                        bits = find_witness(prog, q, x, i)
                        if bits is None:
                            raise TieBroken("no execution witness found for escaping site %d (%s) of %s, exit_on_error=%s" % (i, prog["sites"][i], q, x))
                        w = (x, prog["fidx"][q], i, bits)
        prog["witnesses"][key] = None if w is None else {"exit_on_error": w[0], "entry": prog["functions"][w[1]], "site": prog["sites"][w[2]], "oracle_bits": len(w[3])}
        L.append("Definition wit_finding_%d : option (bool * N * N * list bool) := %s." % (k, g_wit(w)))
    for x in (False, True):
        q = "%s.parse_args" % ENTRY_CLASS
        w = None
        for i in sorted(prog["table"][(q, x)][0]):
            s_ = prog["sites"][i]
            if w is None and s_["fn"] == "%s.error" % ENTRY_CLASS and allowed(prog, x, i) and finding_of_site(prog, i, x) == 0:
                bits = find_witness(prog, q, x, i)
                if bits is not None:
                    w = (x, prog["fidx"][q], i, bits)
        if w is None:
            raise TieBroken("ArgumentParser.error does not reach the documented channel from parse_args (exit_on_error=%s)" % x)
        L.append("Definition wit_channel_%s : option (bool * N * N * list bool) := %s." % ("true" if x else "false", g_wit(w)))
    L.append("Definition wit_fuel : nat := 4000.")
    text = "\n".join(L) + "\n"
    tmp = path + ".tmp"
    with open(tmp, "w") as f:
        f.write(text)
    old = open(path).read() if os.path.exists(path) else None
    if old == text:
        os.remove(tmp)
    else:
        os.replace(tmp, path)
    return text


def finding_sites(prog, key):
    """FINDING_SITES[key] = [(function, class-or-superclass, kind prefix, modes)], modes in "tf"/"t"/"f":
    -> {(applies_in_mode_true, applies_in_mode_false): [site ids]}"""
    res = {}
    for fnq, cls, kindp, modes in T.FINDING_SITES[key]:
        ids = res.setdefault(("t" in modes, "f" in modes), set())
        for i, s in enumerate(prog["sites"]):
            if s["fn"] == fnq and s["kind"].startswith(kindp) and (cls == s["cls"] or cls in prog["mro"][s["cls"]]):
                ids.add(i)
    return {m: sorted(v) for m, v in res.items()}


def finding_of_site(prog, i, x):
    for k, key in sorted(T.FINDING_KEYS.items()):
        for (mt, mf), ids in finding_sites(prog, key).items():
            if i in ids and (mt if x else mf):
                return k
    return 0


def allowed(prog, x, i):
    cls = prog["sites"][i]["cls"]
    return cls == T.EXIT0 or cls == (T.EXIT2 if x else T.ARGERR)


def translate(implicit_sites=None):
    prog = build(implicit_sites=implicit_sites)
    path = os.path.join(framework.COQ, "Gen", "C03ExnIR.v")
    os.makedirs(os.path.dirname(path), exist_ok=True)
    emit(prog, path)
    meta = os.path.join(framework.COQ, "Gen", "C03ExnIR.json")
    with open(meta, "w") as f:
        meta_out = {k: prog[k] for k in ("functions", "sites", "classes", "mro", "entries", "rounds")}
        meta_out["boundary"] = sorted(T.BOUNDARY)
        json.dump(meta_out, f)
    return prog


if __name__ == "__main__":
    sys.path.insert(0, framework.ROOT)
    if len(sys.argv) > 1 and sys.argv[1] == "unknown":
        tr = build(collect_unknown=True)
        for msg, where in sorted(tr.unknown.items()):
            print("%-90s %d  e.g. %s" % (msg, len(where), where[0]))
        print(len(tr.bodies), "functions reached")
    else:
        prog = build()
        table, rounds = prog["table"], prog["rounds"]
        for xx in (False, True):
            for m in ENTRY_METHODS:
                q = "%s.%s" % (ENTRY_CLASS, m)
                print("== %s exit_on_error=%s (%d rounds)" % (m, xx, rounds))
                seen = set()
                for i, p in sorted(table[(q, xx)][0].items()):
                    s = prog["sites"][i]
                    key = (s["cls"], s["fn"], s["kind"][:30])
                    if key in seen and "-v" not in sys.argv:
                        continue
                    seen.add(key)
                    print("   site %d %s @%s:%d [%s] via %s" % (i, s["cls"], s["fn"], s["line"], s["kind"][:40], " > ".join(x.split(".")[-1] for x in p)))

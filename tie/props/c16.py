"""C16 — graph half: DirectedGraph vs Model/Graph.v vs Spec/GraphSpec.v;
link half: real parsers with apply_on='instantiate' links end to end vs Model/LinkOrder.v vs Spec/LinkSpec.v."""
import itertools
import os

from tie.framework import g_bool, g_list, g_nat, g_pair, g_str, run_impl_parallel

PROP = "C16"
IMPORTS = "From JV Require Import Lib.Base Model.Graph Spec.GraphSpec Model.LinkOrder Spec.LinkSpec Corr.C16Judge."
RULE = ("graph cases: every directed graph (self-loops included) on <=3 labelled nodes and every loop-free graph on 4 nodes "
        "(thorough: every graph on <=4 nodes with loops, 60000 sampled 5-node graphs), edges inserted in canonical order and "
        "in one seeded shuffled order, plus seeded random graphs on 5-7 nodes; non-trivial = >=2 edges. "
        "link cases: a real parser per case from a layout of class groups / class-typed arguments (shapes G,S,SN,SNN,GN,GNN, "
        "<=4 constructed objects), links (apply_on='instantiate') as a sequence of distinct (source component, target object) "
        "pairs such that every proper prefix is acyclic (the last link may close a cycle and must then be rejected); quick: all "
        "such sequences of length <=2 over every layout with <=3 objects, all lengths over the 1- and 2-object layouts, and a "
        "seeded sample of longer ones over all layouts incl. 4 objects (120 walks where a layout nests three deep, else 30); thorough: every sequence over every layout with <=3 "
        "objects, every acyclic sequence over four class groups (GGGG: all 543 DAGs in all declaration orders, each also with "
        "one seeded cycle-closing link appended), 4000 sampled sequences over each of SN+G+G, GN+G+S, SN+GN, SNN+G, GNN+S and "
        "300 over each other 4-object layout; a source is the whole object or one of its attributes at / an / az / ae / af "
        "(a marker object, None, 0, '', False: falsy values must be handed on like any other), 15% of the links get a second "
        "source from the same component (compute_fn(s.x, s.y)); sink cases: every layout with <=2 (thorough <=3) "
        "constructed objects plus one class group added with instantiate=False (shape GI: never constructed, never a "
        "source) at every declaration position, every link sequence of length <=2 (thorough <=3) plus sampled longer ones "
        "that target a parameter of that group at least once - targets that only the final apply_instantiation_links pass "
        "fills, read back from the returned cfg; whole-argument cases: the same with one WHOLE class-typed argument as link "
        "target (shape TI: add_argument('--n', type=Optional[Base]); link(src, 'n'); declared required when no use of the "
        "parser precedes the link) at every declaration position, exactly one link into it (source whole object or an "
        "attribute holding a marker object or None, compute_fn or not), 30% of them as continued histories; subcommand: in "
        "25% of all link cases the parser of the case is the subcommand of an outer parser and parse_object / "
        "instantiate_classes are called on the outer one; histories: in 40% of all link cases the parser is USED (parse_object + "
        "instantiate_classes) after one or two of the link_arguments calls, most often right before the last (possibly "
        "cycle-closing) link, before the remaining links are added; continued histories (cont): any sequence of 2-7 distinct (source, "
        "target object) pairs over every layout with <=3 declarations, cyclic additions anywhere (30 walks per layout "
        "quick, 250 thorough, 85% of those without a rejection before the last call dropped): the runner catches the "
        "ValueError of every rejected link and goes on adding the remaining links (and using the parser), the observation "
        "carries the numbers of the rejected calls; prefix-name cases: the layouts with 2-3 declarations re-run with component names "
        "of which some are string prefixes of others (schemes a/ab/b, a/ab/abc, a/a_b/ab, ba/b/a; the permutations of a scheme "
        "are the declaration orders of the names): quick: every link sequence of length <=2 over G G G, S S S, G S G, G G, "
        "S G in all 6 permutations of a/ab/b plus one seeded permutation of each other scheme, one seeded renaming of every "
        "sequence over the other layouts with <=3 objects; thorough: all of these layouts systematically plus sampled longer "
        "sequences and the 4-object layouts; source = whole object or attribute and compute_fn present or not chosen per link from the seed, some pairs "
        "of links with a common target merged into one two-source link; non-trivial = >=1 link; "
        "distinct = distinct (case, observation)")
TRUSTED = [
    "Coq 8.16.1 kernel + vm_compute",
    "tie/impl/c16_graph.py, tie/impl/c16_links.py (observation of the real DirectedGraph / real parsers: constructor and "
    "compute_fn event log) and the Gallina printer",
    "hand-written models coq/Model/Graph.v, coq/Model/LinkOrder.v, tied by per-case agreement evaluated inside Coq",
    "the generated scratch classes (constructors log what they receive; link parameters l0..l7; attributes at = marker "
    "object, an/az/ae/af = None/0/''/False — the convention Model.LinkOrder.attr_value relies on)",
]
ASSUMPTIONS = [
    "node labels are hashable values compared by ==; the model uses strings",
    "keys contain no '|' and no newline; the iteration order of the Python set `targets` only breaks ties between targets of "
    "equal depth, which cannot change the edges added (argument in Model/LinkOrder.v)",
    "links between different components only (links nested inside one class-typed argument are applied by the sub-parser and "
    "are not modelled); sources are components (class group or class-typed argument) as link_arguments requires",
    "when a not-yet-instantiated source Namespace is handed on as a raw link value (possible only outside the guard) the "
    "model stops (outcome Unmodelled); exceptions escaping instantiate_classes are compared by kind 'exception' only",
    "using the parser between two link_arguments calls has no effect on later calls (the model keeps no state between calls; "
    "the harness checks exactly this on 40% of the link cases)",
    "a caller that goes on after a rejected link catches exactly the ValueError 'Graph has cycles' of link_arguments; any other "
    "exception of link_arguments ends the case",
    "a whole class-typed argument that is a link target (shape TI) is given no value of its own, gets at most one link "
    "(a second link_arguments call on the same target is refused with 'No action for key', not a C16 matter), is never a "
    "link source, and its type accepts every scratch object, marker, compute_fn result and None (0, '' and False are "
    "refused by the target's type check: the model raises like the code, the generator does not produce such links)",
    "running the parser as a subcommand of an outer parser changes nothing (the model has no notion of it; the harness "
    "checks exactly this on 25% of the link cases)",
    "links whose source and target lie in the same class-typed argument (is_nested_instantiation_link) are handed to the "
    "sub-parser by the code; the model only covers the shape the generator produces (attribute of the component itself as "
    "source: rejected by the sub-parser at instantiation, finding nested-self-link)",
]
EXHAUSTIVE = {"quick": False, "thorough": False}
FINDING_CLASSES = {1: "nested-target-order", 2: "source-under-group", 3: "nested-self-link"}
# Which model the implementation is compared with: "judge" = the pinned tree; after the repairs have been applied to the
# implementation set "judge_fixed_order" (fixes/C16-nested-target-order.patch only), "judge_fixed_source"
# (fixes/C16-source-under-group.patch only) or "judge_fixed" (both) — coq/Corr/C16Judge.v, notes/C16.md. The environment
# variable is for trying a repaired worktree without editing this file.
JUDGE = os.environ.get("C16_JUDGE", "judge_fixed")   # both repairs landed: /repo f5bd9a3, 7dc0000
LABELS = "abcdefg"
ATTRS = ["at", "at", "an", "an", "az", "ae", "af"]


# ---------------------------------------------------------------------------------------------------------------------
# graph cases
# ---------------------------------------------------------------------------------------------------------------------
def all_graphs(n, loops):
    pairs = [(i, j) for i in range(n) for j in range(n) if loops or i != j]
    for mask in range(1, 2 ** len(pairs)):
        yield [[LABELS[i], LABELS[j]] for b, (i, j) in enumerate(pairs) if mask >> b & 1]


def graph_cases(rng, tier):
    cases = []
    spaces = [(1, True), (2, True), (3, True), (4, False)]
    if tier == "thorough":
        spaces.append((4, True))
    seen = set()
    for n, loops in spaces:
        for es in all_graphs(n, loops):
            k = tuple(map(tuple, es))
            if k in seen:
                continue
            seen.add(k)
            cases.append(es)
            sh = list(es)
            rng.shuffle(sh)
            if sh != es:
                cases.append(sh)
    if tier == "thorough":
        pairs5 = [(i, j) for i in range(5) for j in range(5)]
        for _ in range(60000):
            dens = rng.choice([0.1, 0.2, 0.3, 0.5])
            es = [[LABELS[i], LABELS[j]] for (i, j) in pairs5 if (i != j or rng.random() < 0.3) and rng.random() < dens]
            rng.shuffle(es)
            if es:
                cases.append(es)
    for _ in range(400 if tier == "quick" else 20000):
        n = rng.randint(5, 7)
        m = rng.randint(2, 2 * n)
        es = []
        acyclic = rng.random() < 0.6
        perm = list(range(n))
        rng.shuffle(perm)
        for _ in range(m):
            i, j = rng.sample(range(n), 2) if rng.random() < 0.95 else (rng.randrange(n),) * 2
            if acyclic and perm[i] > perm[j]:
                i, j = j, i
            es.append([LABELS[i], LABELS[j]])
        cases.append(es)
    return cases


# ---------------------------------------------------------------------------------------------------------------------
# link cases
# ---------------------------------------------------------------------------------------------------------------------
SHAPES = ["G", "S", "SN", "SNN", "GN", "GNN"]
NUNITS = {"G": 1, "S": 1, "SN": 2, "SNN": 3, "GN": 2, "GNN": 3, "GI": 1, "TI": 1}


def layout_units(decls):
    """-> (components that can be link sources, [(unit key, target key prefix, enclosing unit or None)])"""
    srcs, units = [], []
    for n, sh in decls:
        if sh == "GI":      # instantiate=False: a target only (filled by the final pass), never a source
            units.append((n, n + ".", None))
        elif sh == "TI":    # a whole class-typed argument as link target: the target key is n itself (prefix None)
            units.append((n, None, None))
        elif sh == "G":
            srcs.append(n)
            units.append((n, n + ".", None))
        elif sh == "S":
            srcs.append(n)
            units.append((n, n + ".init_args.", None))
        elif sh in ("SN", "SNN"):
            srcs.append(n)
            units.append((n, n + ".init_args.", None))
            u1 = n + ".init_args.sub"
            units.append((u1, u1 + ".init_args.", n))
            if sh == "SNN":
                u2 = u1 + ".init_args.sub"
                units.append((u2, u2 + ".init_args.", u1))
        else:
            srcs += [n, n + ".child"]
            units.append((n, n + ".", None))
            u1 = n + ".child"
            units.append((u1, u1 + ".init_args.", n))
            if sh == "GNN":
                u2 = u1 + ".init_args.sub"
                units.append((u2, u2 + ".init_args.", u1))
    return srcs, units


def all_layouts(max_units):
    res = []

    def rec(cur, left):
        if cur:
            res.append([[LABELS[i], s] for i, s in enumerate(cur)])
        if len(cur) == 4:
            return
        for s in SHAPES:
            if NUNITS[s] <= left:
                rec(cur + [s], left - NUNITS[s])

    rec([], max_units)
    return res


def cyclic(edges):
    adj = {}
    for s, t in edges:
        adj.setdefault(s, set()).add(t)
    state = {}

    def visit(u):
        state[u] = 1
        for v in adj.get(u, ()):
            if state.get(v) == 1 or (v not in state and visit(v)):
                return True
        state[u] = 2
        return False

    return any(u not in state and visit(u) for u in list(adj))


def link_sequences(decls, max_len, rng=None, sample=None, closers="all"):
    """Sequences of distinct (source component, target unit) pairs whose proper prefixes are acyclic together with the
    nesting of the units.  Exhaustive (DFS) when sample is None — with closers="one" only one seeded choice of the
    cycle-closing last link per acyclic sequence — else `sample` random walks."""
    srcs, units = layout_units(decls)
    contain = [(u, p) for u, _, p in units if p]
    pairs = [(s, u) for s in srcs for u, _, _ in units]
    out = []
    if sample is None:
        def rec(seq, used):
            closing = []
            for k, e in enumerate(pairs):
                if k in used:
                    continue
                seq2 = seq + [e]
                if cyclic(seq2 + contain):
                    closing.append(seq2)
                    continue
                out.append(seq2)
                if len(seq2) < max_len:
                    rec(seq2, used | {k})
            if closing:
                out.extend(closing if closers == "all" else [rng.choice(closing)])

        rec([], frozenset())
    else:
        for _ in range(sample):
            seq = []
            n = rng.randint(2, max_len)
            cand = list(pairs)
            rng.shuffle(cand)
            for e in cand:
                if len(seq) >= n:
                    break
                if cyclic(seq + [e] + contain) and rng.random() < 0.85:
                    continue
                seq.append(e)
                if cyclic(seq + contain):
                    break
            if seq:
                out.append(seq)
    return out, units


def make_case(decls, seq, units, rng):
    prefix = {u: p for u, p, _ in units}
    links = []
    for k, (s, u) in enumerate(seq):
        # whole object, or an attribute: the marker `at`, or one holding None / 0 / "" / False (an, az, ae, af)
        whole = prefix[u] is None       # the whole argument u is the target: its type accepts objects, markers and None only
        attr = rng.choice(ATTRS[:4] if whole else ATTRS) if rng.random() < 0.6 else None
        links.append({"src": [s + "." + attr if attr else s], "tgt": u if whole else prefix[u] + "l%d" % k, "id": k,
                      "fn": rng.random() < 0.4, "_u": u, "_s": s})
    # now and then merge two links with the same target object into one two-source link (needs a compute_fn)
    if len(links) >= 2 and rng.random() < 0.2:
        i, j = sorted(rng.sample(range(len(links)), 2))
        if links[i]["_u"] == links[j]["_u"] and (links[i]["_s"] != links[j]["_s"] or links[i]["src"] != links[j]["src"]):
            links[i]["src"] += links[j]["src"]
            links[i]["fn"] = True
            del links[j]
    # now and then a second source from the SAME component (another attribute, or the whole object): compute_fn(s.x, s.y)
    for l in links:
        if len(l["src"]) == 1 and rng.random() < 0.15:
            other = rng.choice([a for a in ATTRS + [None] if l["src"][0] != (l["_s"] + "." + a if a else l["_s"])])
            extra = l["_s"] + "." + other if other else l["_s"]
            l["src"] = [l["src"][0], extra] if rng.random() < 0.5 else [extra, l["src"][0]]
            l["fn"] = True
    for l in links:
        del l["_u"], l["_s"]
    return {"kind": "links", "decls": decls, "links": links}


THOROUGH_4 = ["SN G G", "GN G S", "SN GN", "SNN G", "GNN S"]


def link_cases(rng, tier):
    cases = []
    layouts = all_layouts(4)
    for decls in layouts:
        nu = sum(NUNITS[s] for _, s in decls)
        key = " ".join(s for _, s in decls)
        if tier == "quick":
            if nu <= 2:
                seqs, units = link_sequences(decls, 8)
            elif nu == 3:
                seqs, units = link_sequences(decls, 2)
                more, _ = link_sequences(decls, 6, rng, 12)
                seqs += more
            else:   # three nesting levels (group > class-typed argument > nested object) get more walks
                deep = any(sh in ("GNN", "SNN") for _, sh in decls)
                seqs, units = link_sequences(decls, 7, rng, 120 if deep else 30)
        else:
            if nu <= 3:
                seqs, units = link_sequences(decls, 8)
            elif key == "G G G G":     # every acyclic link graph on 4 class groups in every declaration order
                seqs, units = link_sequences(decls, 8, rng, closers="one")
            elif key in THOROUGH_4:
                seqs, units = link_sequences(decls, 7, rng, 4000)
            else:
                seqs, units = link_sequences(decls, 7, rng, 300)
        for seq in seqs:
            cases.append(make_case(decls, seq, units, rng))
    return cases


# Component names of which some are plain string prefixes of others: a key test written as startswith(key) instead of
# key == dest or startswith(key + ".") pulls / resolves the wrong sibling only then.  The position in a scheme is the
# declaration position, so the permutations of a scheme are the declaration orders of the names.
NAME_SCHEMES = [("a", "ab", "b"), ("a", "ab", "abc"), ("a", "a_b", "ab"), ("ba", "b", "a")]


def rename_case(case, names):
    m = {d[0]: names[i] for i, d in enumerate(case["decls"])}

    def rk(k):
        head, dot, rest = k.partition(".")
        return m[head] + dot + rest

    return {"kind": "links", "decls": [[m[n], s] for n, s in case["decls"]],
            "links": [dict(l, src=[rk(x) for x in l["src"]], tgt=rk(l["tgt"])) for l in case["links"]]}


def prefix_name_cases(rng, tier):
    cases = []
    for decls in all_layouts(3 if tier == "quick" else 4):
        if not 2 <= len(decls) <= 3:
            continue
        key = " ".join(s for _, s in decls)
        nu = sum(NUNITS[s] for _, s in decls)
        if nu <= 3:
            seqs, units = link_sequences(decls, 2)
            if tier != "quick":
                more, _ = link_sequences(decls, 6, rng, 40)
                seqs += more
        else:
            seqs, units = link_sequences(decls, 5, rng, 150)
        systematic = nu <= 3 and (tier != "quick" or key in ("G G G", "S S S", "G S G", "G G", "S G"))
        for seq in seqs:
            base = make_case(decls, seq, units, rng)
            if systematic:
                perms = [p[:len(decls)] for p in itertools.permutations(NAME_SCHEMES[0])]
                perms += [tuple(rng.sample(sch, len(decls))) for sch in NAME_SCHEMES[1:]]
                if tier != "quick":
                    perms += [tuple(rng.sample(sch, len(decls))) for sch in NAME_SCHEMES[1:]]
            else:
                perms = [tuple(rng.sample(rng.choice(NAME_SCHEMES), len(decls)))]
            for names in sorted(set(perms)):
                cases.append(rename_case(base, names))
    return cases


def sink_cases(rng, tier):
    """Layouts with one class group added with instantiate=False (shape GI) at every declaration position: its parameters
    are link targets that only the final apply_instantiation_links pass of instantiate_classes can fill."""
    cases = []
    for base in all_layouts(2 if tier == "quick" else 3):
        if len(base) > 3:
            continue
        for pos in range(len(base) + 1):
            shs = [s for _, s in base]
            shs.insert(pos, "GI")
            decls = [[LABELS[i], s] for i, s in enumerate(shs)]
            nu = sum(NUNITS[s] for _, s in decls)
            if nu <= 3:
                seqs, units = link_sequences(decls, 2 if tier == "quick" else 3)
                more, _ = link_sequences(decls, 6, rng, 15 if tier == "quick" else 60)
                seqs += more
            else:
                seqs, units = link_sequences(decls, 6, rng, 150)
            sink = LABELS[pos]
            for seq in seqs:
                if any(u == sink for _, u in seq):
                    cases.append(make_case(decls, seq, units, rng))
    return cases


def whole_cases(rng, tier):
    """Layouts with one WHOLE class-typed argument as link target (shape TI: add_argument('--n', type=Optional[Base]);
    link(src, 'n')) at every declaration position: link_arguments replaces its action by the link action, it is no
    component, and the final pass type-checks the value and writes it to cfg['n'].  At most one link per such target."""
    cases = []
    for base in all_layouts(2 if tier == "quick" else 3):
        if len(base) > 3:
            continue
        for pos in range(len(base) + 1):
            shs = [s for _, s in base]
            shs.insert(pos, "TI")
            decls = [[LABELS[i], s] for i, s in enumerate(shs)]
            nu = sum(NUNITS[s] for _, s in decls)
            if nu <= 3:
                seqs, units = link_sequences(decls, 2 if tier == "quick" else 3)
                more, _ = link_sequences(decls, 6, rng, 15 if tier == "quick" else 60)
                seqs += more
            else:
                seqs, units = link_sequences(decls, 6, rng, 150)
            sink = LABELS[pos]
            for seq in seqs:
                if sum(u == sink for _, u in seq) == 1:
                    c = make_case(decls, seq, units, rng)
                    if rng.random() < 0.3:
                        c["cont"] = True
                    cases.append(c)
    return cases


def cont_cases(rng, tier):
    """Histories that go on after a rejected link: any sequence of distinct (source component, target object) pairs, cyclic
    additions anywhere; the caller catches the ValueError and keeps adding links, then uses the parser."""
    cases = []
    for decls in all_layouts(3 if tier == "quick" else 4):
        if len(decls) > 3:
            continue
        srcs, units = layout_units(decls)
        contain = [(u, p) for u, _, p in units if p]
        pairs = [(s, u) for s in srcs for u, _, _ in units]
        if len(pairs) < 2:
            continue
        for _ in range(30 if tier == "quick" else 250):
            cand = list(pairs)
            rng.shuffle(cand)
            seq = cand[:rng.randint(2, min(7, len(cand)))]
            # wanted: a rejection that is NOT the last call
            acc, early = [], False
            for i, e in enumerate(seq):
                if cyclic(acc + [e] + contain):
                    early = early or i < len(seq) - 1
                else:
                    acc.append(e)
            if not early and rng.random() < 0.85:
                continue
            c = make_case(decls, seq, units, rng)
            c["cont"] = True
            cases.append(c)
    return cases


def with_uses(cases, rng):
    """Link histories interleaved with uses of the parser: in 40% of the cases the parser is used (parse_object +
    instantiate_classes) after one or two of the link_arguments calls, before the remaining links are added.  The model
    has no state between calls, so the expected behaviour is that of the same links added back to back."""
    for c in cases:
        n = len(c["links"])
        if n >= 1 and rng.random() < 0.4:
            k = 1 if n == 1 else rng.randint(1, 2)
            c["uses"] = sorted(rng.sample(range(1, n + 1), min(k, n)))
            if c["uses"] == [n] and n > 1 and rng.random() < 0.7:
                c["uses"] = [n - 1]        # a use right before the last (possibly cycle-closing) link
        # the parser of the case as a subcommand of an outer parser: everything goes through the recursion of
        # instantiate_classes into the chosen subcommand; the expectation is the same
        if rng.random() < 0.25:
            c["sub"] = True
    return cases


def generate(rng, tier):
    links = (link_cases(rng, tier) + prefix_name_cases(rng, tier) + sink_cases(rng, tier) + whole_cases(rng, tier)
             + cont_cases(rng, tier))
    return with_uses(links, rng) + graph_cases(rng, tier)


# ---------------------------------------------------------------------------------------------------------------------
# observation
# ---------------------------------------------------------------------------------------------------------------------
def is_link(case):
    return isinstance(case, dict)


def canon_link_obs(o):
    """Runner output -> {"outcome": ok|link_error|exc|unmodelled, "at": k, "log": [...], "raw": ...}"""
    out = o["outcome"]
    res = {"raw_outcome": out, "msg": o.get("msg", ""), "rejected": o.get("rejected", [])}
    if out == "link_error" and o.get("why") == "cycle" and not o["log"]:
        res.update(outcome="link_error", at=o["at"], log=[])
    elif out.startswith("exc:"):
        res.update(outcome="exc", log=[])
    elif out == "ok":
        log = []
        ok = True
        for ev in o["log"]:
            if ev[0] in ("new", "cfg"):
                args = [[i, v] for i, v in ev[2] if v != ["unset"]]
                ok = ok and all(value_ok(v) for _, v in args)
                log.append([ev[0], ev[1], args])
            else:
                ok = ok and all(base_ok(v) for v in ev[2])
                log.append(["call", ev[1], ev[2]])
        if ok:
            res.update(outcome="ok", log=log)
        else:
            res.update(outcome="unmodelled", log=[], raw_log=o["log"])
    else:
        res.update(outcome="unmodelled", log=[], raw_log=o.get("log"))
    return res


def base_ok(v):
    return v[0] in ("obj", "attr", "ns", "lit")


def value_ok(v):
    return base_ok(v) or (v[0] == "fn" and all(base_ok(a) for a in v[2]))


def observe(cases):
    out = [None] * len(cases)
    gi = [i for i, c in enumerate(cases) if not is_link(c)]
    li = [i for i, c in enumerate(cases) if is_link(c)]
    # many small payloads (the framework runs JOBS of them at a time): one process stays far below its timeout even when
    # the machine is shared with other checks
    if gi:
        n = max(min(16, len(gi)), -(-len(gi) // 20000))
        res = run_impl_parallel("c16_graph.py", [{"cases": [cases[i] for i in gi[k::n]]} for k in range(n)], timeout=1800)
        for k, r in enumerate(res):
            for i, o in zip(gi[k::n], r):
                out[i] = o
    if li:
        n = max(min(16, len(li)), -(-len(li) // 1500))
        res = run_impl_parallel("c16_links.py", [{"cases": [cases[i] for i in li[k::n]]} for k in range(n)], timeout=1800)
        for k, r in enumerate(res):
            for i, o in zip(li[k::n], r):
                out[i] = canon_link_obs(o)
    return out


# ---------------------------------------------------------------------------------------------------------------------
# Gallina
# ---------------------------------------------------------------------------------------------------------------------
def g_base(v):
    if v[0] == "obj":
        return "BObj %s" % g_str(v[1])
    if v[0] == "attr":
        return "BAttr %s" % g_str(v[1])
    if v[0] == "lit":
        return "BLit %d%%N" % v[1]
    return "BNs (@nil N)"


def g_value(v):
    if v[0] == "fn":
        return "VFn %s %s" % (g_nat(v[1]), g_list(["(%s)" % g_base(a) for a in v[2]], "base"))
    return "VBase (%s)" % g_base(v)


def g_event(ev):
    if ev[0] == "cfg":
        return "ECfg %s %s" % (g_str(ev[1]), g_list([g_pair(g_nat(i), g_value(v)) for i, v in ev[2]], "(nat * value)"))
    if ev[0] == "new":
        return "ENew %s %s" % (g_str(ev[1]), g_list([g_pair(g_nat(i), g_value(v)) for i, v in ev[2]], "(nat * value)"))
    return "ECall %s %s" % (g_nat(ev[1]), g_list(["(%s)" % g_base(a) for a in ev[2]], "base"))


def term(case, obs):
    if is_link(case):
        ds = g_list(["{| d_name := %s; d_shape := Sh%s |}" % (g_str(n), s) for n, s in case["decls"]], "decl")
        # case.get("uses") does not enter the term: the model has no state between link_arguments calls and uses
        ls = g_list(["{| l_id := %s; l_srcs := %s; l_target := %s; l_fn := %s |}"
                     % (g_nat(l["id"]), g_list([g_str(s) for s in l["src"]], "str"), g_str(l["tgt"]), g_bool(l["fn"]))
                     for l in case["links"]], "link")
        oc = {"ok": "OOk", "exc": "OExc", "unmodelled": "OUnmodelled"}.get(obs["outcome"])
        if obs["outcome"] == "link_error":
            oc = "OLinkErr %s" % g_nat(obs["at"])
        if case.get("cont"):
            return "LinkContCase %s %s %s (%s, %s)" % (ds, ls, g_list([g_nat(k) for k in obs.get("rejected", [])], "nat"), oc,
                                                       g_list([g_event(e) for e in obs["log"]], "event"))
        return "LinkCase %s %s (%s, %s)" % (ds, ls, oc, g_list([g_event(e) for e in obs["log"]], "event"))
    es = g_list([g_pair(g_str(s), g_str(t)) for s, t in case], "edge")
    if "order" in obs:
        o = "Order " + g_list([g_str(x) for x in obs["order"]], "str")
    elif "cycle" in obs:
        o = "Cycle %s %s" % (g_str(obs["cycle"][0]), g_str(obs["cycle"][1]))
    else:
        o = "Broken"
    return "GraphCase %s (%s)" % (es, o)


def nontrivial_key(case, obs):
    if is_link(case):
        return None if not case["links"] else repr((case, obs.get("outcome"), obs.get("at"), obs.get("rejected"), obs.get("log")))
    return None if len(case) < 2 else repr((case, obs))


def category(case, obs):
    if is_link(case):
        nu = sum(NUNITS[s] for _, s in case["decls"])
        nested = any(s not in ("G", "S") for _, s in case["decls"])
        return "links: %d objects%s/%d links/%s" % (nu, " nested" if nested else "", len(case["links"]), obs["outcome"])
    return "graph: %d edges/%s" % (min(len(case), 9), next(iter(obs)))


def describe(case, obs):
    if is_link(case):
        return {"declarations (name, shape; see tie/impl/c16_links.py)": case["decls"],
                "link_arguments calls in order (apply_on='instantiate')": case["links"],
                "parser used (parse_object + instantiate_classes) after this many link_arguments calls": case.get("uses", []),
                "the ValueError of a rejected link is caught and the remaining links are still added": bool(case.get("cont")),
                "the parser is the subcommand 'run' of an outer parser on which parse_object / instantiate_classes are called":
                    bool(case.get("sub")),
                "observed": {k: v for k, v in obs.items() if k in ("outcome", "at", "rejected", "log", "raw_outcome", "msg", "raw_log")}}
    return {"edges_in_insertion_order": case, "DirectedGraph_answer": obs}


def shrink(case):
    if is_link(case):
        ls = case["links"]
        if case.get("sub"):
            yield {k: v for k, v in case.items() if k != "sub"}
        if case.get("uses"):
            yield {k: v for k, v in case.items() if k != "uses"}
            for u in case["uses"]:
                yield dict(case, uses=[x for x in case["uses"] if x != u])
        for i in range(len(ls)):
            yield dict(case, links=ls[:i] + ls[i + 1:])
        for i, l in enumerate(ls):
            if l["fn"] and len(l["src"]) == 1:
                yield dict(case, links=ls[:i] + [dict(l, fn=False)] + ls[i + 1:])
        ds = case["decls"]
        for i in range(len(ds)):
            n = ds[i][0]
            if not any(s == n or s.startswith(n + ".") for l in ls for s in l["src"] + [l["tgt"]]):
                yield dict(case, decls=ds[:i] + ds[i + 1:])
        return
    for i in range(len(case)):
        yield case[:i] + case[i + 1:]


def search(rng, tier, broken):
    """After a broken proof / tie: ONE fresh quick-sized batch (about a minute), whatever the tier; the smallest case that
    contradicts the spec inside the guard (or outside it in a class that is not a listed finding) is the failing input."""
    import sys

    from tie import framework as F

    mod = sys.modules[__name__]
    cases = generate(rng, "quick")
    obs = observe(cases)
    bm, bi, bo = F.judge_cases(mod, cases, obs, tag="f")
    known = F.load_known_findings(PROP)
    bad = set(bi) | {i for i, k in bo if FINDING_CLASSES.get(k) not in known}
    if not bad:
        return None

    def size(i):
        c = cases[i]
        return (len(c["links"]), len(c["decls"]), len(c.get("uses", []))) if is_link(c) else (len(c), 0, 0)

    i = min(bad, key=size)
    return {"case": cases[i], "observed": obs[i], "explain": describe(cases[i], obs[i])}


META = {
    "level_text": "Proved in Coq for ALL inputs of the modelled space (coq/Properties/C16.v): (1) C16_topo_sort_correct / "
                  "C16_topo_on_edge_lists: DirectedGraph.add_edge + get_topological_order, for any edge list over any labels, "
                  "never runs out of fuel and returns either a duplicate-free order of exactly the mentioned nodes with every edge "
                  "forward (and then the graph is acyclic) or an edge that really closes a cycle; (2) "
                  "C16_sources_before_targets: for any components, any links and any key strings, when instantiation_order "
                  "answers with an order then — inside the guard enclosing_ok — the sequence walked by instantiate_classes "
                  "(depth sort + ActionLink.reorder) has the component of every link source strictly before every component "
                  "enclosing that link's target; C16_order_respects_links (unguarded, on the order itself); "
                  "C16_each_component_once (the sequence is a permutation of the components); (3) "
                  "C16_links_accepted_iff_acyclic / C16_cycle_rejected_at_link_time: the sequence of link_arguments calls is "
                  "accepted iff the link graph is acyclic after every call, otherwise exactly the first cycle-closing call "
                  "raises. All of these hold for the pinned code and for the code after the two proposed repairs (parameter fx). "
                  "(4) C16_small_space_model_meets_spec: kernel-evaluated over every layout of class groups / class-typed "
                  "arguments (nested up to three deep) with <=3 constructed objects and every arrangement of four flat ones, "
                  "times every sequence of one or two links (any source component, object or attribute; any target object; "
                  "compute_fn or not; cycles included; 87,172 cases): inside the guard link_class=0 the model's run is what the "
                  "independent Spec/LinkSpec.v demands (each object constructed once, sources first, every linked parameter "
                  "receives the source object / attribute / compute_fn result, compute_fn called once, cycle-closing link "
                  "rejected at that call); C16_small_space_three_links: the same for every 3-link sequence over the layouts with <=2 "
                  "objects (25,120 cases), both code variants; C16_small_space_final_pass_targets: the same with one class group added "
                  "with instantiate=False at every declaration position (9,000 cases: targets that only the final pass of "
                  "instantiate_classes fills, read from the returned cfg); C16_small_space_whole_argument_targets (round 6): the "
                  "same with one WHOLE class-typed argument as link target (link(src, 'n'); its action is replaced by the link "
                  "action, it is no component, the final pass type-checks and writes the value) at every declaration position "
                  "of the 21 layouts with <=2 objects, every 1- and 2-link sequence with one link into it (3,976 cases, both "
                  "variants); C16_accepted_set_acyclic_after_rejections / "
                  "C16_accepted_set_has_order_after_rejections (general: after any history of accepted and rejected "
                  "link_arguments calls the links the parser holds are acyclic and instantiate_classes finds an order) and "
                  "C16_small_space_histories_with_rejections (kernel-evaluated, 25,120 three-link histories, both variants: "
                  "exactly the links closing a cycle between objects are rejected, the construction obeys the accepted "
                  "ones). Three refuted-unguarded witnesses (C16_nested_target_order_refuted, "
                  "C16_source_under_group_refuted, C16_nested_self_link_refuted) = the three findings (two repaired in /repo, nested-self-link open). "
                  "Only exercised by the correspondence (not proved in general): that the values received, the exactly-once "
                  "construction and the compute_fn calls of the model satisfy the spec beyond the small space (longer link "
                  "sequences, two-source links, four-object nested layouts), and that model = implementation (16.4k cases quick, "
                  "~120k thorough: every digraph on <=3 nodes, every loop-free one on 4, all 543 DAGs on four class groups in all "
                  "declaration orders, component names that are string prefixes of one another in all declaration orders, source "
                  "attributes holding None / 0 / '' / False, two sources from one component, never instantiated target groups, whole "
                  "class-typed arguments as targets, the parser run as a subcommand of an outer parser, uses of the "
                  "parser interleaved with the link_arguments calls, histories that go on after rejected links).",
    "level_note": "Trusted: Coq kernel/VM; the hand-written models Model/Graph.v and Model/LinkOrder.v outside the enumerated "
                  "cases (in particular the abstraction of a parser to a list of components with dest/kind/units, and of "
                  "find_subclass_action_or_class_group to resolve_src); the observation harness tie/impl/c16_*.py with its scratch "
                  "classes. 'Cycle' in theorems (3) means a cycle of the graph the code builds (link_edges); its agreement with "
                  "cycles between the constructed objects (Spec/LinkSpec.dep_edges) is proved on the small space and tested "
                  "beyond, and fails exactly in the finding classes 1 and 3. No axioms (Print Assumptions: closed under the "
                  "global context).",
    "technique": "Rocq proofs: DFS invariants (induction on fuel and successor list), build invariant over add_edge, "
                 "index/pull-position argument for reorder, induction over the link_arguments calls; six kernel-evaluated products "
                 "over the small spaces; correspondence of model and real parsers judged inside Coq",
}

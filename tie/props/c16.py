"""C16 — graph half: DirectedGraph vs Model/Graph.v vs Spec/GraphSpec.v."""
import itertools

from tie.framework import g_list, g_pair, g_str, run_impl

PROP = "C16"
IMPORTS = "From JV Require Import Lib.Base Model.Graph Spec.GraphSpec Corr.C16Judge."
RULE = ("every directed graph (self-loops included) on <=3 labelled nodes and every loop-free graph on 4 nodes, "
        "edges inserted in canonical order and in one seeded shuffled order, plus seeded random graphs on 5-7 nodes; "
        "a case is non-trivial when it has >=2 edges; distinct = distinct (edge list, answer)")
TRUSTED = [
    "Coq 8.16.1 kernel + vm_compute",
    "tie/impl/c16_graph.py (observation of the real DirectedGraph) and the Gallina printer",
    "hand-written model coq/Model/Graph.v, tied by per-case agreement evaluated inside Coq",
]
ASSUMPTIONS = ["node labels are hashable values compared by ==; the model uses strings"]
EXHAUSTIVE = {"quick": False, "thorough": False}
LABELS = "abcdefg"


def all_graphs(n, loops):
    pairs = [(i, j) for i in range(n) for j in range(n) if loops or i != j]
    for mask in range(1, 2 ** len(pairs)):
        yield [[LABELS[i], LABELS[j]] for b, (i, j) in enumerate(pairs) if mask >> b & 1]


def generate(rng, tier):
    cases = []
    spaces = [(1, True), (2, True), (3, True), (4, False)]
    if tier == "thorough":
        spaces.append((4, True))
    seen = set()
    for n, loops in spaces:
        for es in all_graphs(n, loops):
            k = tuple(map(tuple, es))
            if k in seen:
                continue
            seen.add(k)
            cases.append(es)
            sh = list(es)
            rng.shuffle(sh)
            if sh != es:
                cases.append(sh)
    for _ in range(400 if tier == "quick" else 20000):
        n = rng.randint(5, 7)
        m = rng.randint(2, 2 * n)
        es = []
        acyclic = rng.random() < 0.6
        perm = list(range(n))
        rng.shuffle(perm)
        for _ in range(m):
            i, j = rng.sample(range(n), 2) if rng.random() < 0.95 else (rng.randrange(n),) * 2
            if acyclic and perm[i] > perm[j]:
                i, j = j, i
            es.append([LABELS[i], LABELS[j]])
        cases.append(es)
    return cases


def observe(cases):
    chunks = [cases[i::16] for i in range(16)]
    from tie.framework import run_impl_parallel

    res = run_impl_parallel("c16_graph.py", [{"cases": ch} for ch in chunks])
    out = [None] * len(cases)
    for k, r in enumerate(res):
        out[k::16] = r
    return out


def term(case, obs):
    es = g_list([g_pair(g_str(s), g_str(t)) for s, t in case], "edge")
    if "order" in obs:
        o = "Order " + g_list([g_str(x) for x in obs["order"]], "str")
    elif "cycle" in obs:
        o = "Cycle %s %s" % (g_str(obs["cycle"][0]), g_str(obs["cycle"][1]))
    else:
        o = "Broken"
    return "{| c_edges := %s; c_obs := %s |}" % (es, o)


def nontrivial_key(case, obs):
    return None if len(case) < 2 else repr((case, obs))


def category(case, obs):
    return "%d edges/%s" % (min(len(case), 9), next(iter(obs)))


def describe(case, obs):
    return {"edges_in_insertion_order": case, "DirectedGraph_answer": obs}


def shrink(case):
    for i in range(len(case)):
        yield case[:i] + case[i + 1 :]

META = {
    "level_text": "Theorem C16_topo_sort_correct (coq/Properties/C16.v): the DFS topological sort, for graphs of any size, "
                  "returns a duplicate-free permutation of the nodes with every edge pointing forward and no cycle present, or "
                  "a real cycle (edge u->v with v reaching u), and never runs out of fuel. The Gallina model is tied to "
                  "DirectedGraph by running both on every digraph on <=3 nodes, every loop-free digraph on 4 nodes and random "
                  "larger ones; agreement with model and with the executable spec is computed inside Coq.",
    "level_note": "Trusted: Coq kernel/VM; the hand-written model's faithfulness outside the enumerated graphs; the observation "
                  "harness. No axioms (Print Assumptions: closed under the global context).",
    "technique": "Rocq proof by DFS invariants (induction on fuel and successor list) + exhaustive small-graph correspondence evaluated in Coq",
}

"""C15 — a linked argument always equals the function of its sources.

Generated real parsers (plain / dotted-group arguments, class-typed arguments, lists of classes) with sets of
link_arguments calls, valid and invalid (chains, double targets, prefix overlaps, self links), x inputs that set the
sources through defaults / environment / --cfg / options / parse_object and supply a value for the target itself
through its option, a config, an object, the environment or the enclosing group / class spec.
Model: coq/Model/C15Links.v, spec: coq/Spec/C15Spec.v, judge: coq/Corr/C15Judge.v.
"""
import copy
import os

from tie import framework
from tie.framework import g_bool, g_list, g_N, g_nat, g_opt, g_pair, g_str, run_impl_parallel

PROP = "C15"
IMPORTS = "From JV Require Import Lib.Base Lib.C15Val Model.C15Links Spec.C15Spec Corr.C15Judge."
RULE = ("seeded random parsers: 3-7 declarations (int/str/List[int]/Any arguments, dotted groups, class-typed "
        "arguments, lists of classes) with 1-4 link_arguments calls (single/multiple sources, group-valued and "
        "class-valued sources, 11 compute functions, the three target kinds; ~30% of the link sets contain a chain, "
        "double target, missing key, prefix overlap or self link), each with 4 inputs through defaults/env/--cfg/"
        "options/parse_object, ~35% of them supplying a value for a target (option, config, object, env, enclosing "
        "group or class spec). Non-trivial = at least one link accepted and the pre-link configuration reached; "
        "distinct = distinct (declarations, links, input, observation). Plus parser TREES: a top-level parser (plain arguments, "
        "with links of its own in ~50%, otherwise with NO link_arguments call at all) and two subcommands built from one "
        "generated parser (plain or class-typed, 1-4 link calls); 4 inputs each that select a subcommand and feed it through "
        "its options, its own --cfg, the nested section of the top-level --cfg, or parse_object; parse, dump and re-parse all "
        "go through the TOP parser. ~30% of the plain arguments are declared with a second option string (--<key>_alt or a "
        "short -K) and are then given through it half of the time, sources and link targets alike; a whole class spec on argv "
        "is handed over in its own config file 70% of the time (the parse keeps __path__). Every successful parse is also "
        "saved with save() in its default multifile mode and EVERY file written is read back (nested files are put back in "
        "place of the reference the main file holds). HISTORIES: every flat case parses a SECOND input on the same parser "
        "object, after the first parse, after the lists the first parse put at link targets were edited in place, and after "
        "dump / re-parse / save; the second input is the first with values of Any-typed arguments replaced by values of "
        "another kind that compare and hash equal (1 <-> True, 0 <-> False); 11 compute functions, among them the "
        "type-sensitive `kind` (joins the type names of its arguments) and the list-returning tup / pair / cat. Families "
        "`gen_chains` (well-typed int chains: target = k-th source, source = earlier target, same target twice, either "
        "order) and `gen_whole` (a WHOLE class-typed argument as link target, d -> c, alone or with a second link whose "
        "target or source lies inside the enclosing target c or inside its source d, either declaration order). Family "
        "`gen_convert`: a group of ints linked to a Dict[str, int]-typed argument (identity: Namespace -> dict by the target's "
        "type hint) and through dsum(d: dict) (Namespace -> dict by the parameter annotation), and a REQUIRED __init__ "
        "parameter as link target with the class spec leaving it out. An input of a class-typed parser that is rejected "
        "before the link phase is parsed AGAIN with a value given for every linked init_arg in every class spec: accepted "
        "then, with every link applied, means the target was required from the user. ~5% of the odd link sets name several "
        "sources without a compute function, ~5% a key below a class-typed argument that does not go through init_args. "
        "Family `gen_nested_source`: the one overlap the repaired check accepts — a later group-valued SOURCE that contains an "
        "earlier target (a -> g.x, then g -> t), either declaration order, ints only, whole pipeline modelled.")
TRUSTED = [
    "Coq 8.16.1 kernel + vm_compute",
    "tie/impl/c15_links.py: observation of the real parser (wraps ActionLink.apply_parsing_links in the harness "
    "process to read the pre-link configuration), canonicalisation, the generated module c15mod",
    "the 11 compute functions exist twice: Python (c15_links.py FUNCTIONS_SRC) and Gallina (C15Judge.fn_interp); "
    "their agreement is exercised by every case, the theorems quantify over ALL functions",
    "hand-written model coq/Model/C15Links.v, tied by per-case agreement evaluated inside Coq",
    "probe_fixes (tie/props/c15.py): the two refutation witnesses are run on the implementation to select the model "
    "variant (faithful-to-the-bug or repaired, both in Model/C15Links.v) it is tied to; a wrong selection shows up as "
    "model disagreements, never as a pass",
]
ASSUMPTIONS = [
    "value space of the tie: ints, lower-case words that YAML reads as strings, lists of ints, None, nested groups; "
    "on it type adaptation is the identity, so the model's type check is a predicate",
    "for parsers with class-typed arguments the configuration at the entry of apply_parsing_links is an observed "
    "input of the model (normalisation of class values is C14's subject); for all other parsers the whole pipeline "
    "defaults -> env -> argv/--cfg/object -> links -> validation is modelled",
    "dump is observed with skip_none=False (skip_none=True dropping an explicit null is C01's finding)",
    "save(multifile=True) is modelled as the same function as dump (strip_link_target_keys on the whole configuration): "
    "which part of it goes to which file is C18's subject; here the main file with every nested file put back must equal "
    "the model's dump, and a written file that the main file does not refer to is an observation error",
    "the model's parse is a FUNCTION of (declarations, link calls, input): nothing a parser object did before can "
    "influence a parse — stated nowhere as a theorem because it is how the model is built; the tie checks it on two-parse "
    "histories (second parse, plus the re-parse of the dump) on one parser object",
    "Python booleans are encoded as the reserved strings <true> / <false> (Any-typed arguments only); floats are not in "
    "the value space",
    "a dict VALUE (Dict[str,int]-typed argument m, parsers with class-typed arguments only) and a group Namespace are the "
    "same VMap in the model: a dict-typed argument is never a link source, and a dict-typed target never gets a compute "
    "function that hands a Namespace through (first) — type(x).__name__ would tell them apart, val cannot",
    "an argument has at most two option strings; the model identifies an option by the dest and whether the first or "
    "the second spelling was used",
    "values are finite trees without sharing: link sets WITH key overlaps never hand a group/class Namespace through by "
    "reference (identity/first/tup are replaced by gsum there), because the real parser then builds shared or cyclic "
    "Namespaces; a whole class argument is a link target only in the well-typed family gen_whole (source: another class "
    "argument), a whole list-of-classes argument never",
]
EXHAUSTIVE = {"quick": False, "thorough": False}
FINDING_CLASSES = {1: "link-key-prefix-overlap", 2: "list-item-target-in-dump", 3: "skipped-link-target-stripped",
                   4: "subcommand-env-defaults-stale-target"}

# Which repairs (fixes/C15-<key>.patch) the implementation under test carries. None = decide by probing: a repair counts as
# present exactly when the refutation witness of its finding (replays/known/C15-<key>.json, Proofs/C15Witness.v) no longer
# reproduces on the implementation. The answer only selects between the faithful-to-the-bug and the repaired variant of the
# model (Model/C15Links.v build / build_fixed, strip / strip_fixed; judge field c_fixed); every case is still judged
# against the selected model AND the spec. True/False pins the variant; VERIF_C15_FIXED=prefix,dump (or empty) overrides.
FIXES_APPLIED = {"link-key-prefix-overlap": None, "list-item-target-in-dump": None,
                 "subcommand-env-defaults-stale-target": None}
_PROBE = {}


def _decl(key, kind, default=None, required=False):
    return {"key": key, "kind": kind, "default": default, "required": required, "alias": None}


PROBES = {
    "link-key-prefix-overlap": dict(
        decls=[_decl("g.x", "int", 1), _decl("g.y", "int", 2), _decl("t", "int"), _decl("a", "int", 10)],
        links=[{"src": ["g"], "tgt": "t", "fn": 6}, {"src": ["a"], "tgt": "g.x", "fn": None}],
        aspect=0, full=True, mode="args", env=[], argv=[], obj={}),
    "list-item-target-in-dump": dict(
        decls=[_decl("u", "int", 7), _decl("cs", "classlist", [])],
        links=[{"src": ["u"], "tgt": "cs.init_args.q", "fn": None}],
        aspect=1, full=False, mode="args", env=[],
        argv=[["opt", "cs", [{"class_path": "c15mod.Base", "init_args": {}}]]], obj={}),
    "subcommand-env-defaults-stale-target": dict(
        decls=[_decl("s", "int", 0)], links=[], aspect=0, full=False, mode="args", env=[], argv=[], obj={},
        sub={"name": "fit", "decls": [_decl("a", "int", 0), _decl("y", "any", "q")],
             "links": [{"src": ["y"], "tgt": "a", "fn": None}], "argv": [["opt", "y", 9]]}),
}


def probe_fixes():
    if framework.REPO not in _PROBE:
        keys = list(PROBES)
        res = run_impl_parallel("c15_links.py", [{"cases": [PROBES[k] for k in keys], "classes": CLASSES}])[0]
        o1, o2, o3 = res
        stale = bool(o3["reparse"]) and o3["reparse"][0] == "ok"   # the dump of the witness tree loads again
        prefix = o1["build"] == [0, 1]                       # the overlapping second call raises ValueError
        dump = False
        if o2["dump"] is not None:
            items = unc(o2["dump"]).get("cs") or []
            dump = bool(items) and all("q" not in (it.get("init_args") or {}) for it in items)
        _PROBE[framework.REPO] = {"link-key-prefix-overlap": prefix, "list-item-target-in-dump": dump,
                                  "subcommand-env-defaults-stale-target": stale}
    return _PROBE[framework.REPO]


def fixes_present():
    env = os.environ.get("VERIF_C15_FIXED")
    if env is not None:
        parts = {x.strip() for x in env.split(",") if x.strip()}
        return {"link-key-prefix-overlap": "prefix" in parts, "list-item-target-in-dump": "dump" in parts,
                "subcommand-env-defaults-stale-target": "stale" in parts}
    out = {}
    for k, v in FIXES_APPLIED.items():
        out[k] = probe_fixes()[k] if v is None else bool(v)
    return out


def fixed_mask():
    f = fixes_present()
    return ((1 if f["link-key-prefix-overlap"] else 0) | (2 if f["list-item-target-in-dump"] else 0)
            | (4 if f["subcommand-env-defaults-stale-target"] else 0))


def extra_coverage(tier):
    return {"model_variant": {k: ("repaired" if v else "pinned") for k, v in fixes_present().items()}}


REQ = "__required__"
SUBCOMMANDS_ = ["fit", "test"]
CLASSES = {
    "Base": [["p", "int", 1], ["q", "int", 2]],
    "Sub": [["p", "int", 10], ["r", "int", 30]],
    "Req": [["p", "int", REQ], ["q", "int", 5]],
    "Lst": [["p", "int", 3], ["l", "list", [7]]],
}
FN = {"add": 0, "cat": 1, "tup": 2, "first": 3, "word": 4, "boom": 5, "gsum": 6, "inc": 7, "pair": 8, "kind": 9, "dsum": 10}
WORDS = ["ab", "cd", "xyz", "q", "foo"]


# ------------------------------------------------------------------------------------------------ generation
def rand_val(rng, ty):
    if ty == "int":
        return rng.choice([0, 1, 2, 3, 5, 7, -4, 12, 100])
    if ty == "str":
        return rng.choice(WORDS)
    if ty == "list":
        return [rng.randint(0, 9) for _ in range(rng.randint(0, 3))]
    if ty == "dict":
        return {k: rng.randint(0, 9) for k in rng.sample(["x", "y", "z"], rng.randint(0, 2))}
    return rng.choice([rng.randint(0, 9), rng.choice([0, 1]), rng.choice([True, False]), rng.choice(WORDS), [rng.randint(0, 5)]])


def bad_val(rng, ty):
    if ty == "int":
        return rng.choice([rng.choice(WORDS), [1]])
    if ty == "list":
        return rng.choice([3, rng.choice(WORDS), [1, "ab"]])
    return None  # str / any accept every text


def spec(rng, cname=None, with_keys=None, linked=()):
    """linked: parameters that are link targets of the argument the spec is for — a REQUIRED one among them is mostly
    left out (the target is not required from the user)"""
    cname = cname or rng.choice(list(CLASSES))
    init = {}
    for pn, pt, pd in CLASSES[cname]:
        if pd == REQ and pn in linked and not (with_keys and pn in with_keys) and rng.random() < 0.75:
            continue
        if pd == REQ or rng.random() < 0.4 or (with_keys and pn in with_keys):
            init[pn] = rand_val(rng, pt)
    return {"class_path": "c15mod." + cname, "init_args": init}


def gen_parser(rng, family):
    decls = []
    plain_pool = ["a", "b", "t", "u", "w", "g.x", "g.y", "g.z", "h.x", "h.y"]
    n = rng.randint(3, 6)
    keys = rng.sample(plain_pool, n)
    keys.sort(key=plain_pool.index)
    if rng.random() < 0.5:
        rng.shuffle(keys)
    for k in keys:
        ty = rng.choices(["int", "str", "list", "any"], [6, 1, 2, 2])[0]
        r = rng.random()
        if r < 0.12:
            decls.append({"key": k, "kind": ty, "default": None, "required": True})
        elif r < 0.27:
            decls.append({"key": k, "kind": ty, "default": None, "required": False})
        else:
            decls.append({"key": k, "kind": ty, "default": rand_val(rng, ty), "required": False})
    # ~30% of the plain arguments are declared with a second option string: --<key>_alt, or -K for one-letter keys
    for d in decls:
        d["alias"] = None
        if rng.random() < 0.3:
            d["alias"] = "short" if len(d["key"]) == 1 and rng.random() < 0.5 else "long"
    if family == "B":
        for k in rng.sample(["c", "d"], rng.randint(1, 2)):
            dflt = None if rng.random() < 0.4 else spec(rng)
            decls.insert(rng.randint(0, len(decls)), {"key": k, "kind": "class", "default": dflt, "required": False, "alias": None})
        if rng.random() < 0.6:
            decls.insert(rng.randint(0, len(decls)), {"key": "cs", "kind": "classlist", "default": [], "required": False, "alias": None})
        # a Dict[str, int]-typed argument: as the target of an identity link from a group it makes apply_parsing_links
        # convert the group's Namespace to a dict (by the target's type hint)
        if rng.random() < 0.35:
            decls.insert(rng.randint(0, len(decls)), {"key": "m", "kind": "dict", "default": None if rng.random() < 0.3 else rand_val(rng, "dict"),
                                                      "required": False, "alias": None})
    return decls


def source_candidates(decls):
    out = []
    groups = set()
    for d in decls:
        if d["kind"] in ("class", "classlist"):
            if d["kind"] == "class":
                out += [(d["key"] + ".init_args." + p, "int") for p in ("p", "q", "r")]
                out.append((d["key"], "map"))
        elif d["kind"] != "dict":   # a dict VALUE as source: type(x).__name__ would tell it from a Namespace, val cannot
            out.append((d["key"], d["kind"]))
            if "." in d["key"]:
                groups.add(d["key"].split(".")[0])
    out += [(g, "map") for g in sorted(groups)]
    return out


def target_candidates(decls):
    out = []
    for d in decls:
        if d["kind"] in ("class", "classlist"):
            out += [(d["key"] + ".init_args." + p, "int") for p in ("p", "q", "r")]
            out.append((d["key"] + ".init_args.l", "list"))
        else:
            out.append((d["key"], d["kind"]))
    return out


def pick_fn(rng, src_types, tgt_type):
    """mostly a function whose result fits the target"""
    n = len(src_types)
    if tgt_type == "dict":
        # identity from a group: Namespace -> dict by the target's type hint. A compute function that hands the Namespace
        # through (first) would put a Namespace where the model's val has the same VMap: never used for dict targets
        if src_types == ["map"] and rng.random() < 0.85:
            return None
        return rng.choice([FN["word"], FN["tup"], FN["add"], None if n == 1 else FN["kind"]])
    if rng.random() < 0.15:
        return rng.choice([None] + list(FN.values()))
    if tgt_type in ("int",):
        if all(t == "int" for t in src_types):
            return rng.choice([FN["add"], FN["add"], FN["first"], FN["inc"] if n == 1 else FN["add"], None if n == 1 else FN["add"]])
        if n == 1 and src_types[0] == "map":
            return rng.choice([FN["gsum"], FN["dsum"]])
        return rng.choice([FN["first"], FN["add"], FN["word"]])
    if tgt_type == "list":
        if all(t == "list" for t in src_types):
            return rng.choice([FN["cat"], None if n == 1 else FN["cat"], FN["first"]])
        if all(t == "int" for t in src_types):
            return rng.choice([FN["tup"], FN["pair"] if n == 1 else FN["tup"]])
        return rng.choice([FN["tup"], FN["cat"]])
    if tgt_type == "str":
        return rng.choice([FN["word"], None if n == 1 and src_types[0] == "str" else FN["word"], FN["first"], FN["kind"], FN["kind"]])
    if tgt_type == "any" and rng.random() < 0.3:
        return FN["kind"]
    return rng.choice([None if n == 1 else FN["tup"], FN["tup"], FN["first"], FN["add"], FN["gsum"] if src_types == ["map"] else FN["first"]])


def gen_links(rng, decls):
    srcs = source_candidates(decls)
    tgts = target_candidates(decls)
    links = []
    used_t, used_s = set(), set()
    nl = rng.randint(1, 4)
    weird = rng.random() < 0.3
    for _ in range(nl):
        for _try in range(20):
            tk, tt = rng.choice(tgts)
            k = rng.choices([1, 2, 3], [6, 3, 1])[0]
            ss = rng.sample(srcs, min(k, len(srcs)))
            skeys = [s for s, _ in ss]
            if not weird:
                # a link set the code accepts and that has no overlaps
                def cmp(a, b):
                    return a == b or a.startswith(b + ".") or b.startswith(a + ".")
                if any(cmp(tk, t) for t in used_t) or any(cmp(tk, s) for s in used_s) or any(cmp(tk, s) for s in skeys):
                    continue
                if any(cmp(s, t) for s in skeys for t in used_t):
                    continue
            fn = pick_fn(rng, [t for _, t in ss], tt)
            if fn is None and len(skeys) != 1 and not (weird and rng.random() < 0.3):
                fn = FN["tup"]
            links.append({"src": skeys, "tgt": tk, "fn": fn})
            used_t.add(tk)
            used_s.update(skeys)
            break
    if weird and links:
        r = rng.random()
        l0 = rng.choice(links)
        if r < 0.2:      # chain: source is an earlier target
            tk, tt = rng.choice(tgts)
            links.append({"src": [l0["tgt"]], "tgt": tk, "fn": rng.choice([None, FN["first"]])})
        elif r < 0.4:    # chain: target is an earlier source (the order that breaks the invariant)
            # ... of ANY source of an earlier link, preferably of a multi-source one, fed from an argument of the same
            # type so that the parse gets as far as showing the stale target
            multi = [l for l in links if len(l["src"]) > 1]
            lx = rng.choice(multi) if multi and rng.random() < 0.7 else l0
            tk = rng.choice(lx["src"])
            ttype = dict(srcs).get(tk)
            same = [s for s, t in srcs if t == ttype and t != "map" and s != tk and s not in lx["src"]]
            sk = rng.choice(same) if same and rng.random() < 0.8 else rng.choice(srcs)[0]
            fn = FN["inc"] if ttype == "int" and rng.random() < 0.6 else rng.choice([None, FN["first"]])
            links.append({"src": [sk], "tgt": tk, "fn": fn})
        elif r < 0.5:    # double target
            sk, st = rng.choice(srcs)
            links.append({"src": [sk], "tgt": l0["tgt"], "fn": None})
        elif r < 0.6:    # missing key
            links.append({"src": ["nope"], "tgt": l0["tgt"] + "x", "fn": None})
        elif r < 0.8:    # prefix overlap: group / class valued source, target inside it
            maps = [s for s, t in srcs if t == "map"]
            if maps:
                m = rng.choice(maps)
                inside = [t for t, _ in tgts if t.startswith(m + ".")]
                outside = [t for t, _ in tgts if not t.startswith(m + ".")]
                if inside and outside:
                    first = {"src": [m], "tgt": rng.choice(outside), "fn": rng.choice([FN["gsum"], FN["first"], FN["tup"], None])}
                    plain = [s for s, t in srcs if t == "int" and not s.startswith(m + ".")]
                    second = {"src": [rng.choice(plain)] if plain else [m], "tgt": rng.choice(inside), "fn": None}
                    links = [first, second] if rng.random() < 0.7 else [second, first]
        elif r < 0.88:   # self link
            sk, st = rng.choice([s for s in srcs if s[1] != "map"] or srcs)
            links.append({"src": [sk], "tgt": sk, "fn": FN["inc"]})
        elif r < 0.94:   # several sources without a compute function
            k = min(len(srcs), rng.randint(2, 3))
            tk, tt = rng.choice(tgts)
            links.insert(rng.randint(0, len(links)), {"src": [s for s, _ in rng.sample(srcs, k)], "tgt": tk, "fn": None})
        else:            # a key below a class-typed argument that does not go through init_args
            cl = [d["key"] for d in decls if d["kind"] in ("class", "classlist")]
            if cl:
                ck = rng.choice(cl)
                tk = ck + "." + rng.choice(["p", "q", "init_args", "class_path", "dict_kwargs.p"])
                sk = rng.choice([s for s, t in srcs if t == "int"] or [srcs[0][0]])
                links.insert(rng.randint(0, len(links)), {"src": [sk], "tgt": tk, "fn": None})
        if rng.random() < 0.3:
            rng.shuffle(links)
    # a whole class argument as link target is outside the modelled space (Model/C15Links.v add_link: EUnmodelled)
    whole = {d["key"] for d in decls if d["kind"] in ("class", "classlist")}
    links = [l for l in links if l["tgt"] not in whole]
    # Outside the value space of the model (finite trees, no sharing): a link that hands a group / class Namespace
    # through by reference (identity, first, tup) in a link set with overlapping keys makes the real parser build shared
    # or cyclic Namespaces (RecursionError, later links writing through the alias). Such link sets keep their overlap
    # but get a function that reads the Namespace instead (gsum).
    if not py_overlap_free(links):
        kinds = dict(srcs)
        for l in links:
            if l["fn"] in (None, FN["first"], FN["tup"]) and any(kinds.get(k) == "map" for k in l["src"]):
                l["fn"] = FN["gsum"]
    return links


def py_comparable(a, b):
    return a == b or a.startswith(b + ".") or b.startswith(a + ".")


def py_overlap_free(links):
    """Model/C15Links.v overlap_free on the generated link list (superset of the accepted links)"""
    for i, l in enumerate(links):
        if any(py_comparable(l["tgt"], k) for k in l["src"]):
            return False
        for m in links[i + 1:]:
            if m["tgt"] != l["tgt"] and py_comparable(m["tgt"], l["tgt"]):
                return False
            if any(m["tgt"] != k and py_comparable(m["tgt"], k) for k in l["src"]):
                return False
    return True


def nest(pairs):
    out = {}
    for k, v in pairs:
        parts = k.split(".")
        cur = out
        for s in parts[:-1]:
            cur = cur.setdefault(s, {})
            if not isinstance(cur, dict):
                break
        else:
            cur[parts[-1]] = v
    return out


def gen_input(rng, decls, links, family, mode=None):
    plain = [d for d in decls if d["kind"] not in ("class", "classlist")]
    classy = [d for d in decls if d["kind"] in ("class", "classlist")]
    tgt_keys = {l["tgt"] for l in links}
    plain_tgts = [d for d in plain if d["key"] in tgt_keys]
    supply = rng.random() < 0.35
    allow_bad = family == "A" and rng.random() < 0.12

    def value_for(d):
        if allow_bad and rng.random() < 0.3:
            b = bad_val(rng, d["kind"])
            if b is not None:
                return b
        return rand_val(rng, d["kind"])

    env = []
    for d in rng.sample(plain, min(len(plain), rng.choice([0, 0, 1, 2]))):
        if d["key"] in tgt_keys and not supply:
            continue
        if d["kind"] == "str" or d["kind"] == "any":
            v = rng.choice(WORDS) if d["kind"] == "str" else rand_val(rng, "any")
        else:
            v = value_for(d)
        env.append([d["key"], v])

    def cfg_map():
        pairs = []
        for d in rng.sample(plain, min(len(plain), rng.randint(1, 3))):
            if d["key"] in tgt_keys and not supply:
                continue
            v = None if rng.random() < 0.06 else value_for(d)
            pairs.append((d["key"], v))
        m = nest(pairs)
        for d in classy:
            if rng.random() < 0.4:
                m[d["key"]] = class_value(d)
        return m

    def class_value(d):
        tparams = [l["tgt"].split(".")[-1] for l in links if l["tgt"].startswith(d["key"] + ".init_args.")]
        wk = tparams if supply else None
        if d["kind"] == "class":
            return spec(rng, with_keys=wk, linked=tparams)
        return [spec(rng, with_keys=wk, linked=tparams) for _ in range(rng.randint(0, 3))]

    if mode is None:
        mode = "object" if rng.random() < 0.25 else "args"
    argv, obj = [], {}
    if mode == "object":
        obj = cfg_map()
    else:
        for _ in range(rng.choice([0, 1, 2, 3, 4])):
            r = rng.random()
            if r < 0.3:
                argv.append(["cfg", cfg_map()])
            elif r < 0.8 or not classy:
                cands = [d for d in plain if d["key"] not in tgt_keys]
                if cands:
                    d = rng.choice(cands)
                    v = value_for(d)
                    if d["kind"] == "str" and not isinstance(v, str):
                        v = rng.choice(WORDS)
                    argv.append(["opt", d["key"], v])
            else:
                d = rng.choice(classy)
                r2 = rng.random()
                if d["kind"] == "class" and r2 < 0.3:
                    argv.append(["opt", d["key"], "c15mod." + rng.choice(list(CLASSES))])
                elif d["kind"] == "class" and r2 < 0.5:
                    argv.append(["opt", d["key"] + ".init_args.p", rng.randint(0, 9)])
                else:
                    argv.append(["opt", d["key"], class_value(d)])
        if supply and plain_tgts and rng.random() < 0.45:
            d = rng.choice(plain_tgts)
            argv.insert(rng.randint(0, len(argv)), ["opt", d["key"], rand_val(rng, d["kind"]) if d["kind"] != "str" else rng.choice(WORDS)])
    # required non-target arguments are mostly given
    for d in plain:
        if d["required"] and d["key"] not in tgt_keys and rng.random() < 0.85:
            v = rand_val(rng, d["kind"])
            if mode == "object":
                obj = nest([(d["key"], v)] + flat(obj))
            else:
                argv.append(["opt", d["key"], v if d["kind"] != "str" else rng.choice(WORDS)])
    # an argument that one link call names as target and another as source (a chain: one of the two calls is refused, or
    # should be) mostly gets a value from a config, the only channel that can feed a replaced target action
    src_keys = {k for l in links for k in l["src"]}
    for d in plain:
        if d["key"] in tgt_keys and d["key"] in src_keys and rng.random() < 0.6:
            v = rand_val(rng, d["kind"])
            if mode == "object":
                obj = nest([(d["key"], v)] + flat(obj))
            else:
                argv.insert(0, ["cfg", nest([(d["key"], v)])])
    # a link into the items of a list of classes is only exercised when the list is there: mostly give one, with items
    # of DIFFERENT classes, some taking the target parameter and some not (the link reaches exactly the former)
    for d in classy:
        tparams = [l["tgt"].split(".")[-1] for l in links if l["tgt"].startswith(d["key"] + ".init_args.")]
        if d["kind"] != "classlist" or not tparams or rng.random() > 0.7:
            continue
        tp = rng.choice(tparams)
        has = [c for c, ps in CLASSES.items() if any(pn == tp for pn, _, _ in ps)]
        lacks = [c for c in CLASSES if c not in has]
        names = [rng.choice(has or list(CLASSES)), rng.choice(lacks or list(CLASSES))] + [rng.choice(list(CLASSES)) for _ in range(rng.randint(0, 1))]
        rng.shuffle(names)
        value = [spec(rng, cname=c, with_keys=tparams if supply else None, linked=tparams) for c in names]
        if mode == "object":
            obj[d["key"]] = value
        else:
            argv.append(["opt", d["key"], value])
    # a class argument that holds a link target is often given as a whole spec in its OWN config file: the parse keeps the
    # file's __path__, and save(multifile=True) writes the value back to a file of its own — which must not hold the target
    if mode == "args":
        for d in classy:
            if d["kind"] == "class" and any(l["tgt"].startswith(d["key"] + ".init_args.") for l in links) and rng.random() < 0.4:
                argv.append(["opt", d["key"], class_value(d), "file"])
    # spelling / transport of the options: an argument declared with a second option string is given through it half of
    # the time (whether it is a source or a link target); a whole class spec is handed over in its own config file half
    # of the time (the parse keeps the file's __path__, save() writes the value back to a file of its own)
    by_key = {d["key"]: d for d in decls}
    for it in argv:
        d = by_key.get(it[1]) if it[0] == "opt" else None
        if d is None:
            continue
        if d.get("alias") and rng.random() < 0.5:
            it.append("alt")
        elif d["kind"] == "class" and isinstance(it[2], dict) and rng.random() < 0.7:
            it.append("file")
    return {"mode": mode, "env": env, "argv": argv, "obj": obj}


def flat(m, pre=""):
    out = []
    for k, v in m.items():
        if isinstance(v, dict) and "class_path" not in v:
            out += flat(v, pre + k + ".")
        else:
            out.append((pre + k, v))
    return out


def second_input(rng, decls, x):
    """the input of the SECOND parse on the same parser object: the first input with some values of Any-typed arguments
    replaced by a value of another kind that compares (and hashes) equal: 1 <-> True, 0 <-> False"""
    anyk = {d["key"] for d in decls if d["kind"] == "any"}
    swap = {0: False, 1: True}

    def sw(k, v):
        if k in anyk and type(v) is int and v in swap and rng.random() < 0.8:
            return swap[v]
        if k in anyk and type(v) is bool and rng.random() < 0.8:
            return int(v)
        return v

    def sw_map(m, pre=""):
        return {k: (sw_map(v, pre + k + ".") if isinstance(v, dict) and "class_path" not in v else sw(pre + k, v)) for k, v in m.items()}

    y = copy.deepcopy(x)
    y["argv"] = [[it[0], it[1], sw(it[1], it[2])] + it[3:] if it[0] == "opt" else ["cfg", sw_map(it[1])] for it in y["argv"]]
    y["obj"] = sw_map(y["obj"])
    return y


def generate(rng, tier):
    cases = []
    nparsers = 330 if tier == "quick" else 5000
    for i in range(nparsers):
        family = "B" if rng.random() < 0.4 else "A"
        decls = gen_parser(rng, family)
        links = gen_links(rng, decls)
        has_list_target = any(l["tgt"].startswith("cs.init_args.") for l in links)
        for _ in range(4):
            x = gen_input(rng, decls, links, family)
            case = dict(decls=decls, links=links, aspect=0, full=(family == "A"), **x)
            case["second"] = second_input(rng, decls, x)
            cases.append(case)
            if has_list_target and family == "B":
                cases.append(dict(case, aspect=1))
    cases += gen_chains(rng, 25 if tier == "quick" else 300)
    cases += gen_whole(rng, 30 if tier == "quick" else 400)
    cases += gen_nested_source(rng, 15 if tier == "quick" else 200)
    cases += gen_trees(rng, 90 if tier == "quick" else 900)
    cases += gen_convert(rng, 30 if tier == "quick" else 400)
    return cases


def gen_convert(rng, n):
    """Well-typed family for (i) the automatic Namespace -> dict conversion of apply_parsing_links — an identity link from
    a group of ints to a Dict[str, int]-typed argument (by the TARGET's type hint), a link from the group through
    dsum(d: dict) (by the compute function's parameter annotation) — and (ii) a REQUIRED __init__ parameter as link target
    (a -> c.init_args.p with c given as a Req spec that leaves p out: the target is not required from the user)."""
    cases = []
    for _ in range(n):
        gk = rng.choice(["g", "h"])
        members = rng.sample(["x", "y", "z"], rng.randint(1, 3))
        decls = [{"key": gk + "." + k, "kind": "int", "default": rand_val(rng, "int"), "required": False, "alias": None} for k in members]
        for k in ("a", "t"):
            decls.insert(rng.randint(0, len(decls)), {"key": k, "kind": "int", "default": rand_val(rng, "int"), "required": False,
                                                      "alias": "long" if rng.random() < 0.2 else None})
        decls.insert(rng.randint(0, len(decls)), {"key": "m", "kind": "dict", "default": None if rng.random() < 0.4 else rand_val(rng, "dict"),
                                                  "required": False, "alias": None})
        decls.insert(rng.randint(0, len(decls)), {"key": "c", "kind": "class", "default": None if rng.random() < 0.5 else spec(rng),
                                                  "required": False, "alias": None})
        links = [{"src": [gk], "tgt": "m", "fn": None}]
        if rng.random() < 0.6:
            links.append({"src": [gk], "tgt": "t", "fn": rng.choice([FN["dsum"], FN["dsum"], FN["gsum"]])})
        if rng.random() < 0.75:
            links.append({"src": [rng.choice(["a", gk + "." + members[0]])], "tgt": "c.init_args.p", "fn": rng.choice([None, FN["inc"]])})
        rng.shuffle(links)
        for _ in range(4):
            x = gen_input(rng, decls, links, "B")
            if rng.random() < 0.6:
                v = spec(rng, cname="Req", linked=["p"])
                if x["mode"] == "object":
                    x["obj"]["c"] = v
                else:
                    x["argv"] = [it for it in x["argv"] if not (it[0] == "opt" and it[1].startswith("c"))]
                    x["argv"].insert(rng.randint(0, len(x["argv"])), ["opt", "c", v] + (["file"] if rng.random() < 0.6 else []))
            cases.append(dict(decls=decls, links=links, aspect=0, full=False, second=None, **x))
    return cases


def gen_chains(rng, n):
    """Well-typed chains: int arguments only, an n-ary add link and a second link that touches it in one of the ways
    _initial_input_checks must refuse (its target is the k-th source of the first link, its source is the first link's
    target, the same target twice), in either declaration order, with compute functions that always fit (add, inc,
    identity) — so that a link call that is wrongly accepted shows as a wrong target value and not as a rejected parse.
    The chained key gets a value from a config / object, the only channel that reaches a replaced target action."""
    cases = []
    pool = ["a", "b", "t", "u", "w", "g.x", "g.y", "h.x"]
    for _ in range(n):
        keys = rng.sample(pool, rng.randint(5, 6))
        decls = [{"key": k, "kind": "int", "default": rand_val(rng, "int"), "required": False,
                  "alias": "long" if rng.random() < 0.2 else None} for k in keys]
        k = rng.randint(2, 3)
        srcs, tgt, extra = keys[:k], keys[k], keys[k + 1]
        first = {"src": srcs, "tgt": tgt, "fn": FN["add"]}
        how = rng.choice(["into-source", "into-source", "from-target", "same-target"])
        if how == "into-source":
            chained = rng.choice(srcs)
            second = {"src": [extra], "tgt": chained, "fn": rng.choice([FN["inc"], None])}
        elif how == "from-target":
            chained = tgt
            second = {"src": [tgt], "tgt": extra, "fn": rng.choice([FN["inc"], None])}
        else:
            chained = tgt
            second = {"src": [extra], "tgt": tgt, "fn": FN["inc"]}
        links = [first, second] if rng.random() < 0.6 else [second, first]
        for _ in range(4):
            mode = "object" if rng.random() < 0.3 else "args"
            x = gen_input(rng, decls, links, "B", mode)
            if rng.random() < 0.8:
                v = rand_val(rng, "int")
                if mode == "object":
                    x["obj"] = nest([(chained, v)] + flat(x["obj"]))
                else:
                    x["argv"].insert(0, ["cfg", nest([(chained, v)])])
            case = dict(decls=decls, links=links, aspect=0, full=True, **x)
            case["second"] = second_input(rng, decls, x)
            cases.append(case)
    return cases


def gen_nested_source(rng, n):
    """The one overlap the repaired _initial_input_checks still accepts: a later SOURCE that contains an earlier TARGET
    (a -> g.x, then g -> t through gsum / dsum). It is harmless only because the links are applied in declaration order:
    t must be computed from the group AFTER g.x was overwritten. Declared the other way round the second call is refused.
    Int arguments only, whole pipeline modelled."""
    cases = []
    for _ in range(n):
        gk = rng.choice(["g", "h"])
        members = rng.sample(["x", "y", "z"], rng.randint(1, 3))
        keys = [gk + "." + k for k in members] + rng.sample(["a", "b", "t", "u", "w"], 3)
        rng.shuffle(keys)
        decls = [{"key": k, "kind": "int", "default": rand_val(rng, "int"), "required": False,
                  "alias": "long" if rng.random() < 0.2 else None} for k in keys]
        plain = [k for k in keys if "." not in k]
        inner = {"src": [plain[0]], "tgt": gk + "." + members[0], "fn": rng.choice([FN["inc"], None])}
        outer = {"src": [gk], "tgt": plain[1], "fn": rng.choice([FN["gsum"], FN["dsum"]])}
        links = [inner, outer] if rng.random() < 0.75 else [outer, inner]
        if rng.random() < 0.3:
            links.insert(rng.randint(0, 2), {"src": [plain[0], plain[2]], "tgt": gk + "." + members[-1], "fn": FN["add"]} if len(members) > 1
                         else {"src": [plain[2]], "tgt": plain[2] + "x", "fn": None})
        for _ in range(4):
            x = gen_input(rng, decls, links, "B")
            case = dict(decls=decls, links=links, aspect=0, full=True, **x)
            case["second"] = second_input(rng, decls, x)
            cases.append(case)
    return cases


def gen_whole(rng, n):
    """A WHOLE class-typed argument as link target (link_arguments("d", "c"): c := the class spec found at d), alone or
    together with a second link whose target or source lies INSIDE the enclosing target c (a -> c.init_args.p,
    c.init_args.p -> t) or inside its source d, in either declaration order. _initial_input_checks must refuse a target
    that encloses, or is enclosed by, an earlier target or source whichever of the two was declared first; a source inside
    an earlier target, and a target inside... an earlier source's class declared before, are the harmless orders."""
    cases = []
    for _ in range(n):
        ints = rng.sample(["a", "b", "t", "u", "w"], 3)
        decls = [{"key": k, "kind": "int", "default": rand_val(rng, "int"), "required": False, "alias": None} for k in ints]
        for k in ("c", "d"):
            dflt = spec(rng) if k == "d" or rng.random() < 0.6 else None
            decls.insert(rng.randint(0, len(decls)), {"key": k, "kind": "class", "default": dflt, "required": False, "alias": None})
        whole = {"src": ["d"], "tgt": "c", "fn": rng.choice([None, FN["first"]])}
        par = rng.choice(["p", "p", "q", "r"])
        how = rng.choice(["alone", "nested-target", "nested-target", "nested-source", "nested-source", "source-side-target", "source-side-source"])
        other = {"nested-target": {"src": [ints[0]], "tgt": "c.init_args." + par, "fn": rng.choice([None, FN["inc"]])},
                 "nested-source": {"src": ["c.init_args." + par], "tgt": ints[1], "fn": rng.choice([None, FN["inc"]])},
                 "source-side-target": {"src": [ints[0]], "tgt": "d.init_args." + par, "fn": None},
                 "source-side-source": {"src": ["d.init_args." + par], "tgt": ints[1], "fn": None}}.get(how)
        links = [whole] if other is None else ([other, whole] if rng.random() < 0.6 else [whole, other])
        for _ in range(4):
            x = gen_input(rng, decls, links, "B")
            cases.append(dict(decls=decls, links=links, aspect=0, full=False, second=None, **x))
    return cases


SUBCOMMANDS = ["fit", "test"]


def gen_trees(rng, n):
    """One level of subcommands: a top-level parser (plain arguments; with links of its own or WITHOUT any) and two
    subcommands built from one generated parser (plain or class-typed arguments, 1-4 link_arguments calls); parse, dump and
    re-parse all go through the TOP parser. The top-level input selects one subcommand and sets the subcommand's sources
    (and, for ~35%, its targets) through the subcommand's options / its own --cfg / the nested section of the top-level
    --cfg or object."""
    cases = []
    for _ in range(n):
        top_decls = gen_parser(rng, "A")
        top_links = gen_links(rng, top_decls) if rng.random() < 0.5 else []
        family = "B" if rng.random() < 0.3 else "A"
        sub_decls = gen_parser(rng, family)
        # two parsers must both accept the input for a dump to exist: fewer None defaults (a None source is rejected by
        # the non-lenient source check of apply_parsing_links) than in the flat families
        for d in top_decls + sub_decls:
            if d["kind"] in G_TY and d["default"] is None and not d["required"] and rng.random() < 0.8:
                d["default"] = rand_val(rng, d["kind"])
        sub_links = gen_links(rng, sub_decls)
        for _ in range(4):
            name = rng.choice(SUBCOMMANDS)
            mode = "object" if rng.random() < 0.3 else "args"
            x = gen_input(rng, top_decls, top_links, "B", mode)
            y = gen_input(rng, sub_decls, sub_links, "B", mode)
            obj = dict(x["obj"])
            if mode == "object":
                obj[name] = y["obj"]
            else:
                # the nested section of a top-level --cfg also reaches the subcommand
                for it in x["argv"]:
                    if it[0] == "cfg" and rng.random() < 0.3:
                        sec = gen_input(rng, sub_decls, sub_links, "B", "object")["obj"]
                        if sec:
                            it[1][name] = sec
            cases.append(dict(decls=top_decls, links=top_links, aspect=0, full=False, mode=mode, env=x["env"],
                              argv=x["argv"], obj=obj,
                              sub={"name": name, "decls": sub_decls, "links": sub_links, "argv": y["argv"] if mode == "args" else []}))
    return cases


# ------------------------------------------------------------------------------------------------ observation
def observe(cases):
    n = 16
    chunks = [cases[i::n] for i in range(n)]
    res = run_impl_parallel("c15_links.py", [{"cases": ch, "classes": CLASSES} for ch in chunks if ch])
    out = [None] * len(cases)
    k = 0
    for i, ch in enumerate(chunks):
        if ch:
            out[i::n] = res[k]
            k += 1
    return out


# ------------------------------------------------------------------------------------------------ Gallina printing
# Frequent strings (key segments, class paths, words) and the class table are defined ONCE in the header of every generated
# cases file and referenced by name in the case terms: a 400-case shard then needs ~4x less memory and time in coqc than
# with every string spelled out as a list of code points.
_POOL_STRINGS = (["a", "b", "t", "u", "w", "g", "h", "x", "y", "z", "c", "d", "cs", "p", "q", "r", "l", "nope",
                  "init_args", "class_path", "zz", "<true>", "<false>", "<other>", "subcommand"] + SUBCOMMANDS_ + WORDS + ["c15mod." + n for n in CLASSES])
_POOL = {}
for _i, _s in enumerate(dict.fromkeys(_POOL_STRINGS)):
    _POOL[_s] = "c15s%d" % _i


def gs(s):
    return _POOL.get(s) or g_str(s)


def g_key(k):
    return g_list([gs(s) for s in k.split(".")], "str")


def g_val(v):
    if v is None:
        return "VNone"
    if isinstance(v, bool):
        return "(VStr %s)" % gs("<true>" if v else "<false>")
    if isinstance(v, int):
        return "(VInt (%d)%%Z)" % v
    if isinstance(v, str):
        return "(VStr %s)" % gs(v)
    if isinstance(v, list):
        return "(VList %s)" % g_list([g_val(x) for x in v], "val")
    if isinstance(v, dict):
        if "__bool__" in v:
            return "(VStr %s)" % gs("<true>" if v["__bool__"] else "<false>")
        if "__map__" in v:
            items = v["__map__"]
        elif "__other__" in v:
            return "(VStr %s)" % gs("<other>")
        else:
            items = list(v.items())
        return "(VMap %s)" % g_list(["(%s, %s)" % (gs(k), g_val(x)) for k, x in items], "(str * val)")
    raise ValueError(v)


G_TY = {"int": "TInt", "str": "TStr", "list": "TListInt", "any": "TAny", "dict": "TDictInt"}


def g_decl(d):
    kind = {"class": "KClass", "classlist": "KClassList"}.get(d["kind"]) or "(KPlain %s)" % G_TY[d["kind"]]
    return "{| d_key := %s; d_kind := %s; d_default := %s; d_required := %s; d_alias := %s |}" % (
        g_key(d["key"]), kind, g_val(None if d["required"] else d["default"]), g_bool(d["required"]), g_bool(bool(d.get("alias"))))


def g_classes():
    out = []
    for name, params in CLASSES.items():
        ps = ["(%s, %s, %s)" % (gs(pn), G_TY[pt], g_opt(None if pd == REQ else g_val(pd))) for pn, pt, pd in params]
        out.append("{| c_name := %s; c_params := %s |}" % (gs("c15mod." + name), g_list(ps, "(str * ty * option val)")))
    return g_list(out, "cls")


def g_pres(r):
    if r is None:
        return "PCrash"
    if r[0] == "ok":
        return "(POk %s)" % g_val(r[1])
    return {"linked": "PLinked", "rejected": "PRejected"}.get(r[0], "PCrash")


_CLASSES_TERM = "c15classes"
IMPORTS = (IMPORTS + "\n" + "\n".join("Definition %s : str := %s." % (n, g_str(t)) for t, n in _POOL.items())
           + "\nDefinition c15classes : list cls := %s." % g_classes())


def g_item(it):
    if it[0] != "opt":
        return "(Cfg %s)" % g_val(it[1])
    return "(%s %s %s)" % ("OptAlias" if len(it) > 3 and it[3] == "alt" else "Opt", g_key(it[1]), g_val(it[2]))


def g_input(x):
    env = g_list([g_pair(g_key(k), g_val(v)) for k, v in x["env"]], "(key * val)")
    if x["mode"] == "object":
        return "(InObject %s %s)" % (env, g_val(x["obj"]))
    return "(InArgs %s %s)" % (env, g_list([g_item(it) for it in x["argv"]], "item"))


def term(case, obs):
    links = ["{| l_src := %s; l_tgt := %s; l_fn := %s |}" % (
        g_list([g_key(s) for s in l["src"]], "key"), g_key(l["tgt"]), g_opt(None if l["fn"] is None else g_nat(l["fn"])))
        for l in case["links"]]
    inp = g_input(case)
    x2 = case.get("second")
    p2 = obs.get("parse2")
    g_second = ("c_input2 := %s; o_pre2 := %s; o_parse2 := %s; " % (
        g_opt(None if x2 is None else g_input(x2)), g_opt(None if obs.get("pre2") is None else g_val(obs["pre2"])),
        g_opt(None if x2 is None or p2 is None else g_pres(p2))))
    rp = obs["reparse"]
    sub = case.get("sub")
    if sub is None:
        g_sub = "None"
    else:
        slinks = ["{| l_src := %s; l_tgt := %s; l_fn := %s |}" % (
            g_list([g_key(k) for k in l["src"]], "key"), g_key(l["tgt"]), g_opt(None if l["fn"] is None else g_nat(l["fn"])))
            for l in sub["links"]]
        sitems = [g_item(it) for it in sub["argv"]]
        g_sub = ("(Some {| sb_name := %s; sb_decls := %s; sb_links := %s; sb_argv := %s; sb_build := %s; sb_required := %s |})" % (
            gs(sub["name"]), g_list([g_decl(d) for d in sub["decls"]], "decl"), g_list(slinks, "link"), g_list(sitems, "item"),
            g_list([g_N(b) for b in obs.get("sub_build", [])], "N"), g_list([g_key(k) for k in obs.get("sub_required", [])], "key")))
    return ("{| c_classes := %s; c_decls := %s; c_links := %s; c_input := %s; c_full := %s; c_aspect := %s; c_fixed := %s; c_sub := %s; "
            "o_build := %s; o_required := %s; o_pre := %s; o_parse := %s; o_dump := %s; %so_save := %s; o_reparse := %s; o_given := %s |}") % (
        _CLASSES_TERM, g_list([g_decl(d) for d in case["decls"]], "decl"), g_list(links, "link"), inp,
        g_bool(case["full"]), g_N(case["aspect"]), g_N(fixed_mask()), g_sub,
        g_list([g_N(b) for b in obs["build"]], "N"), g_list([g_key(k) for k in obs["required"]], "key"),
        g_opt(None if obs["pre"] is None else g_val(obs["pre"])), g_pres(obs["parse"]),
        g_opt(None if obs["dump"] is None else g_val(obs["dump"])), g_second,
        g_opt(None if obs.get("save") is None else g_val(obs["save"])), g_opt(None if rp is None else g_pres(rp)),
        g_opt(None if obs.get("given") is None else g_pres(obs["given"])))


# ------------------------------------------------------------------------------------------------ evidence helpers
def nontrivial_key(case, obs):
    if (0 not in obs["build"] and 0 not in obs.get("sub_build", [])) or obs["pre"] is None:
        return None
    return repr((case, obs["build"], obs["parse"], obs["dump"]))


def category(case, obs):
    kinds = set()
    for l in case["links"]:
        kinds.add("list" if l["tgt"].startswith("cs.") else "init" if ".init_args." in l["tgt"] else "plain")
    fam = "plain-pipeline" if case["full"] else "class-args"
    if case.get("sub"):
        for l in case["sub"]["links"]:
            kinds.add("sub-list" if l["tgt"].startswith("cs.") else "sub-init" if ".init_args." in l["tgt"] else "sub-plain")
        fam = "tree/top-links" if case["links"] else "tree/links-only-in-subcommand"
    res = obs["parse"][0] if obs["parse"] else "none"
    rej = "rejected-links" if 1 in obs["build"] else "all-links-accepted"
    return "%s/%s/targets:%s/%s/%s" % (fam, case["mode"], "+".join(sorted(kinds)), rej, res)


def unc(v):
    if isinstance(v, dict) and "__bool__" in v:
        return v["__bool__"]
    if isinstance(v, dict) and "__map__" in v:
        return {k: unc(x) for k, x in v["__map__"]}
    if isinstance(v, list):
        return [unc(x) for x in v]
    return v


def show_decl(d):
    alt = {"long": " (also --%s_alt)" % d["key"], "short": " (also -%s)" % d["key"].upper()}.get(d.get("alias"), "")
    return "--%s %s%s%s" % (d["key"], d["kind"], " required" if d["required"] else " default=%r" % (d["default"],), alt)


def describe(case, obs):
    fnames = {v: k for k, v in FN.items()}
    sub = case.get("sub")
    extra = {}
    if sub:
        extra = {"subcommand (parse/dump/re-parse go through the TOP parser)": {
            "name": sub["name"], "registered": SUBCOMMANDS,
            "declarations": [show_decl(d) for d in sub["decls"]],
            "link_arguments_calls": ["%s --%s--> %s" % (",".join(l["src"]), fnames.get(l["fn"], "identity"), l["tgt"]) for l in sub["links"]],
            "argv after the subcommand name": sub["argv"],
            "observed link_calls": obs.get("sub_build"), "observed required_args": obs.get("sub_required")}}
    return {
        **extra,
        "declarations": [show_decl(d) for d in case["decls"]],
        "link_arguments_calls": ["%s --%s--> %s" % (",".join(l["src"]), fnames.get(l["fn"], "identity"), l["tgt"]) for l in case["links"]],
        "input": {"mode": case["mode"], "env": case["env"], "argv": case["argv"], "object": case["obj"]},
        "aspect": "targets-in-list-items-vs-dump" if case["aspect"] else "all",
        "observed": {"link_calls(0=accepted,1=ValueError)": obs["build"], "required_args": obs["required"],
                     "cfg_before_links": unc(obs["pre"]), "parse": [obs["parse"][0], unc(obs["parse"][1])] if obs["parse"] else None,
                     "dump(skip_none=False)": unc(obs["dump"]),
                     "save(multifile=True): main file with the nested files put back": unc(obs.get("save")),
                     "files written by save": obs.get("save_files"), "save_error": obs.get("save_error"),
                     "reparse_of_dump": [obs["reparse"][0], unc(obs["reparse"][1])] if obs["reparse"] else None,
                     "the rejected input again, with a value GIVEN for every linked init_arg in every class spec":
                         ([obs["given"][0], unc(obs["given"][1])] if obs.get("given") else None),
                     "SECOND parse on the same parser object (after lists at link targets of the first result were edited in place)":
                         {"input": None if case.get("second") is None else {k: case["second"][k] for k in ("mode", "env", "argv", "obj")},
                          "cfg_before_links": unc(obs.get("pre2")),
                          "parse": [obs["parse2"][0], unc(obs["parse2"][1])] if obs.get("parse2") else None}},
    }


def shrink(case):
    if case.get("second") is not None:
        c = copy.deepcopy(case)
        c["second"] = None
        yield c
        for i in range(len(case["second"]["argv"])):
            c = copy.deepcopy(case)
            del c["second"]["argv"][i]
            yield c
    for i in range(len(case["argv"])):
        c = copy.deepcopy(case)
        del c["argv"][i]
        yield c
    for i in range(len(case["env"])):
        c = copy.deepcopy(case)
        del c["env"][i]
        yield c
    for i in range(len(case["links"])):
        c = copy.deepcopy(case)
        del c["links"][i]
        yield c
    if case.get("sub"):
        for i in range(len(case["sub"]["argv"])):
            c = copy.deepcopy(case)
            del c["sub"]["argv"][i]
            yield c
        for i in range(len(case["sub"]["links"])):
            c = copy.deepcopy(case)
            del c["sub"]["links"][i]
            yield c
        return
    used = set()
    for l in case["links"]:
        used.update(l["src"])
        used.add(l["tgt"])
    for i, d in enumerate(case["decls"]):
        if not any(u == d["key"] or u.startswith(d["key"] + ".") or d["key"].startswith(u + ".") for u in used):
            c = copy.deepcopy(case)
            del c["decls"][i]
            for x in [c] + ([c["second"]] if c.get("second") else []):
                x["argv"] = [it for it in x["argv"] if not (it[0] == "opt" and (it[1] == d["key"] or it[1].startswith(d["key"] + ".")))]
                x["env"] = [e for e in x["env"] if e[0] != d["key"]]
            yield c


META = {
    "level_text": (
        "Proved in Rocq for ALL declarations, link_arguments call sequences, compute functions (a universally quantified "
        "interpretation fn), inputs and configurations of the model coq/Model/C15Links.v (Properties/C15.v): "
        "C15_link_invariant / C15_link_invariant_any_channel — after every successful parse each accepted link holds: its "
        "compute function succeeds on the FINAL source values and the target holds exactly the result, whatever was supplied "
        "for the target and from whatever configuration the link phase starts (guard: no key-prefix overlap among the "
        "accepted links, the listed finding; C15_fixed_link_invariant* has no guard for the repaired _initial_input_checks); "
        "C15_link_invariant_list_items — the same for every item of a list of classes; C15_no_chain and C15_links_commute — "
        "what _initial_input_checks establishes and why it is needed; C15_target_not_required; C15_target_option_rejected; "
        "C15_target_absent_from_dump and C15_dump_changes_only_targets (strip_link_target_keys, any configuration); "
        "C15_reparse_restores_target (two successful parses with equal source values give the same target); "
        "C15_link_key_prefix_overlap_refuted, C15_list_item_target_in_dump_refuted and "
        "C15_skipped_link_target_stripped_refuted — kernel-evaluated inputs on which "
        "the unrepaired code violates the property; C15_fixed_dump_list_items_clean for the repaired strip. "
        "C15_target_option_rejected_any_spelling — the option of a plain target is rejected through any of its option "
        "strings (new input constructor OptAlias inside the induction over argv); "
        "C15_tree_link_invariant and C15_tree_targets_absent_from_dump — one level of subcommands, links in the top "
        "parser, the subcommand parser or both, parse and dump through the top parser. "
        "Since round 5 the link grammar of the model includes a whole class-typed argument as target (add_link no longer "
        "answers EUnmodelled for it), so every theorem above covers such links too. "
        "Since round 6 the dump statements are also proved for the REPAIRED pair the current code is tied to (both repairs "
        "are in /repo; the judge uses build_fixed / strip_fixed): C15_fixed_target_absent_from_dump (no target key of any "
        "accepted link in strip_fixed p cfg, any configuration), C15_fixed_dump_changes_only_targets (every key that overlaps "
        "no target is dumped unchanged), C15_fixed_tree_targets_absent_from_dump (the same through the TOP parser of a tree, "
        "including the items of a list of classes below the subcommand's key) and C15_fixed_tree_link_invariant (the tree "
        "invariant without the overlap guard). "
        "Examples show each hypothesis satisfiable by a non-trivial parser/input."),
    "level_note": (
        "The theorems are about the hand-written Gallina model, which is written in the shape of _link_arguments.py (bugs "
        "included) and tied to the real code by the correspondence only: every generated case runs the real parser and Coq "
        "checks that the model reproduces which link_arguments calls raise, required_args, the pre-link configuration, the "
        "parse result, the dump and the re-parse (plain-argument parsers: whole pipeline defaults->env->argv/--cfg/"
        "parse_object->links->validate; parsers with class-typed arguments: from the observed pre-link configuration on, "
        "class-value normalisation being C14's subject), and independently that the observation satisfies Spec/C15Spec.v. "
        "Only exercised, not proved: that dump->parse preserves the SOURCE values (C01's subject), type adaptation (identity "
        "on the tie's value space), env/argv text rendering, the collection phase of parser trees (the configuration the "
        "top-level apply_parsing_links receives is an observed input), apply_on='instantiate' (C16), whole list-of-classes targets, "
        "subcommands nested deeper than one level, compute functions with side effects, dump(skip_default=True) and "
        "dump(skip_link_targets=False). The automatic Namespace->dict conversion of apply_parsing_links (by the target's type "
        "hint, by the compute function's parameter annotation) is the identity on the model's value type: it is tied through "
        "the Dict[str,int] type check (TDictInt) and the function dsum(d: dict), not proved. 'The target is not required from "
        "the user' for a REQUIRED __init__ parameter (class-parser code in _signatures/_typehints) is judged by the spec only: "
        "an input rejected before the link phase is parsed again with the linked init_args given. Trusted: Coq kernel/vm_compute, the "
        "runner tie/impl/c15_links.py (hooks apply_parsing_links in the harness process to read the pre-link configuration), "
        "the Python/Gallina twins of the 11 tie compute functions."),
    "technique": (
        "Rocq proof: frame lemmas for get/set/pop over an ordered nested map, invariant preserved by induction over the "
        "link_arguments calls (well-formedness, no equal-key chains, marks, required set) and over the applied link list "
        "(links_commute), kernel-evaluated counterexample witnesses; correspondence (seeded generated parsers x inputs, "
        "model agreement and spec agreement evaluated inside Coq by vm_compute)"),
}


def search(rng, tier, broken):
    """failing-input search after a broken proof / tie: ONE fresh quick-sized batch (bounded: about the cost of a quick
    run), judged like the main batch; returns the first case that contradicts the spec outside the listed findings"""
    import sys

    mod = sys.modules[__name__]
    cases = generate(rng, "quick")
    obs = observe(cases)
    bm, bi, bo = framework.judge_cases(mod, cases, obs, tag="x")
    known = framework.load_known_findings(PROP)
    bad = sorted(set(bi) | {i for i, k in bo if FINDING_CLASSES.get(k) not in known})
    if not bad:
        return None
    i = bad[0]
    return {"case": cases[i], "observed": obs[i], "explain": describe(cases[i], obs[i])}

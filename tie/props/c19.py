"""C19 — path types accept exactly what the mode says; relative paths follow the config.

Two kinds of cases, one judge (coq/Corr/C19Judge.v):
  mode : Path(given, mode) on a fixture of path kinds, as the invoking user and as uid nobody, next to an
         independent os.stat/os.access probe; Coq evaluates Model.path_check / Spec.sat on the probed facts.
  cwd  : a tree of real config files (nested <= 3 deep, in different directories, referencing each other and
         paths relatively/absolutely, with missing files, malformed files and broken values as failure points)
         loaded through parse_args(--cfg) / parse_path / default_config_files / --mid=<file>; Coq evaluates
         Model.run_top (the change_to_path_dir bracket) and Spec.spec_top.
"""
import itertools
import os
import re

from tie import c19_translate
from tie.framework import g_bool, g_list, g_nat, g_opt, g_str, run_impl_parallel

PROP = "C19"
IMPORTS = ("From JV Require Import Lib.Base Model.C19PathMode Model.C19Cwd Spec.C19Spec Spec.C19CwdSpec "
           "Spec.C19Guard Corr.C19Judge.")
RULE = ("mode cases: every valid local mode of <=4 flags (thorough: all 2304 valid flag multisets, in a seeded flag "
        "order) x 49 path kinds (quick: a seeded 20 of them per mode; regular/dir/fifo with permission variants, symlinks, "
        "dangling symlink, missing with/without parent, below a regular file, below an unsearchable directory, read-only / "
        "write-only / search-only parent, /dev/null, /, ~, ~/x, ., .., '', '-', trailing slash, a/../b, a NUL character in "
        "the spelling) x {absolute, relative, ./relative} x 3 working directories, "
        "run as uid nobody (permission bits effective) and a seeded quarter (thorough: half) also as the invoking user; the call is "
        "Path(p, mode=m) (35%), the registered type path_type(m)(p) (35%), or a Path made from a Path - Path(Path(p, ''), m) / "
        "path_type(m)(Path(p, '')) with the outer call made after the process moved to another directory (30%); .cwd is "
        "observed next to .relative/.absolute; plus every "
        "string of <=2 characters over the flag alphabet + 2 foreign characters and seeded longer strings as "
        "(mostly invalid) modes, and 7 modes that are not strings (None, int, list, tuple, bytes, set, dict). cwd cases: "
        "half of the --cfg / default_config_files / get_defaults cases load 2-3 config files ONE AFTER THE OTHER (in "
        "different directories, overlapping keys; default files may be missing, blank or undecodable); arguments: a "
        "dataclass group with a nested dataclass, Optional[path], Optional[List[path]] and Optional[Dict[str, path]] with "
        "enable_path (value inline, as a line-per-path list file, as a sub-config file holding a sequence resp. a mapping), "
        "and a nargs='+' path argument; seeded config trees (nested files in 7 directories + 5 symbolic links to "
        "directories at other depths, relative/absolute/detour spellings, a quarter of them through a link, some with "
        "'..' after a link, ~30% of the config and list files referred to through a symbolic link to the file lying in "
        "another directory, sub-config files whose content is a JSON/YAML SEQUENCE of paths (List[path] with enable_path), list files loadable and not loadable as YAML, missing/malformed files and broken values as failure "
        "points) through parse_args(--cfg), parse_path, default_config_files, get_defaults, --mid <file>, --mid=<file>. Distinct = distinct (flag set, c-count, probed fact "
        "record, outcome) resp. distinct (entry point, tree, outcome); non-trivial = at least one flag resp. at "
        "least one nested file or path value.")
TRUSTED = [
    "Coq 8.16.1 kernel + vm_compute",
    "tie/c19_translate.py (Path._check_mode AST -> Gen/C19PathFlags.v, fail-closed; differentially validated by the "
    "mode-string cases of every run)",
    "tie/impl/c19_modes.py, tie/impl/c19_cwd.py (fixtures, the os.stat/os.access probe, observation of the real "
    "Path / ArgumentParser) and the Gallina printer in tie/props/c19.py",
    "hand-written models coq/Model/C19PathMode.v and coq/Model/C19Cwd.v, tied by per-case agreement evaluated inside Coq",
    "os.path (join, expanduser, realpath, dirname), os.stat, os.access, os.chdir/getcwd of CPython 3.12 / Linux",
]
ASSUMPTIONS = [
    "local paths only: URL (u) and fsspec (s) resolution is outside the statement",
    "the fact record of a path is what os.stat/os.access answer at the time of the call (no concurrent change)",
    "the parent of a path is the physical parent dirname(realpath(path))",
    "config-tree fixtures contain symbolic links to DIRECTORIES only (relative/absolute targets, a link reached through a "
    "link) and to config / list FILES lying in another directory than the link (relative, absolute and through-a-directory-"
    "link targets, dangling when the file is missing; same-named data files next to the target are decoys); the table "
    "link -> realpath is measured by the runner; data files (path values) themselves are not symlinks; every "
    "directory component named before a '..' exists (the kernel would answer ENOENT otherwise, the model pops)",
    "os.chdir(d) fails exactly when d is not one of the fixture's physical directories (all are accessible to the "
    "observing user); no handler of jsonargparse catches the resulting OSError",
    "'~name' spellings and file:// prefixes are not generated",
    "several config files one after the other: 'a later file overrides an earlier one key by key, a list / dict value as a "
    "whole' (what merge_config does) is taken as the reference for WHICH values survive; C19 judges where each surviving "
    "value was resolved. default_config_files are literal names (no wildcards; glob's ordering of matches is not "
    "exercised); a missing default config file is a name that does not exist at all (a DANGLING symbolic link is kept by "
    "glob, Path(v, 'fr') then raises inside `with suppress(TypeError)` and _get_default_config_files silently returns NO "
    "default config file at all - not generated, not modelled)",
    "no other thread changes the process working directory during a load",
    "list files (List[path] given as a file) have >= 2 lines and their folded content is not itself an existing path; "
    "a list file is not loadable as YAML exactly when its first line starts with '@' (the only such lines generated)",
]
EXHAUSTIVE = {"quick": False, "thorough": False}
FINDING_CLASSES = {1: "not-file-missing", 2: "fc-fifo", 3: "cc-through-file", 4: "list-file-relative", 5: "chdir-lexical-dotdot"}

# Repairs that have landed in /repo. The models are written once with the patched lines of fixes/C19-<key>.patch
# selected by a `fixes` record (coq/Model/C19PathMode.v); a landed repair switches the model to the patched lines and
# removes the finding class from the guard (C19_mode_exact_any_repairs / C19_relative_follows_config_repaired), so a
# recurrence of the defect is then a VIOLATION inside the guard. Source of truth: a line
#     fixed: property=C19 <commit> key=<key> ...
# in known_findings/C19.txt (i.e. the lead only turns `open:` into `fixed:` there). FIXED_OVERRIDE, if not None,
# is the set of landed keys instead; so is the environment variable C19_FIXED (comma separated), for trial runs.
FIXED_OVERRIDE = None
_FX_FIELD = {"not-file-missing": "fx_F", "fc-fifo": "fx_fifo", "cc-through-file": "fx_cc", "list-file-relative": "fx_lf",
             "chdir-lexical-dotdot": "fx_rp"}


def fixed_keys():
    if os.environ.get("C19_FIXED") is not None:  # testing aid: C19_FIXED=key,key (or empty) with VERIF_REPO=<patched tree>
        return {k for k in os.environ["C19_FIXED"].split(",") if k}
    if FIXED_OVERRIDE is not None:
        return set(FIXED_OVERRIDE)
    keys = set()
    path = os.path.join(os.path.dirname(os.path.dirname(os.path.dirname(os.path.abspath(__file__)))), "known_findings", "C19.txt")
    if os.path.exists(path):
        for line in open(path):
            m = re.match(r"fixed:\s+property=C19\b.*?\bkey=(\S+)", line.strip())
            if m and m.group(1) in _FX_FIELD:
                keys.add(m.group(1))
    return keys


JUDGE = "judge_fx {| %s |}" % "; ".join("%s := %s" % (f, g_bool(k in fixed_keys())) for k, f in _FX_FIELD.items())

CAN_DROP = os.getuid() == 0

FLAGS = "fdrwxcFDRWX"
KINDS = [
    "file", "file_rw", "file_x", "file_none", "file_wo", "file_xo", "dir", "dir_rwx", "dir_none", "dir_wx", "dir_r",
    "fifo", "fifo_ro", "link_file", "link_dir", "link_fifo", "dangling", "link_ro", "missing", "missing_noparent",
    "missing_deep", "through_file", "through_file_deep", "through_fifo", "in_ro", "missing_in_ro", "missing_deep_ro",
    "in_dir_none", "missing_in_dir_none", "missing_below_dir_none", "dir_slash", "file_slash", "via_dotdot",
    "missing_slash",
    "missing_in_dir_wo", "missing_in_dir_xo", "nul", "nul_dir",
    "devnull", "root", "home", "home_slash", "home_file", "home_missing", "home_deep", "dot", "dotdot", "empty", "dash",
]


def translate():
    return c19_translate.translate()


# ------------------------------------------------------------------------------------------------------
# generation
# ------------------------------------------------------------------------------------------------------
def valid_flag_multisets(max_flags):
    """all valid local modes as sorted flag tuples ('c' may occur twice), without f&d together"""
    out = []
    letters = [c for c in FLAGS if c != "c"]
    for n in range(0, len(letters) + 1):
        for sub in itertools.combinations(letters, n):
            if "f" in sub and "d" in sub:
                continue
            for nc in (0, 1, 2):
                if n + nc <= max_flags:
                    out.append("".join(sub) + "c" * nc)
    return out


VIAS = ["path"] * 7 + ["type"] * 7 + ["repath"] * 4 + ["retype"] * 2
MODE_OBJS = ["none", "int", "list", "tuple", "bytes", "set", "dict"]


def gen_mode_cases(rng, tier):
    cases = []
    modes = valid_flag_multisets(4 if tier == "quick" else 12)
    for m in modes:
        # quick: a seeded 20 of the 49 path kinds per mode (every kind still meets ~240 modes per run); thorough: all
        for k in (sorted(rng.sample(KINDS, 20), key=KINDS.index) if tier == "quick" else KINDS):
            l = list(m)
            rng.shuffle(l)  # the code must not depend on the order of the flags
            base = {"k": "mode", "mode": "".join(l), "kind": k,
                    "spell": rng.choice(["abs", "rel", "dotrel"]), "cwd": rng.choice(["w", "wd", "ro"]),
                    # Path(given, mode) | the registered path type path_type(mode)(given) | a Path made from a Path
                    # (Path(Path(given, ""), mode) resp. path_type(mode)(Path(given, "")), the outer one built after the
                    # process moved to another directory)
                    "via": rng.choice(VIAS)}
            if k.startswith("nul"):
                base["via"] = rng.choice(["path", "type"])
            if CAN_DROP:
                cases.append(dict(base, uid="nobody"))
                if rng.random() < (0.5 if tier == "thorough" else 0.25):
                    cases.append(dict(base, uid="root"))
            else:
                cases.append(dict(base, uid="root"))
    # mode strings, valid or not: differential validation of the translated _check_mode tables
    alpha = "fdrwxcusFDRWX" + "aZ"
    strings = [""] + list(alpha) + [a + b for a in alpha for b in alpha]
    strings += ["ccc", "fcc", "cfc", "ccf", "cccc", "fdr", "dfc", "udr", "dsr", "frr", "fFdD", "rwxrwx", "fr ", "f,r",
                "Fcc", "ccRWX", "dcc", "fcu", "fsr", "us"]
    for _ in range(150 if tier == "quick" else 2000):
        n = rng.randint(3, 7)
        strings.append("".join(rng.choice(alpha if rng.random() < 0.3 else "fdrwxcusFDRWX") for _ in range(n)))
    for s in strings:
        # u/s modes are outside the statement for real paths: with "-" only the mode language is exercised
        kind = "dash" if ("u" in s or "s" in s) else rng.choice(["file", "dir", "missing", "fifo"])
        cases.append({"k": "mode", "mode": s, "kind": kind, "spell": "rel", "cwd": "w", "uid": "root",
                      "via": rng.choice(VIAS)})
    # modes that are not strings at all (first statement of _check_mode)
    for o in MODE_OBJS:
        for via in ("path", "type"):
            cases.append({"k": "mode", "mode": "", "mode_obj": o, "kind": rng.choice(["file", "dir", "missing"]),
                          "spell": "rel", "cwd": "w", "uid": "root", "via": via})
    return cases


# config trees --------------------------------------------------------------------------------------------
DIRS = ["run", "a", "b", "b/sub", "x", "x/y", "deep/er/est"]
# symbolic links to directories: relative and absolute targets, a link reached through another link; the alias table
# says under which other spelling a physical directory can be reached
# (the links lie at another depth than what they point to, so that "<link>/.." and "<link>/../.." differ between the
# kernel's and the lexical reading)
LINKS = [["lnk", "b"], ["ly", "x/y"], ["a/la", "/B/deep/er/est"], ["run/l2", "../lnk/sub"], ["deep/lx", "../x"]]
ALIASES = {"b": "lnk", "x/y": "ly", "deep/er/est": "a/la", "b/sub": "run/l2", "x": "deep/lx"}


def alias(rng, target, p=0.25):
    """spell fixture-relative `target` through a symbolic link to one of its ancestor directories (sometimes)"""
    if rng.random() >= p:
        return target
    cands = [d for d in ALIASES if target.startswith(d + "/") or target == d]
    if not cands:
        return target
    d = rng.choice(cands)
    return ALIASES[d] + target[len(d):]


def rel_spelling(rng, target, from_dir):
    """a spelling of fixture-relative `target` as seen from the (physical) fixture-relative directory `from_dir`"""
    how = rng.random()
    via = alias(rng, target)
    if how < 0.15:
        return "/B/" + via
    r = os.path.relpath("/B/" + via, "/B/" + from_dir)
    if how < 0.3:
        return "./" + r
    if how < 0.4 and "/" in target:  # a detour through another directory
        other = rng.choice(DIRS)
        # ... which may itself be spelled through a symbolic link: "<link>/.." then leaves the PHYSICAL parent
        # (for the kernel), not the directory the link lies in (os.path.abspath)
        return (os.path.relpath("/B/" + alias(rng, other, 0.5), "/B/" + from_dir) + "/"
                + os.path.relpath("/B/" + target, "/B/" + other))
    return r


def gen_cwd_case(rng, tier):
    files = ["x/file.txt", "x/y/other.txt", "b/data.txt", "a/data.txt", "b/sub/data.txt", "run/data.txt",
             "deep/er/est/data.txt", "data.txt"]
    # a first line "@at.txt" makes the list file unloadable as YAML ('@' cannot start a token): _check_type then takes
    # its other route (config_path None, the list is read by adapt_typehints from the directory of the referrer)
    at_dirs = ["x", "b", "run", "x/y"]
    pfail = rng.choice([0.0, 0.0, 0.05, 0.15])
    counter = [0]

    file_links = []

    def fresh(d, stem, ext):
        counter[0] += 1
        return "%s/%s%d.%s" % (d, stem, counter[0], ext)

    def place(d, stem, ext):
        """a new file in directory d -> (physical path, path it is referred by, directory of that path). Sometimes the
        file is referred to through a symbolic link TO THE FILE lying in another directory: what is written in it is
        then relative to the link's directory (same-named data files next to the target are the decoys)."""
        at = fresh(d, stem, ext)
        if rng.random() < 0.3:
            ld = rng.choice([x for x in DIRS if x != d])
            ref = fresh(ld, stem + "L", ext)
            how = rng.random()
            target = ("/B/" + at if how < 0.3 else
                      os.path.relpath("/B/" + (alias(rng, at, 0.5) if how < 0.6 else at), "/B/" + ld))
            file_links.append([ref, target])
            return at, ref, ld
        return at, at, d

    def path_node(key, here):
        if rng.random() < pfail:
            if rng.random() < 0.3:
                return {"t": "bad", "key": key, "value": [1, 2]}
            # a data file that exists only relative to some OTHER directory (e.g. the process cwd)
            wrong = rng.choice([d for d in DIRS if d != here])
            cands = [f for f in files if os.path.dirname(f) == wrong] or ["nope.txt"]
            return {"t": "path", "key": key,
                    "given": os.path.basename(rng.choice(cands)) if rng.random() < 0.7 else "missing.txt"}
        return {"t": "path", "key": key, "given": rel_spelling(rng, rng.choice(files), here)}

    def list_node(key, here, allow_file):
        n = rng.randint(1, 3)
        if allow_file and rng.random() < 0.3:
            # a sub-config file whose content is a JSON/YAML SEQUENCE of paths (not a mapping, not a line-per-path list
            # file): parse_value_or_config loads it, and the items are adapted inside the directory of that file
            at, ref, d = place(rng.choice(DIRS), "seq", rng.choice(["yaml", "json"]))
            items = [path_node(key, d) for _ in range(n)]
            items = [i["given"] for i in items if i["t"] == "path"] or ["missing.txt"]
            missing = rng.random() < pfail
            return {"t": "seqfile", "key": key, "given": rel_spelling(rng, ref, here), "at": None if missing else at,
                    "items": items, "flow": rng.random() < 0.5}
        if allow_file and rng.random() < 0.6:
            # a list file: >= 2 lines (a single line is read back by YAML as a plain path, another code path);
            # half of them spelled absolutely or placed next to the referring file (inside the guard of
            # C19_relative_follows_config), the rest relatively (finding class list-file-relative)
            not_yaml = rng.random() < 0.3
            d = rng.choice(at_dirs) if not_yaml else (here if rng.random() < 0.3 else rng.choice(DIRS))
            if not_yaml:
                at = ref = fresh(d, "list", "txt")
            else:
                at, ref, d = place(d, "list", "txt")
            items = [path_node(key, d) for _ in range(n + 1)]
            items = [i["given"] for i in items if i["t"] == "path"]
            items = (items + ["missing.txt", "missing2.txt"])[:max(2, len(items))]
            if not_yaml:
                items = ["@at.txt"] + items[:2]
            missing = rng.random() < pfail
            given = "/B/" + ref if rng.random() < 0.4 else rel_spelling(rng, ref, here)
            return {"t": "listfile", "key": key, "given": given, "at": None if missing else at, "items": items}
        items = [path_node(key, here) for _ in range(n)]
        return {"t": "inlist", "key": key, "items": [i["given"] for i in items if i["t"] == "path"] or ["missing.txt"]}

    def leaf_body(here):
        body = []
        if rng.random() < 0.8:
            body.append(path_node("p", here))
        if rng.random() < 0.5:
            body.append(list_node("lst", here, False))
        rng.shuffle(body)
        return body

    def nested(key, here, make_body):
        if rng.random() < 0.7:
            at, ref, d = place(rng.choice(DIRS), key, rng.choice(["yaml", "json"]))
            node = {"t": "load", "key": key, "given": rel_spelling(rng, ref, here), "at": at, "body": make_body(d),
                    "wellformed": rng.random() >= pfail / 2}
            if rng.random() < pfail:
                node["at"] = None
            return node
        return {"t": "inline", "key": key, "body": make_body(here)}

    def mid_body(here):
        body = []
        if rng.random() < 0.7:
            body.append(path_node("p", here))
        if rng.random() < 0.8:
            body.append(nested("leaf", here, leaf_body))
        rng.shuffle(body)
        return body

    def dct_node(here):
        """--dct: Optional[Dict[str, Path_fr]] with enable_path: inline mapping, or a sub-config FILE holding a mapping
        (the loader then leaves a __path__ meta in the value: _check_type's path_meta branch)"""
        n = rng.randint(1, 3)
        if rng.random() < 0.5:
            at, ref, d = place(rng.choice(DIRS), "dct", rng.choice(["yaml", "json"]))
            items = [path_node("dct", d) for _ in range(n)]
            items = [i["given"] for i in items if i["t"] == "path"] or ["missing.txt"]
            missing = rng.random() < pfail
            return {"t": "dctfile", "key": "dct", "given": rel_spelling(rng, ref, here), "at": None if missing else at,
                    "items": items}
        items = [path_node("dct", here) for _ in range(n)]
        return {"t": "dctinline", "key": "dct", "items": [i["given"] for i in items if i["t"] == "path"] or ["missing.txt"]}

    def many_node(here):
        """--many: nargs='+' of Path_fr: _check_type runs its loop once per element"""
        if rng.random() < pfail:
            return {"t": "bad", "key": "many", "value": {"a": "data.txt"}}   # a mapping where a list is expected
        items = [path_node("many", here) for _ in range(rng.randint(1, 3))]
        return {"t": "many", "key": "many", "items": [i["given"] for i in items if i["t"] == "path"] or ["missing.txt"]}

    def top_body(here):
        body = []
        if rng.random() < 0.6:
            body.append(path_node("p", here))
        if rng.random() < 0.5:
            body.append(list_node("lst", here, True))
        if rng.random() < 0.85:
            body.append(nested("mid", here, mid_body))
        if rng.random() < 0.3:
            body.append(dct_node(here))
        if rng.random() < 0.25:
            body.append(many_node(here))
        rng.shuffle(body)
        return body

    entry = rng.choice(["args", "args", "path", "default", "defaults_only", "argmid", "argmid_eq"])
    start = rng.choice(DIRS)
    common = {"k": "cwd", "entry": entry, "start": start, "dirs": DIRS, "files": files + [d + "/@at.txt" for d in at_dirs],
              "links": LINKS, "file_links": file_links}
    if entry in ("args", "default", "defaults_only") and rng.random() < 0.5:
        # SEVERAL config files one after the other: --cfg f1 --cfg f2 [--cfg f3] resp. default_config_files = [f1, f2, f3],
        # in different directories, with overlapping keys (a later file overrides an earlier one key by key; what it does
        # not mention stays resolved against the EARLIER file's directory). Default config files may also be missing
        # (skipped by glob), blank (skipped) or undecodable (the load fails before any directory is entered).
        tops = []
        for _ in range(rng.choice([2, 2, 3])):
            kind, r = "normal", rng.random()
            if entry != "args":
                kind = "normal" if r < 0.72 else ("empty" if r < 0.83 else ("missing" if r < 0.95 else "binary"))
            if kind == "missing":
                d = rng.choice(DIRS)
                at = ref = fresh(d, "top", "yaml")
            else:
                at, ref, d = place(rng.choice(DIRS), "top", "yaml")
            tops.append({"given": rel_spelling(rng, ref, start), "at": None if kind == "missing" else at, "kind": kind,
                         "tree": top_body(d) if kind == "normal" else []})
        if entry == "args" and rng.random() < pfail / 2:
            tops[rng.randrange(len(tops))]["at"] = None
        return dict(common, tops=tops)
    at, ref, topdir = place(rng.choice(DIRS), "top", "yaml")
    tree = mid_body(topdir) if entry.startswith("argmid") else top_body(topdir)
    top = {"given": rel_spelling(rng, ref, start), "at": at, "wellformed": True}
    if entry not in ("default", "defaults_only") and rng.random() < pfail / 2:
        top["at"] = None
    return dict(common, top=top, tree=tree)


def generate(rng, tier):
    cases = gen_mode_cases(rng, tier)
    for _ in range(400 if tier == "quick" else 4000):
        cases.append(gen_cwd_case(rng, tier))
    return cases


# ------------------------------------------------------------------------------------------------------
# observation
# ------------------------------------------------------------------------------------------------------
def observe(cases):
    out = [None] * len(cases)
    for kind, script in (("mode", "c19_modes.py"), ("cwd", "c19_cwd.py")):
        idx = [i for i, c in enumerate(cases) if c["k"] == kind]
        if not idx:
            continue
        n = min(16, max(1, len(idx) // 50))
        chunks = [idx[j::n] for j in range(n)]
        res = run_impl_parallel(script, [{"cases": [cases[i] for i in ch]} for ch in chunks])
        for ch, r in zip(chunks, res):
            for i, o in zip(ch, r):
                out[i] = o
    return out


# ------------------------------------------------------------------------------------------------------
# Gallina
# ------------------------------------------------------------------------------------------------------
KIND_G = {"reg": "KReg", "dir": "KDir", "fifo": "KFifo", "other": "KOther"}


def g_facts(f):
    return ("{| exists_ := %s; kd := %s; ar := %s; aw := %s; ax := %s; par_dir := %s; anc_dir := %s; dir_w := %s |}"
            % (g_bool(f["exists"]), KIND_G[f["kind"]], g_bool(f["r"]), g_bool(f["w"]), g_bool(f["x"]),
               g_bool(f["par_dir"]), g_bool(f["anc_dir"]), g_bool(f["dir_w"])))


def key_ids(case):
    """dotted key of every path value of the tree, in traversal order -> id; and the Gallina body"""
    ids = {}
    units = {}
    seq = "tops" in case

    def fresh(key):
        if not seq:
            ids[key] = len(ids) + 1
            return ids[key]
        # several files: the same key denotes the same value in every file; id = 8 * (number of the key) + position
        # inside a list / dict value (Model.C19Cwd.merge_items: id / 8 is what a later file overrides)
        m = re.match(r"^(.*)\[(\d+)\]$", key)
        unit, idx = (m.group(1), int(m.group(2))) if m else (key, 0)
        assert idx < 8
        u = units.setdefault(unit, len(units) + 1)
        ids[key] = 8 * u + idx
        return ids[key]

    def nodes(ns, prefix):
        out = []
        for n in ns:
            t, key = n["t"], prefix + n["key"]
            if t == "path":
                out.append("NPath %s %s" % (g_nat(fresh(key)), g_str(n["given"])))
            elif t == "bad":
                out.append("NBad")
            elif t == "inline":
                out.append("NInline %s" % nodes(n["body"], key + "."))
            elif t == "inlist":
                items = ["NPath %s %s" % (g_nat(fresh("%s[%d]" % (key, i))), g_str(g)) for i, g in enumerate(n["items"])]
                out.append("NInline %s" % g_list(items, "node"))
            elif t == "load":
                body = nodes(n["body"], key + ".")
                if not n.get("wellformed", True):
                    body = g_list(["NBad"], "node")
                out.append("NLoad %s %s" % (g_str(n["given"]), body))
            elif t == "many":
                # nargs='+': one turn of _check_type's loop per element, each inside change_to_path_dir(None)
                for i, g in enumerate(n["items"]):
                    out.append("NPath %s %s" % (g_nat(fresh("%s[%d]" % (key, i))), g_str(g)))
            elif t == "dctinline":
                items = ["NPath %s %s" % (g_nat(fresh("%s[%d]" % (key, i))), g_str(g)) for i, g in enumerate(n["items"])]
                out.append("NInline %s" % g_list(items, "node"))
            elif t in ("seqfile", "dctfile"):
                # same shape as a nested config file: the file is entered, every item is adapted there
                items = ["(NPath %s %s)" % (g_nat(fresh("%s[%d]" % (key, i))), g_str(g)) for i, g in enumerate(n["items"])]
                out.append("NLoad %s %s" % (g_str(n["given"]), g_list(items, "node")))
            elif t == "listfile":
                items = ["NPath %s %s" % (g_nat(fresh("%s[%d]" % (key, i))), g_str(g)) for i, g in enumerate(n["items"])]
                # the content of the list file is loadable as YAML (one folded plain scalar) unless its first line
                # starts with a character that cannot start a YAML token
                yaml_ok = not n["items"][0].startswith("@")
                out.append("NListFile %s %s %s" % (g_bool(yaml_ok), g_str(n["given"]), g_list(items, "node")))
        return g_list(["(%s)" % x for x in out], "node")

    if seq:
        return ids, [nodes(t["tree"], "") for t in case["tops"]]
    body = nodes(case["tree"], "mid." if case["entry"].startswith("argmid") else "")
    return ids, body


def term(case, obs):
    if case["k"] == "mode":
        o = obs["obs"]
        if "ok" in o:
            go = "(MAccept %s %s %s)" % (g_str(o["ok"][0]), g_str(o["ok"][1]), g_str(o["ok"][2]))
        else:
            go = {"path": "MPathErr", "value": "MValErr", "os": "MOsErr"}.get(o["err"], "MOther")
        if "mode_obj" in case:
            return "CModeNonStr %s" % go
        return "CMode %s %s %s %s %s %s" % (g_str(case["mode"]), g_facts(obs["facts"]), g_str(obs["home"]),
                                            g_str(obs["cwd"]), g_str(obs["given"]), go)
    ids, body = key_ids(case)
    if "ok" in obs:
        items = obs["ok"]
        if all(k in ids for k in items):
            rows = sorted((ids[k], v) for k, v in items.items())
            go = "(COk %s)" % g_list(["(%s, %s, %s, %s)" % (g_nat(i), g_str(v[0]), g_str(v[1]), g_str(v[2])) for i, v in rows],
                                     "item")
        else:
            go = "COther"
    elif "fail" in obs:
        go = "CFail"
    elif "oserr" in obs:
        go = "COsErr"
    else:
        go = "COther"
    if "tops" in case:
        tops = []
        for t, b in zip(case["tops"], body):
            content = {"normal": "(DBody %s)" % b, "empty": "DEmpty", "binary": "DUnreadable", "missing": "(DBody [])"}[t["kind"]]
            tops.append("(%s, %s)" % (g_str(t["given"]), content))
        return "CSeq %s %s %s %s %s %s %s %s %s" % (
            g_bool(case["entry"] != "args"),
            g_list([g_str(f) for f in obs["files"]], "str"), g_list([g_str(f) for f in obs.get("dirs", [])], "str"),
            g_list(["(%s, %s)" % (g_str(a), g_str(b)) for a, b in obs.get("links", [])], "(str * str)"), g_str(obs["cwd_before"]),
            g_list(tops, "(str * dcontent)"),
            g_str(obs["cwd_after"]), g_opt(g_str(obs["cpd_after"]) if obs["cpd_after"] is not None else None), go)
    return "CCwd %s %s %s %s %s %s %s %s %s" % (
        g_list([g_str(f) for f in obs["files"]], "str"), g_list([g_str(f) for f in obs.get("dirs", [])], "str"),
        g_list(["(%s, %s)" % (g_str(a), g_str(b)) for a, b in obs.get("links", [])], "(str * str)"), g_str(obs["cwd_before"]), g_str(case["top"]["given"]), body,
        g_str(obs["cwd_after"]), g_opt(g_str(obs["cpd_after"]) if obs["cpd_after"] is not None else None), go)


# ------------------------------------------------------------------------------------------------------
# evidence helpers
# ------------------------------------------------------------------------------------------------------
def _outcome(obs):
    if "obs" in obs:
        o = obs["obs"]
        return "accept" if "ok" in o else o["err"]
    return "ok" if "ok" in obs else ("fail" if "fail" in obs else ("oserr" if "oserr" in obs else "other"))


def _depth(ns):
    d = 0
    for n in ns:
        if n["t"] in ("load", "inline"):
            d = max(d, (1 if n["t"] == "load" else 0) + _depth(n["body"]))
        elif n["t"] in ("listfile", "seqfile", "dctfile"):
            d = max(d, 1)
    return d


def _trees(case):
    return [t["tree"] for t in case["tops"]] if "tops" in case else [case["tree"]]


def nontrivial_key(case, obs):
    if case["k"] == "mode":
        if "mode_obj" in case:
            return repr(("mo", case["mode_obj"], case.get("via"), _outcome(obs)))
        if not case["mode"]:
            return None
        f = obs["facts"]
        return repr(("m", "".join(sorted(case["mode"])), tuple(sorted(f.items())), case["kind"] == "dash", _outcome(obs)))
    if not any(_trees(case)):
        return None
    return repr(("c", case["entry"], case["start"], case.get("top"), case.get("tree"), case.get("tops"), _outcome(obs)))


def category(case, obs):
    if case["k"] == "mode":
        return "mode/%d flags/%s/%s" % (min(len(case["mode"]), 5), case["uid"], _outcome(obs))
    if "tops" in case:
        return "cwd/%s/%d files in sequence/nested %d deep/%s" % (
            case["entry"], len(case["tops"]), 1 + max(_depth(t) for t in _trees(case)), _outcome(obs))
    return "cwd/%s/files nested %d deep/%s" % (case["entry"], 1 + _depth(case["tree"]), _outcome(obs))


def describe(case, obs):
    if case["k"] == "mode":
        via, m = case.get("via"), case["mode"]
        if "mode_obj" in case:
            m = {"none": None, "int": 5, "list": ["f", "r"], "tuple": ("d",), "bytes": b"fr", "set": {"f"}, "dict": {"f": 1}}[case["mode_obj"]]
        call = {"type": "path_type(%r)(%r)" % (m, obs["given"]),
                "repath": "Path(Path(%r, mode=''), mode=%r)  # outer call from another directory" % (obs["given"], m),
                "retype": "path_type(%r)(Path(%r, mode=''))  # outer call from another directory" % (m, obs["given"]),
                }.get(via, "Path(%r, mode=%r)" % (obs["given"], m))
        return {"call": "%s  # cwd=%s uid=%s kind=%s" % (call, obs["cwd"], case["uid"], case["kind"]),
                "probed_facts": obs["facts"], "observed": obs["obs"]}
    if "tops" in case:
        return {"entry": case["entry"], "process_cwd": "/B/" + case["start"], "config_files_in_order": case["tops"],
                "symlinks_to_files": case.get("file_links", []),
                "observed": {k: v for k, v in obs.items() if k not in ("files", "dirs")}}
    return {"entry": case["entry"], "process_cwd": "/B/" + case["start"], "top": case["top"], "tree": case["tree"],
            "symlinks_to_files": case.get("file_links", []),
            "observed": {k: v for k, v in obs.items() if k not in ("files", "dirs")}}


def shrink(case):
    if case["k"] == "mode":
        m = case["mode"]
        if case.get("via") in ("repath", "retype"):
            yield dict(case, via="path" if case["via"] == "repath" else "type")
        for i in range(len(m)):
            yield dict(case, mode=m[:i] + m[i + 1:])
        if case["spell"] != "abs":
            yield dict(case, spell="abs")
        return

    def variants(ns):
        for i, n in enumerate(ns):
            yield ns[:i] + ns[i + 1:]
            if n["t"] in ("load", "inline"):
                for b in variants(n["body"]):
                    yield ns[:i] + [dict(n, body=b)] + ns[i + 1:]
            # a YAML-loadable list file keeps >= 2 lines (ASSUMPTIONS: a single line takes another code path)
            keep = 2 if n["t"] == "listfile" and not n["items"][0].startswith("@") else 1
            if n["t"] in ("inlist", "listfile", "seqfile", "dctfile", "dctinline", "many") and len(n["items"]) > keep:
                yield ns[:i] + [dict(n, items=n["items"][:keep])] + ns[i + 1:]

    if "tops" in case:
        tops = case["tops"]
        if len(tops) > 1:
            for i in range(len(tops)):
                yield dict(case, tops=tops[:i] + tops[i + 1:])
        for i, t in enumerate(tops):
            for b in variants(t["tree"]):
                yield dict(case, tops=tops[:i] + [dict(t, tree=b)] + tops[i + 1:])
        return
    for t in variants(case["tree"]):
        yield dict(case, tree=t)


def search(rng, tier, broken):
    """failing-input search after a broken proof/tie: ONE fresh quick-sized batch (bounded, ~60 s), judged by the same judge"""
    import sys

    from tie import framework

    mod = sys.modules[__name__]
    cases = generate(rng, "quick")
    obs = observe(cases)
    bm, bi, bo = framework.judge_cases(mod, cases, obs, tag="x")
    known = framework.load_known_findings(PROP)
    bad = sorted(set(bi) | {i for i, k in bo if FINDING_CLASSES.get(k) not in known})
    if not bad:
        return None
    i = bad[0]
    return {"case": cases[i], "observed": obs[i], "explain": describe(cases[i], obs[i])}


def extra_coverage(tier):
    cov = {"theorem_space": "C19_mode_exact(_any_repairs): all mode strings (2304 valid local flag records x 70 consistent "
                            "fact records x 8 combinations of repairs, evaluated completely by vm_compute); C19_cwd_restored / C19_relative_follows_config: all "
                            "config trees of any depth over all file sets, all tables of symbolic links and all answers of os.chdir "
                            "(structural induction); C19_cfg_sequence_* / C19_default_files_*: all sequences of such trees"}
    if not CAN_DROP:
        cov["unexplored"] = ("not started as root: cannot drop to uid nobody, so all permission-bit rows were run as the "
                             "invoking user only")
    return cov


META = {
    "level_text": "Theorems in coq/Properties/C19.v. C19_mode_exact: for EVERY mode string the code accepts (tables "
                  "regenerated from Path._check_mode; C19_mode_language_is_documented: these are exactly the documented "
                  "modes; C19_invalid_mode_rejected: every other string is answered with ValueError) and EVERY consistent "
                  "answer of the file system, Path's local check accepts iff every flag of the mode holds, and otherwise "
                  "fails with PathError - outside three narrow, listed finding classes (C19_*_refuted witnesses; "
                  "C19_findings_exact shows that nothing else hides there). The finite product (2304 valid local flag "
                  "records x 70 consistent fact records x 8 combinations of landed repairs) is evaluated completely by the "
                  "kernel; C19_mode_exact_any_repairs states the result for every combination of the proposed repairs "
                  "(fixes/C19-*.patch, modelled line by line) and C19_mode_exact_repaired is the full, unguarded statement "
                  "for the repaired Path. C19_relative_abs: relative is the spelling, absolute is absolute and is the "
                  "(user-expanded) spelling below cwd, for all strings. Config trees: the model threads (os.getcwd(), "
                  "current_path_dir) through change_to_path_dir for files nested to ANY depth (nested induction over "
                  "nested files, list files loadable/not loadable as YAML, inline sections, path values, broken values), "
                  "over ANY set of files, ANY table of symbolic links (kernel-style path resolution vs the lexical "
                  "os.path.abspath the code uses before chdir) and ANY answer of os.chdir. C19_cwd_restored / "
                  "C19_nested_value_restores: the state is restored on success and at every failure point provided every "
                  "directory the code enters can be entered (os.chdir sits before the try: - "
                  "C19_chdir_failure_leaks_refuted); C19_relative_follows_config: inside the guard each relative path "
                  "resolves against the (physical) directory of the file that mentions it and the state is restored, for "
                  "every combination of landed repairs; outside the guard are two listed classes (relative spelling of a "
                  "YAML-loadable list file - repaired; '..' after a symbolic link in the spelling of a config file - "
                  "C19_chdir_lexical_dotdot_refuted, open), and C19_relative_follows_config_repaired is the unguarded "
                  "statement for the repaired code. Round 6: SEQUENCES of config files of any length - --cfg f1 --cfg f2 ... "
                  "(run_cfgs) and get_defaults over several default_config_files (run_defaults: glob drops missing names, "
                  "all Path objects are built before the first load, blank files are skipped, undecodable ones fail before "
                  "any directory is entered): C19_cfg_sequence_follows_config / C19_default_files_follow_config (induction "
                  "over the sequence, the step being the single-file theorem, applicable because the state is restored): "
                  "every file is found from the working directory of the call, each relative path resolves against the "
                  "directory of the file that mentions it, later files override key by key, the state is restored; "
                  "C19_cfg_sequence_restores / C19_default_files_restore under the weaker enterability proviso; "
                  "..._repaired without any guard. C19_nul_rejected: a spelling with a NUL character is answered with "
                  "PathError for every valid mode. Models tied to the implementation by ~15k (thorough ~220k) real Path() / path_type() "
                  "calls per quick run (as uid nobody, so the permission bits count, next to an independent "
                  "os.stat/os.access probe) and real nested config files with symlinked directories loaded through six "
                  "entry points, every case judged inside Coq.",
    "level_note": "Only exercised by the correspondence, not proved: that the Gallina models follow the Python code (hand "
                  "written; mode tables are translated), os.path.join/expanduser/normpath/dirname and the kernel's symlink "
                  "resolution as re-implemented in Gallina, and the classification of a probed path into the 8-field fact record. Trusted: Coq kernel/VM; "
                  "the fixture, probe and Gallina printer; os.stat/os.access/os.chdir. Outside the statement: URL/fsspec "
                  "modes (u, s), '~user', file:// prefixes, path VALUES that are themselves symbolic links, concurrent chdir by other "
                  "threads, single-line list files, wildcard default_config_files, a dangling symbolic link among the default "
                  "config files. Which values survive a merge of several files is taken from merge_config (later wins per "
                  "key); where they were resolved is C19's. No axioms.",
    "technique": "Rocq: kernel-evaluated finite product (forallb ... = true by vm_compute, lifted with forallb_forall to all "
                 "mode strings and all combinations of repairs) + structural (nested) induction over config trees with a "
                 "bracket lemma for change_to_path_dir + induction over sequences of config files (restoration of the process state "
                 "as the invariant); fail-closed translator for the mode tables; correspondence on a "
                 "permission-aware file-system fixture judged inside Coq",
}

"""C02 — accepted values conform to the declared type; acceptance is compositional.
Real parser (one key `k` of a generated type hint; parse_object / parse_args) vs Model/Ty.v + Model/C02TyMut.v vs
Spec/Conforms.v; the verdict (model agreement, guard class, spec agreement) is computed inside Coq (Corr/C02Judge.v)."""
import decimal
import itertools
import json

from tie.framework import g_bool, g_list, g_opt, g_pair, g_str, g_Z, run_impl_parallel

PROP = "C02"
IMPORTS = ("From JV Require Import Lib.Base Model.TyVal Model.Scalar Model.Ty Model.C02Ext Model.TyLoader Spec.C02Group Corr.C02Judge.")
RULE = ("a case = (type hint, input, channel). Type hints: every hint of the grammar str|int|float|bool|None|Any|Literal|Enum|"
        "Union|List|Dict[str|int,.]|Tuple[..]|Tuple[.,...]|Set up to nesting depth 2 over a small leaf alphabet (quick: a seeded "
        "sample of them; thorough: all of depth <=1 and a larger sample) plus seeded random hints up to depth 4. Inputs per hint: "
        "conforming Python objects; the same with ONE position made wrong (wrong scalar kind, bool for int, wrong arity, unknown "
        "Literal/Enum member, wrong key kind, container for scalar and vice versa); the YAML/JSON text of both (command line "
        "`--k=text` or parse_object with the str); look-alike strings ('null', 'true', '1', '1e3', '0x_', '[1]', 'a: 1', '-', "
        "'', ...) at top level and as items. Side observations per case: the same input under every member of a top-level "
        "Union, every item under the item type (Python-object containers), and the same input under the hint with the members "
        "of one Union node (any depth) permuted — all permutations, capped at 6 (quick) / 30 (thorough) variants per case. "
        "Ext cases (Model/C02Ext.v): Unions of 2-3 members of which at least one is a registered/restricted type (PositiveFloat, "
        "PositiveInt, NonNegativeInt, ClosedUnitInterval, decimal.Decimal, the restricted strings Email and NotEmptyStr, a str-mixin "
        "Enum, a user-registered class whose deserializer raises RuntimeError / AttributeError / IndexError / LookupError / "
        "ValueError depending on the value; their adapt_typehints behaviour per value is recorded "
        "from the real run) with ints beyond the float range, non-numeric strings, numeric text, bools, lists ..., every member "
        "alone and every permutation; plain scalar / Optional / Union / Literal hints with every conforming declared default "
        "(0, 1, 2, 0.0, 1.0, 2.0, False, True, 'a', '1', 'null', 'true') x every scalar value incl. equal-but-other-kind ones "
        "(True vs 1 vs 1.0, 0 vs False) as typed objects and as text. "
        "restricted string types declared from compiled patterns with IGNORECASE / DOTALL / ASCII / MULTILINE flags (alone and in "
        "Unions) with texts on which the flag decides, the declared predicate evaluated by Python re in the harness; Unions of "
        "TypedDict classes (4 classes, pairs and triples in several orders, beside plain members) with values whose earlier field "
        "converts and later field fails, missing / extra keys, text. "
        "Kind cases (seed independent): List / Tuple[.,...] / Tuple[.,.] / Dict[str,.] / Dict[int,.] / List[List[.]] / Optional / "
        "List[Optional] over int, float, bool, str with one item of every scalar kind (alone and after a conforming item). "
        "History cases: the main parse preceded, in ONE fresh process forked by the runner, by parses (each on its own parser) "
        "under a hint easily confused with the main one (Literal[1, 0] / Literal[True, False] / Literal[0, 1]; Union[a, b] / "
        "Union[b, a]; Optional orders; Tuple[int, str] / Tuple[str, int] / Tuple[()] / List / Set; Dict[str,.] / Dict[int,.]; Enums and "
        "Literals of their member names), bare or wrapped in List / Dict / Optional, with texts of the group; the judge ignores the "
        "history. The empty tuple hint Tuple[()] is a leaf of the hint generator and a Union member. "
        "Set cases: Set[T] (also inside List/Dict/Optional/Tuple) for ten item types given ORDERED inputs (list, tuple, text) "
        "containing every ordered pair of == items of different kinds (1/True/1.0, 0/False/0.0, 2/2.0), alone and with company, "
        "plus conforming and random item sequences; every item stand-alone. "
        "Group cases: a parser with nested keys g.<field>, parse_object({'g': value}) for scalar / list / mapping values. "
        "Annotated cases: hints of the generators above with ONE sub-hint (any depth, the root included) wrapped in "
        "Annotated[., 'meta'] (no validator), values as for the plain hint; model and spec see the plain hint. "
        "Nested-option cases: parse_args(['--k.<key>=<text>']) on a key of type Dict[str|int, T] for 19 item types (scalars, "
        "Optional, Unions with str in both orders, Literal, Enum, Any, List, Dict, Tuple, Set) x str / int-like / non-int keys x 24 "
        "texts (Model/C02Ext.v parse_key_nested). TypedDict classes with NotRequired fields, total=False classes with Required "
        "fields (missing optional / required keys, alone and in Unions). Restricted number members: the declared comparisons "
        "(> 0, >= 0, 0 <= . <= 1) are evaluated in the harness on int inputs, decimal texts and on every accepted result. "
        "distinct = distinct (hint, input, channel); non-trivial = hint is not a bare leaf type or the input is text")
TRUSTED = [
    "Coq 8.16.1 kernel + vm_compute",
    "tie/impl/c02_run.py (builds the typing objects, runs the real parser, canonicalises the result: exact Python type at "
    "every level, sets sorted, floats as decimal repr, exception instances found inside a result as the opaque value 'exc') "
    "and the Gallina printer in tie/props/c02.py",
    "hand-written models coq/Model/Ty.v, coq/Model/C02TyMut.v, coq/Model/Scalar.v (plain YAML scalars, tables regenerated "
    "from the live loader), tied by per-case agreement evaluated inside Coq",
    "PyYAML for structured text: what yaml_load answers for a string that is not one plain scalar is observed and handed "
    "to the model as an oracle (for plain scalars the oracle is cross-checked against Model/Scalar.v)",
]
ASSUMPTIONS = [
    "one key, no prev_val/append, enable_path off, parser_mode yaml; a declared default only for scalar-like hints and assumed "
    "to conform to the hint",
    "registered/restricted members are opaque: what adapt_typehints(value, member) returns or that it raises is observed, and any "
    "exception counts as a member failure (as `except Exception` in the trial loop does); they occur only as direct Union members",
    "TypedDict members have fields of the modelled grammar, each required or NotRequired; their behaviour is observed, their "
    "conformance is judged from the declared fields (declared keys only, required keys present); the declared predicate of the "
    "flagged restricted string types is computed with Python's re, that of the restricted number types by the harness's own "
    "arithmetic (ints and plain decimal texts as inputs, the decimal repr of accepted results)",
    "Annotated[T, metadata] without a validator means T (model and spec are given T); pydantic-style validators, Type[...], "
    "Callable, dataclass and subclass hints are outside the modelled space",
    "the nested option --k.<key>=<text> is modelled for Dict-typed keys with no previous value (one option per parse)",
    "a command-line / config text counts as right-shaped when YAML reads it as a non-str value of the right shape (blank text and "
    "'-' excepted: the parser keeps them as text) and load_basic reads it as YAML does (Spec/C02Defs.v text_shaped, the premise "
    "of C02_text_of_right_shape_accepted); acceptance is a function of (hint, value): histories are not part of the model",
    "an int beyond the float range is not given to a modelled `float` member (Model/Ty.v's float(int) has no OverflowError branch)",
    "floats are compared as decimals (<= 15 significant digits); a resulting set is compared in the canonical order ints, strs, "
    "False, True, then at most one other item",
    "typing normalises hints (flattens nested Unions, deduplicates members): generated hints are already normal, the runner "
    "fails closed if typing changed one",
    "an Enum instance of the declared class is one of its members; Enum member names are identifiers",
]
EXHAUSTIVE = {"quick": False, "thorough": False}
# classes 1, 2, 4, 5, 7, 8 were the defects repaired in /repo by ec37b24, d000fe2, f7876f0, ce28ec8, 895597a, c374a1a:
# Spec/C02Guard.v no longer produces them (the pinned model contains the repairs), a recurrence is a class-0 failure
FINDING_CLASSES = {3: "dict-key-unchecked"}

ENUMS = {"Color": ["RED", "GREEN"], "Sw": ["on", "off", "A1"]}

def translate():
    """regenerate the YAML resolver tables used by Model/TyLoader.v and check, against the live module, the type sets that
    Model/Ty.v hard-wires (which branch a hint takes; `is_seq_or_map_ty` of the Union sort key)"""
    from tie import scalar_tables
    from tie.framework import TieBroken, run_impl

    info, _ = scalar_tables.regenerate()
    got = run_impl("c02_tables.py", {})
    want = {"leaf_types": ["NoneType", "bool", "float", "int", "str"], "list_is_sequence": True, "dict_is_mapping": True,
            "tuple_is_tuple_set": True, "set_is_tuple_set": True, "seq_or_map": [True, True, False, False],
            "tuple_not_sequence": True}
    if got != want:
        raise TieBroken("jsonargparse's type sets differ from what Model/Ty.v assumes", witness={"live": got, "model": want})
    info["C02 type sets"] = "leaf_types / sequence / mapping / tuple_set origin sets as assumed by Model/Ty.v"
    return info


# -----------------------------------------------------------------------------------------------------------------
# types
# -----------------------------------------------------------------------------------------------------------------
LEAVES = [["str"], ["int"], ["float"], ["bool"], ["none"], ["any"],
          ["lit", [["int", "1"], ["int", "2"]]], ["lit", [["str", "a"], ["str", "b"]]],
          ["lit", [["str", "null"], ["int", "0"], ["bool", True]]], ["lit", [["none"], ["str", "1"]]],
          ["lit", [["int", "1"], ["int", "0"]]], ["lit", [["bool", True], ["bool", False]]], ["tuple", []],
          ["enum", "Color", ENUMS["Color"]], ["enum", "Sw", ENUMS["Sw"]]]
HASHABLE_LEAVES = [["str"], ["int"], ["lit", [["int", "1"], ["int", "2"]]], ["lit", [["str", "a"], ["str", "b"]]]]


def ty_key(t):
    return json.dumps(t)


def mk_union(members):
    """normal form as typing would make it: flatten, dedup (keeping first), singleton collapses"""
    flat = []
    for m in members:
        for x in (m[1] if m[0] == "union" else [m]):
            if x not in flat:
                flat.append(x)
    flat = flat[:5]
    return flat[0] if len(flat) == 1 else ["union", flat]


def hashable_ty(t):
    k = t[0]
    if k in ("str", "int", "float", "bool", "none", "lit", "enum"):
        return True
    if k == "tuplevar":
        return hashable_ty(t[1])
    if k in ("tuple", "union"):
        return all(hashable_ty(x) for x in t[1])
    return False


def set_elem_ok(t):
    """set items restricted to ints and strs (deterministic canonical order)"""
    k = t[0]
    if k in ("str", "int"):
        return True
    if k == "lit":
        return all(x[0] in ("int", "str") for x in t[1])
    if k == "union":
        return all(set_elem_ok(x) for x in t[1])
    return False


def rand_ty(rng, depth, hashable=False):
    if depth <= 0 or rng.random() < 0.25:
        return rng.choice(HASHABLE_LEAVES if hashable else LEAVES)
    if hashable:
        k = rng.choice(["union", "leaf"])
    else:
        k = rng.choice(["union", "union", "union", "list", "list", "dict", "dicti", "tuple", "tuplevar", "set", "opt"])
    if k == "leaf":
        return rng.choice(HASHABLE_LEAVES)
    if k == "opt":
        t = rand_ty(rng, depth - 1)
        return mk_union([t, ["none"]] if rng.random() < 0.7 else [["none"], t])
    if k == "union":
        n = rng.choice([2, 2, 3, 3, 4])
        return mk_union([rand_ty(rng, depth - 1, hashable) for _ in range(n)])
    if k == "list":
        return ["list", rand_ty(rng, depth - 1)]
    if k == "dict":
        return ["dict", "str", rand_ty(rng, depth - 1)]
    if k == "dicti":
        return ["dict", "int", rand_ty(rng, depth - 1)]
    if k == "tuple":
        return ["tuple", [rand_ty(rng, depth - 1) for _ in range(rng.choice([0, 1, 2, 2, 3]))]]
    if k == "tuplevar":
        return ["tuplevar", rand_ty(rng, depth - 1)]
    return ["set", rand_ty(rng, 1, hashable=True)]


def systematic_types():
    """every hint of depth <= 1 over the leaf alphabet, and the Unions of two / three leaves in one order (the other orders
    come from the permutation sweep)"""
    res = list(LEAVES)
    for a in LEAVES:
        res += [["list", a], ["dict", "str", a], ["dict", "int", a], ["tuplevar", a], ["tuple", [a]]]
    for a in HASHABLE_LEAVES:
        res.append(["set", a])
    for a, b in itertools.permutations(LEAVES, 2):
        res.append(mk_union([a, b]))
        res.append(["tuple", [a, b]])
    small = [["str"], ["int"], ["float"], ["bool"], ["none"], ["lit", [["int", "1"], ["int", "2"]]]]
    for a, b, c in itertools.combinations(small, 3):
        res.append(mk_union([a, b, c]))
    seen, out = set(), []
    for t in res:
        if ty_key(t) not in seen:
            seen.add(ty_key(t))
            out.append(t)
    return out


def depth2_types(rng, n):
    d1 = systematic_types()
    cont = [lambda a: ["list", a], lambda a: ["dict", "str", a], lambda a: ["tuplevar", a], lambda a: ["tuple", [a, ["int"]]],
            lambda a: mk_union([a, ["none"]]), lambda a: mk_union([["str"], a]), lambda a: mk_union([a, ["str"]]),
            lambda a: mk_union([["list", ["int"]], a])]
    return [rng.choice(cont)(rng.choice(d1)) for _ in range(n)]


# -----------------------------------------------------------------------------------------------------------------
# values
# -----------------------------------------------------------------------------------------------------------------
STRS = ["a", "b", "xyz", "1", "null", "true", "1.5", "", " ", "x y", "0x_", "[1]", "{a: 1}", "-", "~", "yes", "None", "1e3",
        "a: 1", "a:", "1_0", ".inf", '"q"', "it's", "[", "*x", "0o7", "07", "1:30", "- 1", "#c", "on", "No", ".5", "1.",
        "+1", "-1", "0x1f", "1e", "RED", "A1", "[null]", '["1", "a"]', "[1, 2]", "{a: 1, b: x}", "False", "0b_", "2", "0",
        "é", "{a}", "1,2", "(1, 2)", "[a, 1]", "[[1], [a]]", '{"a": [1, "x"]}', "!!x 1", "- a\n- 1", "k: [1]\nj: 2"]
INTS = [0, 1, 2, -1, 7, 10 ** 20, -35]
FLOATS = ["0.5", "1.0", "-2.25", "1000.0", "1.5e-07", "123.456", "inf", "nan", "2.0"]
JUNK = [["none"], ["bool", True], ["bool", False], ["int", "1"], ["int", "3"], ["float", "1.0"], ["float", "2.5"], ["str", "x"],
        ["str", "1"], ["str", "null"], ["str", "true"], ["str", "[1]"], ["str", "0x_"], ["list", []], ["list", [["int", "1"]]],
        ["dict", []], ["dict", [[["str", "a"], ["int", "1"]]]], ["tuple", [["int", "1"], ["int", "2"]]],
        ["enum", "Color", "RED"], ["str", "RED"], ["str", "BLUE"], ["int", "9"], ["str", "a"], ["list", [["str", "1"], ["str", "a"]]],
        ["dict", [[["int", "1"], ["int", "2"]]]]]


def set_sort(items):
    def key(v):
        if v[0] == "int":
            return (0, int(v[1]), "")
        if v[0] == "str":
            return (1, 0, v[1])
        return (2, 0, "")
    out = []
    for v in sorted(items, key=key):
        if v not in out:
            out.append(v)
    return out


def gen_val(rng, t, depth=0):
    """a value of the right shape for t"""
    k = t[0]
    if k == "str":
        return ["str", rng.choice(STRS)]
    if k == "int":
        return ["int", str(rng.choice(INTS))]
    if k == "float":
        return ["float", rng.choice(FLOATS)]
    if k == "bool":
        return ["bool", rng.random() < 0.5]
    if k == "none":
        return ["none"]
    if k == "any":
        return rng.choice(JUNK) if rng.random() < 0.7 else gen_val(rng, rand_ty(rng, 1), depth + 1)
    if k == "lit":
        return rng.choice(t[1])
    if k == "enum":
        return ["enum", t[1], rng.choice(t[2])]
    if k == "union":
        return gen_val(rng, rng.choice(t[1]), depth)
    n = rng.choice([0, 1, 2, 2, 3]) if depth < 2 else rng.choice([0, 1])
    if k == "list":
        return ["list", [gen_val(rng, t[1], depth + 1) for _ in range(n)]]
    if k == "tuplevar":
        return ["tuple", [gen_val(rng, t[1], depth + 1) for _ in range(n)]]
    if k == "tuple":
        return ["tuple", [gen_val(rng, x, depth + 1) for x in t[1]]]
    if k == "set":
        if not set_elem_ok(t[1]):
            return ["set", []]
        return ["set", set_sort([gen_val(rng, t[1], depth + 1) for _ in range(n)])]
    if k == "dict":
        keys = rng.sample(["a", "b", "k1", "1", "null"], n) if t[1] == "str" else rng.sample([0, 1, 2, -5, 12], n)
        return ["dict", [[["str", x] if t[1] == "str" else ["int", str(x)], gen_val(rng, t[2], depth + 1)] for x in keys]]
    raise ValueError(k)


def paths(v, pre=()):
    yield pre
    if v[0] in ("list", "tuple", "set"):
        for i, x in enumerate(v[1]):
            yield from paths(x, pre + (i,))
    elif v[0] == "dict":
        for i, (a, b) in enumerate(v[1]):
            yield pre + (i, "key")
            yield from paths(b, pre + (i, "val"))


def replace_at(v, path, f):
    if not path:
        return f(v)
    i = path[0]
    if v[0] in ("list", "tuple", "set"):
        items = list(v[1])
        items[i] = replace_at(items[i], path[1:], f)
        return [v[0], set_sort(items) if v[0] == "set" else items]
    items = [list(p) for p in v[1]]
    if path[1] == "key":
        items[i][0] = f(items[i][0])
    else:
        items[i][1] = replace_at(items[i][1], path[2:], f)
    return ["dict", items]


def hashable_val(v):
    return v[0] not in ("list", "dict", "set") and (v[0] != "tuple" or all(hashable_val(x) for x in v[1]))


def valid_val(v):
    """can be built as a Python object: dict keys / set items hashable, dict keys distinct as Python sees them"""
    if v[0] in ("list", "tuple"):
        return all(valid_val(x) for x in v[1])
    if v[0] == "set":
        return all(x[0] in ("int", "str") for x in v[1]) and len({json.dumps(x) for x in v[1]}) == len(v[1])
    if v[0] == "dict":
        ks = [a for a, _ in v[1]]
        if not all(a[0] in ("int", "str") for a in ks) or len({json.dumps(a) for a in ks}) != len(ks):
            return False
        return all(valid_val(b) for _, b in v[1])
    return True


def corrupt(rng, v):
    """ONE position made wrong"""
    ps = list(paths(v))
    p = rng.choice(ps)
    mode = rng.random()

    def f(x):
        if p and p[-1] == "key":
            return rng.choice([["int", "1"], ["str", "x"], ["int", "5"], ["str", "2"], ["str", "-3"]])
        if x[0] in ("list", "tuple") and mode < 0.4:
            items = list(x[1])
            if items and rng.random() < 0.5:
                del items[rng.randrange(len(items))]
            else:
                items.insert(rng.randrange(len(items) + 1), rng.choice(JUNK[:12]))
            return [x[0], items]
        if x[0] == "int" and mode < 0.5:
            return rng.choice([["bool", True], ["bool", False], ["float", "1.0"], ["str", "1"]])
        if x[0] == "list" and mode < 0.6:
            return ["tuple", x[1]]
        if x[0] == "tuple" and mode < 0.6:
            return ["list", x[1]]
        return rng.choice(JUNK)
    w = replace_at(v, p, f)
    return w if valid_val(w) else None


def to_text(rng, v):
    """YAML/JSON text for a value (tuples/sets as lists, enum members by name); None when there is none"""
    def plain(x):
        k = x[0]
        if k == "none":
            return None
        if k == "bool":
            return x[1]
        if k == "int":
            return int(x[1])
        if k == "float":
            return float(x[1])
        if k == "str":
            return x[1]
        if k in ("list", "tuple", "set"):
            return [plain(y) for y in x[1]]
        if k == "dict":
            return {(y[0][1] if y[0][0] == "str" else int(y[0][1])): plain(y[1]) for y in x[1]}
        if k == "enum":
            return x[2]
        raise ValueError
    try:
        o = plain(v)
        if v[0] == "str":
            return v[1]
        if v[0] == "enum":
            return v[2]
        if isinstance(o, dict) and any(not isinstance(kk, str) for kk in o):
            import yaml
            return yaml.safe_dump(o, default_flow_style=True).strip()
        s = json.dumps(o)
        if "Infinity" in s or "NaN" in s:
            return None
        return s
    except (ValueError, TypeError):
        return None


def strings_of(v, acc):
    if v[0] == "str":
        acc.add(v[1])
    elif v[0] in ("list", "tuple", "set"):
        for x in v[1]:
            strings_of(x, acc)
    elif v[0] == "dict":
        for a, b in v[1]:
            strings_of(a, acc)
            strings_of(b, acc)


# -----------------------------------------------------------------------------------------------------------------
# cases
# -----------------------------------------------------------------------------------------------------------------
def union_nodes(t, pre=()):
    k = t[0]
    if k == "union":
        yield pre
        for i, x in enumerate(t[1]):
            yield from union_nodes(x, pre + (i,))
    elif k in ("list", "tuplevar", "set"):
        yield from union_nodes(t[1], pre + (1,))
    elif k == "dict":
        yield from union_nodes(t[2], pre + (2,))
    elif k == "tuple":
        for i, x in enumerate(t[1]):
            yield from union_nodes(x, pre + ("t", i))


def ty_replace(t, path, f):
    if not path:
        return f(t)
    k = t[0]
    if k == "union":
        ms = list(t[1])
        ms[path[0]] = ty_replace(ms[path[0]], path[1:], f)
        return ["union", ms]
    if k in ("list", "tuplevar", "set"):
        return [k, ty_replace(t[1], path[1:], f)]
    if k == "dict":
        return [k, t[1], ty_replace(t[2], path[1:], f)]
    ms = list(t[1])
    ms[path[1]] = ty_replace(ms[path[1]], path[2:], f)
    return ["tuple", ms]


def perm_variants(rng, t, cap):
    out = []
    for p in union_nodes(t):
        node = [None]

        def grab(x):
            node[0] = x
            return x
        ty_replace(t, p, grab)
        n = len(node[0][1])
        if n <= 4:
            perms = [pm for pm in itertools.permutations(range(n)) if list(pm) != list(range(n))]
        else:
            perms = []
            for _ in range(cap):
                pm = list(range(n))
                rng.shuffle(pm)
                if pm != list(range(n)) and tuple(pm) not in perms:
                    perms.append(tuple(pm))
        for pm in perms:
            out.append(ty_replace(t, p, lambda x: ["union", [x[1][i] for i in pm]]))
    if len(out) > cap:
        out = rng.sample(out, cap)
    return out


NONE_PROXY = ["lit", [["none"]]]   # a bare NoneType is not a hint add_argument understands: Literal[None] stands in


def proxy(t):
    return NONE_PROXY if t == ["none"] else t


def parts_of(t, v):
    r = parts_of_(t, v)
    return None if r is None else [[proxy(a), b] for a, b in r]


def parts_of_(t, v):
    k = t[0]
    if k == "union":
        return [[m, v] for m in t[1]]
    if v[0] == "str":
        return None
    if k in ("list", "tuplevar", "set") and v[0] in ("list", "tuple", "set"):
        return [[t[1], x] for x in v[1]]
    if k == "tuple" and v[0] in ("list", "tuple", "set"):
        return [[a, x] for a, x in zip(t[1], v[1])]
    if k == "dict" and v[0] == "dict":
        return [[t[2], b] for _, b in v[1]]
    return None


def make_case(rng, t, v, cap):
    ch = "obj"
    if v[0] == "str" and "\n" not in v[1] and rng.random() < 0.5:
        ch = "argv"
    if v[0] == "set" and t[0] not in ("set",):
        # a Python set is iterated in hash order: only where the order cannot be seen
        if len(v[1]) > 1:
            v = ["set", v[1][:1]]
    return {"kind": "ty", "ty": t, "val": v, "ch": ch, "perms": perm_variants(rng, t, cap), "parts": parts_of(t, v)}



# the recorded findings, always run first (one concrete failing input each; the same inputs are in replays/known/)
def witness_cases(rng):
    I, S, L = ["int"], ["str"], lambda t: ["list", t]
    lit12 = ["lit", [["int", "1"], ["int", "2"]]]
    ws = [
        (["union", [S, I]], ["str", "null"]),                                   # union-vals-last
        (["union", [I, S]], ["str", "null"]),
        (["union", [["tuple", [["union", [S, I]], S]], ["tuple", [["any"], I]]]], ["str", '[null, "1"]']),
        (lit12, ["bool", True]), (lit12, ["float", "1.0"]),                     # literal-eq
        (["dict", "str", I], ["dict", [[["int", "1"], ["int", "2"]]]]),          # dict-key-unchecked
        (["any"], ["str", "0x_"]), (L(["any"]), ["list", [["str", "0x_"]]]),    # any-str-valueerror
        (["union", [L(I), L(S)]], ["list", [["str", "1"], ["str", "a"]]]),      # union-trial-mutates
        (["union", [L(S), L(I)]], ["list", [["str", "1"], ["str", "a"]]]),
        (["union", [["dict", "str", I], ["dict", "str", S]]], ["dict", [[["str", "x"], ["str", "1"]], [["str", "y"], ["str", "a"]]]]),
        (["union", [L(L(I)), L(L(S))]], ["list", [["list", [["str", "1"], ["str", "a"]]]]]),
        (["union", [["tuple", [L(I), I]], ["tuple", [L(S), S]]]], ["tuple", [["list", [["str", "1"]]], ["str", "a"]]]),
        (["union", [["enum", "Color", ENUMS["Color"]], ["none"]]], ["str", "RED"]),   # optional-enum-order (via the permutation)
        (["union", [["none"], ["enum", "Color", ENUMS["Color"]]]], ["str", "RED"]),
    ]
    return [make_case(rng, t, v, 30) for t, v in ws]


def group_cases(rng, tier):
    cases = []
    fields = [[["a", ["int"]]], [["a", ["int"]], ["b", ["str"]]], [["a", ["list", ["int"]]]]]
    vals = [["int", "5"], ["str", "x"], ["none"], ["list", [["int", "1"]]], ["bool", True], ["float", "1.5"],
            ["dict", [[["str", "a"], ["int", "3"]]]], ["dict", [[["str", "a"], ["str", "x"]]]], ["dict", []],
            ["dict", [[["str", "zz"], ["int", "3"]]]], ["str", "{a: 4}"], ["str", "a: 4"], ["str", ""],
            ["dict", [[["str", "a"], ["list", [["int", "1"], ["int", "2"]]]]]], ["dict", [[["str", "a"], ["none"]]]]]
    for fs in fields:
        for v in vals:
            for style in ("plain", "group"):
                cases.append({"kind": "group", "fields": fs, "val": v, "style": style})
    return cases


# -----------------------------------------------------------------------------------------------------------------
# cases with registered / restricted Union members (opaque: behaviour observed) and with declared defaults
# -----------------------------------------------------------------------------------------------------------------
# restricted string types declared from a compiled pattern WITH flags: the declared predicate is evaluated here (Python re, in
# the harness process) and handed to the judge, independently of what the implementation under test does
PRED = {"LowerCI": ["^[a-z]{2,}$", ["IGNORECASE"]], "DotAll": ["^a.b$", ["DOTALL"]], "AsciiWord": [r"^\w+$", ["ASCII"]],
        "MultiL": ["^ab$", ["MULTILINE"]], "Plain": ["^[a-z]+$", []]}
TDS = [["td", "Measure", [["x", ["float"]], ["y", ["int"]]]], ["td", "Label", [["x", ["int"]], ["y", ["str"]]]],
       ["td", "Opt", [["x", ["union", [["int"], ["none"]]]], ["y", ["list", ["int"]]]]], ["td", "Flag", [["x", ["bool"]], ["y", ["str"]]]]]
# fields declared NotRequired[...] (m[3]); "nontotal": total=False with the other fields declared Required[...]
TDS_OPT = [["td", "Part", [["x", ["int"]], ["y", ["str"]]], ["y"]],
           ["td", "Loose", [["x", ["int"]], ["y", ["list", ["int"]]]], ["y"], "nontotal"],
           ["td", "AllOpt", [["x", ["float"]], ["y", ["int"]]], ["x", "y"]]]
TD_VALUES = [["dict", [[["str", "x"], ["int", "1"]], [["str", "y"], ["str", "s"]]]],
             ["dict", [[["str", "x"], ["int", "1"]], [["str", "y"], ["int", "2"]]]],
             ["dict", [[["str", "x"], ["float", "1.5"]], [["str", "y"], ["int", "2"]]]],
             ["dict", [[["str", "x"], ["str", "1"]], [["str", "y"], ["int", "2"]]]],
             ["dict", [[["str", "x"], ["bool", True]], [["str", "y"], ["str", "s"]]]],
             ["dict", [[["str", "x"], ["none"]], [["str", "y"], ["list", [["str", "1"], ["int", "2"]]]]]],
             ["dict", [[["str", "x"], ["int", "1"]], [["str", "y"], ["list", [["int", "1"]]]]]],
             ["dict", [[["str", "y"], ["int", "2"]], [["str", "x"], ["int", "3"]]]],
             ["dict", [[["str", "x"], ["int", "1"]]]], ["dict", []],
             ["dict", [[["str", "x"], ["int", "1"]], [["str", "y"], ["int", "2"]], [["str", "z"], ["int", "3"]]]],
             ["str", '{"x": 1, "y": "s"}'], ["str", "{x: 2, y: 3}"], ["int", "1"], ["list", []], ["none"]]
PRED_VALUES = [["str", "ABC"], ["str", "abc"], ["str", "Ab"], ["str", "a"], ["str", "a\nb"], ["str", "axb"], ["str", "caf\u00e9"],
               ["str", "cafe_1"], ["str", "ab"], ["str", "ab\ncd"], ["str", "x\nab"], ["str", ""], ["str", "null"], ["int", "1"],
               ["str", "AB\n"], ["str", "a b"]]


# the declared comparisons of the restricted number types (jsonargparse.typing): base type, [(op, reference)], all must hold
NUMPRED = {"PositiveInt": ("int", [(">", 0)]), "NonNegativeInt": ("int", [(">=", 0)]), "PositiveFloat": ("float", [(">", 0)]),
           "ClosedUnitInterval": ("float", [(">=", 0), ("<=", 1)])}


def num_pred(name, text):
    """does the number written as `text` satisfy the DECLARED restriction of the type (computed here, not by the tree)"""
    import operator
    import re
    base, restr = NUMPRED[name]
    ops = {">": operator.gt, ">=": operator.ge, "<": operator.lt, "<=": operator.le}
    try:
        x = int(text) if re.match(r"^-?\d+$", text) else (float(text) if base == "float" else None)
    except (ValueError, OverflowError):
        return False
    if x is None or x != x:
        return False
    return all(ops[o](x, r) for o, r in restr)


def pred_matches(name, text):
    import re
    pat, flags = PRED[name]
    fl = 0
    for f in flags:
        fl |= getattr(re, f)
    return re.compile(pat, fl).match(text) is not None


OPQ = ["PositiveFloat", "PositiveInt", "ClosedUnitInterval", "NonNegativeInt", "Decimal", "Email", "NotEmptyStr", "StrColor", "Picky"]
X_MODELLED = [["int"], ["str"], ["bool"], ["float"], ["none"], ["list", ["int"]], ["lit", [["int", "1"], ["int", "2"]]],
              ["dict", "str", ["int"]], ["tuple", []], ["tuple", [["int"], ["str"]]]]
BIG = 10 ** 400
X_VALUES = [["int", "1"], ["int", "-1"], ["int", "0"], ["int", "2"], ["float", "0.5"], ["float", "2.5"], ["float", "1.0"],
            ["int", str(BIG)], ["int", str(-BIG)], ["str", "abc"], ["str", "0.25"], ["str", "1e3"], ["str", "inf"],
            ["str", "2"], ["str", "-3"], ["str", "null"], ["list", [["int", "1"], ["int", "2"]]],
            ["list", [["str", "a"]]], ["bool", True], ["bool", False], ["str", "[1, 2]"], ["str", "true"], ["str", ""],
            ["str", "a@b.c"], ["str", "px"], ["list", []], ["str", "RED"], ["str", "red"], ["str", "[]"], ["str", "{}"], ["str", '{"a": 1}'], ["str", "~"],
            ["dict", [[["str", "a"], ["int", "1"]]]], ["none"]]


def mentions_float(m):
    return m[0] == "float" or (m[0] in ("list",) and mentions_float(m[1]))


def huge(v):
    return (v[0] == "int" and abs(int(v[1])) > 10 ** 300) or (v[0] == "str" and v[1].lstrip("-").isdigit() and len(v[1]) > 300)


def scalar_conforms(v, t):
    k = t[0]
    if k in ("int", "float", "bool", "str"):
        return v[0] == k
    if k == "none":
        return v[0] == "none"
    if k == "union":
        return any(scalar_conforms(v, m) for m in t[1])
    if k == "lit":
        return v in t[1]
    return False


def x_case(rng, ms, dflt, v, cap):
    ch = "argv" if (v[0] == "str" and "\n" not in v[1] and rng.random() < 0.5) else "obj"
    n = len(ms)
    perms = []
    if n >= 2:
        perms = [list(pm) for pm in itertools.permutations(range(n)) if list(pm) != list(range(n))]
        if len(perms) > cap:
            perms = rng.sample(perms, cap)
    return {"kind": "x", "ms": ms, "dflt": dflt, "val": v, "ch": ch, "perms": perms}


def x_cases(rng, tier):
    quick = tier == "quick"
    cases, seen = [], set()

    def add(ms, dflt, v):
        if any(huge(v) and m[0] not in ("opq", "td") and mentions_float(m) for m in ms):
            return     # Model/Ty.v's float(int) has no OverflowError (31e6cde): out of the modelled space
        key = json.dumps([ms, dflt, v])
        if key not in seen:
            seen.add(key)
            cases.append(x_case(rng, ms, dflt, v, 5))

    # (1) Unions with registered / restricted members, every order through the permutation sweep
    pool = [["opq", n] for n in OPQ] + X_MODELLED
    combos = []
    for size in (2, 3):
        for combo in itertools.combinations(pool, size):
            if any(m[0] == "opq" for m in combo):
                combos.append(list(combo))
    rng.shuffle(combos)
    chosen = []
    for n in OPQ:                       # every registered member in at least four Unions, the rest at random
        chosen += [c for c in combos if ["opq", n] in c][:4]
    for c in combos:
        if len(chosen) >= (48 if quick else 200):
            break
        if c not in chosen:
            chosen.append(c)
    for combo in chosen:
        ms = list(combo)
        rng.shuffle(ms)
        vals = X_VALUES if not quick else rng.sample(X_VALUES, 9) + [["int", str(BIG)], ["str", "abc"]]
        for v in vals:
            add(ms, None, v)
    # (1b) restricted strings declared with regex flags: alone and in Unions, candidates on which the flag decides
    for n in PRED:
        for v in PRED_VALUES:
            add([["opq", n]], None, v)
        others = [["opq", m] for m in PRED if m != n] + [["int"], ["none"], ["list", ["int"]], ["opq", "PositiveInt"]]
        for _ in range(2 if quick else 6):
            ms = [["opq", n]] + rng.sample(others, rng.choice([1, 2]))
            rng.shuffle(ms)
            for v in (rng.sample(PRED_VALUES, 8) if quick else PRED_VALUES):
                add(ms, None, v)
    # (1c) TypedDict members (behaviour observed, conformance by the declared fields): every pair and triple, every order
    for size in (2, 3):
        for combo in itertools.combinations(TDS, size):
            for ms in ([list(combo)] if quick and size == 3 else [list(p) for p in itertools.permutations(combo)][: (2 if quick else 6)]):
                for v in (TD_VALUES if not quick or size == 2 else rng.sample(TD_VALUES, 6)):
                    add(ms, None, v)
    for td in TDS:
        for other in (["int"], ["none"], ["dict", "str", ["int"]], ["list", ["int"]]):
            for ms in ([td, other], [other, td]):
                for v in (TD_VALUES if not quick else rng.sample(TD_VALUES, 5)):
                    add(ms, None, v)
        for v in TD_VALUES:
            add([td], None, v)
    # (1d) TypedDict classes with NotRequired / Required fields: alone, beside a total class, beside plain members
    for td in TDS_OPT:
        for v in TD_VALUES:
            add([td], None, v)
        for other in (TDS[0], TDS[1], ["int"], ["none"], ["dict", "str", ["int"]]):
            for ms in ([td, other], [other, td]):
                for v in (TD_VALUES if not quick else rng.sample(TD_VALUES, 6)):
                    add(ms, None, v)
    # (2) declared defaults: every conforming scalar default x every scalar value, typed objects and text
    hints = [["int"], ["float"], ["bool"], ["str"], ["union", [["int"], ["none"]]], ["union", [["int"], ["str"]]],
             ["union", [["bool"], ["float"]]], ["lit", [["int", "1"], ["int", "2"]]], ["union", [["str"], ["none"]]]]
    dvals = [["int", "0"], ["int", "1"], ["int", "2"], ["float", "0.0"], ["float", "1.0"], ["float", "2.0"], ["bool", False],
             ["bool", True], ["str", "a"], ["str", "1"], ["str", "null"], ["str", "true"]]
    vals = dvals + [["int", "-1"], ["float", "0.5"], ["str", "abc"], ["str", "1.0"], ["str", "0"]]
    for t in hints:
        ms = t[1] if t[0] == "union" else [t]
        for d in [None] + [d for d in dvals if scalar_conforms(d, t)]:
            for v in (vals if not quick or d is not None else rng.sample(vals, 6)):
                add(ms, d, v)
    # (3) a default on a Union with an opaque member
    for n in ("PositiveFloat", "Decimal"):
        for d in (["int", "1"], ["str", "abc"]):
            for v in (["bool", True], ["float", "1.0"], ["str", "abc"], ["int", "1"], ["int", str(BIG)]):
                add([["opq", n], ["int"], ["str"]], d, v)
    return cases


# Set hints given ORDERED inputs (list / tuple / text) whose items are == but of different kinds, in both orders: the items
# are adapted one by one, equal results collapse only in the set that is built at the end
SET_ITEMS = [["int", "1"], ["bool", True], ["float", "1.0"], ["int", "0"], ["bool", False], ["float", "0.0"], ["int", "2"],
             ["float", "2.0"], ["int", "7"], ["str", "1"], ["str", "a"], ["none"], ["float", "0.5"], ["str", "true"]]


EQ_CLASSES = [[["int", "1"], ["bool", True], ["float", "1.0"]], [["int", "0"], ["bool", False], ["float", "0.0"]],
              [["int", "2"], ["float", "2.0"]]]


def as_float(x):
    try:
        return float(x[1]) if x[0] in ("int", "float", "str") else (float(x[1]) if x[0] == "bool" else None)
    except ValueError:
        return None


def set_cases(rng, tier):
    quick = tier == "quick"
    I, B, F, S = ["int"], ["bool"], ["float"], ["str"]
    elem = [I, B, S, ["lit", [["int", "1"], ["int", "2"]]], mk_union([I, S]), mk_union([I, B]), mk_union([B, I]), mk_union([I, ["none"]]),
            F, mk_union([S, I])]
    wrap = [lambda t: ["set", t], lambda t: ["list", ["set", t]], lambda t: ["dict", "str", ["set", t]],
            lambda t: mk_union([["set", t], ["none"]]), lambda t: ["tuple", [["set", t], ["int"]]]]
    cases = []
    for t in elem:
        seqs = []
        for cls in EQ_CLASSES:                     # every ordered pair of == items of different kinds, alone and with company
            for a, b in itertools.permutations(cls, 2):
                seqs.append([a, b])
                if not quick or rng.random() < 0.3:
                    seqs.append([rng.choice(SET_ITEMS), a, b] if rng.random() < 0.5 else [a, rng.choice(SET_ITEMS), b])
        good = [x for x in SET_ITEMS if scalar_conforms(x, t)] or SET_ITEMS
        for _ in range(10 if quick else 60):
            pool = good if rng.random() < 0.7 else SET_ITEMS
            seqs.append([rng.choice(pool) for _ in range(rng.choice([1, 2, 3]))])
        for items in seqs:
            # the canonical order of a resulting set is fixed for ints and strs only: at most one other distinct result
            if t == F and len({as_float(x) for x in items} - {None}) > 1:
                continue
            w = rng.randrange(len(wrap)) if rng.random() < 0.35 else 0
            outer = rng.choice(["list", "tuple", "text"])
            seq = ["list" if outer != "tuple" else "tuple", items]
            if w == 0:
                v = seq
            elif w == 1:
                v = ["list", [seq]]
            elif w == 2:
                v = ["dict", [[["str", "a"], seq]]]
            elif w == 3:
                v = seq
            else:
                v = ["tuple", [seq, ["int", "3"]]]
            ty = wrap[w](t)
            if outer == "text":
                txt = to_text(rng, v)
                if txt is None:
                    continue
                v = ["str", txt]
            cases.append(make_case(rng, ty, v, 6))
    return cases


# -----------------------------------------------------------------------------------------------------------------
# histories: acceptance is a function of (hint, value) — not of which OTHER hints the process has parsed before.
# A case = the main query preceded, in one fresh process (forked by the runner), by parses under hints that are easily
# confused with the main hint: equal as Python objects but different (Literal[1, 0] / Literal[True, False]: (1, 0) ==
# (True, False); Union[a, b] / Union[b, a]; List[Union[a, b]] / List[Union[b, a]]), same members in another container,
# Enum classes with the same member names. The judge ignores the history: model and spec are history-free.
# -----------------------------------------------------------------------------------------------------------------
def history_cases(rng, tier):
    quick = tier == "quick"
    L10, LTF = ["lit", [["int", "1"], ["int", "0"]]], ["lit", [["bool", True], ["bool", False]]]
    L12, LS = ["lit", [["int", "1"], ["int", "2"]]], ["lit", [["str", "1"], ["str", "2"]]]
    LN1, LMIX = ["lit", [["none"], ["str", "1"]]], ["lit", [["str", "null"], ["int", "0"], ["bool", True]]]
    I, S, B, F, N = ["int"], ["str"], ["bool"], ["float"], ["none"]
    col, sw = ["enum", "Color", ENUMS["Color"]], ["enum", "Sw", ENUMS["Sw"]]
    groups = [
        [L10, LTF, ["lit", [["int", "0"], ["int", "1"]]], ["lit", [["bool", False], ["bool", True]]], LMIX],
        [L12, LS, LN1, ["lit", [["int", "2"], ["int", "1"]]]],
        [mk_union([I, S]), mk_union([S, I]), mk_union([B, I]), mk_union([I, B]), mk_union([F, I]), mk_union([I, F])],
        [mk_union([I, N]), mk_union([N, I]), mk_union([B, N]), mk_union([N, B]), mk_union([col, N]), mk_union([sw, N])],
        [["tuple", [I, S]], ["tuple", [S, I]], ["tuple", []], ["tuplevar", I], ["list", I], ["set", I]],
        [["dict", "str", I], ["dict", "int", I], ["dict", "str", S], ["dict", "int", S]],
        [col, sw, ["lit", [["str", "RED"], ["str", "GREEN"]]], ["lit", [["str", "on"], ["str", "off"]]]],
    ]
    gtexts = [["1", "0", "true", "false", "null"], ["1", "2", "null", "3"], ["1", "true", "a", "1.0", "0"],
              ["null", "1", "true", "RED", "on", "~"], ["[1, a]", "[]", "[1]", "[1, 2]", "[a, 1]"], ["{1: 2}", "{a: 1}", "{}", "{a: b}"],
              ["RED", "on", "off", "GREEN", "A1"]]
    wraps = [lambda t: t, lambda t: t, lambda t: ["list", t], lambda t: ["dict", "str", t], lambda t: mk_union([t, ["none"]])]

    def val_for(w, text):
        return [["str", text], ["str", text], ["list", [["str", text]]], ["dict", [[["str", "a"], ["str", text]]]], ["str", text]][w]

    cases = []
    for g, texts in zip(groups, gtexts):
        pairs = [(a, b) for a in g for b in g if a != b]
        if quick:
            pairs = rng.sample(pairs, min(len(pairs), 10))
        for h1, h2 in pairs:
            for _ in range(2 if quick else 5):
                w1, w2 = rng.randrange(len(wraps)), rng.randrange(len(wraps))
                t1, t2 = rng.choice(texts), rng.choice(texts)
                c = make_case(rng, wraps[w2](h2), val_for(w2, t2), 0)
                c["perms"], c["parts"] = [], None
                c["before"] = [{"ty": wraps[w1](h1), "val": val_for(w1, t1), "ch": "obj"}]
                if rng.random() < 0.3:
                    c["before"].append({"ty": wraps[w1](h1), "val": val_for(w1, t2), "ch": "obj"})
                cases.append(c)
    return cases


# every container shape over every scalar leaf, with ONE item of each other scalar kind (bool for int, int for bool, int for
# float, float for int, str look-alikes ...) — systematic, independent of the seed
def kind_cases(rng, tier):
    scal = {"int": [["int", "1"], ["int", "0"]], "float": [["float", "1.0"], ["float", "0.5"]], "bool": [["bool", True], ["bool", False]],
            "str": [["str", "a"], ["str", "1"]], "none": [["none"]]}
    conts = [("list", lambda t: ["list", t], lambda xs: ["list", xs]),
             ("tuplevar", lambda t: ["tuplevar", t], lambda xs: ["tuple", xs]),
             ("tuple", lambda t: ["tuple", [t, t]], lambda xs: ["tuple", (xs + xs)[:2]]),
             ("dict", lambda t: ["dict", "str", t], lambda xs: ["dict", [[["str", "k%d" % i], x] for i, x in enumerate(xs)]]),
             ("dicti", lambda t: ["dict", "int", t], lambda xs: ["dict", [[["int", str(i)], x] for i, x in enumerate(xs)]]),
             ("listlist", lambda t: ["list", ["list", t]], lambda xs: ["list", [["list", xs]]]),
             ("opt", lambda t: mk_union([t, ["none"]]), lambda xs: xs[-1]),
             ("listopt", lambda t: ["list", mk_union([t, ["none"]])], lambda xs: ["list", xs])]
    cases = []
    for leaf in ("int", "float", "bool", "str"):
        good = scal[leaf][0]
        for name, mk_t, mk_v in conts:
            t = mk_t([leaf])
            for kind, vals in scal.items():
                for x in vals:
                    for xs in ([x], [good, x]):
                        v = mk_v(xs)
                        if valid_val(v):
                            cases.append(make_case(rng, t, v, 2))
    return cases


def has_ann(t):
    if not isinstance(t, list):
        return False
    return (t and t[0] == "ann") or any(has_ann(x) for x in t[1:] if isinstance(x, list))


def strip_ann(t):
    if not isinstance(t, list):
        return t
    if t and t[0] == "ann":
        return strip_ann(t[1])
    return [strip_ann(x) if isinstance(x, list) and x and not (t[0] in ("lit", "enum")) else x for x in t]


def type_positions(t, pre=()):
    """paths to the sub-hints of t (the root included)"""
    yield pre
    k = t[0]
    if k in ("union", "tuple"):
        for i, x in enumerate(t[1]):
            yield from type_positions(x, pre + ((1, i),))
    elif k in ("list", "tuplevar", "set"):
        yield from type_positions(t[1], pre + ((1, None),))
    elif k == "dict":
        yield from type_positions(t[2], pre + ((2, None),))


def wrap_at(t, path):
    if not path:
        return ["ann", t]
    (slot, i), rest = path[0], path[1:]
    t2 = list(t)
    if i is None:
        t2[slot] = wrap_at(t[slot], rest)
    else:
        ms = list(t[slot])
        ms[i] = wrap_at(ms[i], rest)
        t2[slot] = ms
    return t2


def ann_cases(rng, tier):
    """Annotated[T, 'meta'] (metadata that is no validator) means T: hints with ONE sub-hint (any depth, the root included)
    wrapped, values as for the plain hint; model and spec see the plain hint. A bare NoneType is not wrapped (Annotated[None, ..]
    is not a hint add_argument understands beside others)."""
    quick = tier == "quick"
    sys_t = systematic_types()
    types = (rng.sample(sys_t, 60 if quick else 300) + depth2_types(rng, 30 if quick else 200)
             + [rand_ty(rng, rng.choice([2, 3])) for _ in range(30 if quick else 200)])
    cases, seen = [], set()
    for t in types:
        pos = [p for p in type_positions(t)]
        for _ in range(3):
            p = rng.choice(pos)
            sub = t
            for slot, i in p:
                sub = sub[slot] if i is None else sub[slot][i]
            if sub == ["none"]:
                continue
            ta = wrap_at(t, p)
            r = rng.random()
            v = gen_val(rng, t)
            if r < 0.3:
                pass
            elif r < 0.5:
                v = corrupt(rng, v)
            elif r < 0.8:
                w = v if r < 0.65 else corrupt(rng, v)
                s = None if w is None else to_text(rng, w)
                v = None if s is None else ["str", s]
            else:
                v = ["str", rng.choice(STRS)]
            if v is None or not valid_val(v):
                continue
            key = json.dumps([ta, v])
            if key in seen:
                continue
            seen.add(key)
            c = make_case(rng, t, v, 0)
            c["ty"], c["perms"], c["parts"] = ta, [], None
            cases.append(c)
    return cases


def nested_cases(rng, tier):
    """the nested command-line channel: --k.<key>=<text> on a key of type Dict[str|int, T]"""
    quick = tier == "quick"
    items = [["int"], ["str"], ["float"], ["bool"], mk_union([["int"], ["none"]]), mk_union([["str"], ["int"]]), mk_union([["int"], ["str"]]),
             ["list", ["int"]], ["lit", [["int", "1"], ["int", "2"]]], ["lit", [["str", "null"], ["int", "0"], ["bool", True]]],
             ["enum", "Color", ENUMS["Color"]], ["any"], ["dict", "str", ["int"]], ["tuple", [["int"], ["str"]]], mk_union([["list", ["int"]], ["str"]]),
             mk_union([["bool"], ["float"]]), ["tuplevar", ["int"]], ["set", ["int"]], mk_union([["none"], ["enum", "Color", ENUMS["Color"]]])]
    texts = ["1", "a", "null", "true", "1.5", "[1, 2]", "[1, a]", "{a: 1}", "", " ", "-", "RED", "0", "2", "x y", "[]", "1e3", "~", "[1]",
             '"q"', "0x_", "{a: x}", "- 1", "No"]
    skeys = ["a", "b1", "1", "null", "a-b", "A"]
    ikeys = ["1", "0", "-5", "a", "1.5", "07", "true", "12"]
    cases = []
    for t in items:
        for ik in (False, True):
            for key in ((skeys if not ik else ikeys) if not quick else rng.sample(skeys if not ik else ikeys, 3)):
                for s in (rng.sample(texts, 10) if not quick else rng.sample(texts, 3)):
                    cases.append({"kind": "nested", "ik": ik, "ty": t, "key": key, "val": ["str", s]})
    return cases


def generate(rng, tier):
    quick = tier == "quick"
    cap = 6 if quick else 30
    sys_t = systematic_types()
    if quick:
        types = rng.sample(sys_t, 130) + depth2_types(rng, 60) + [rand_ty(rng, rng.choice([2, 3, 4])) for _ in range(110)]
        per = 7
    else:
        types = sys_t + depth2_types(rng, 600) + [rand_ty(rng, rng.choice([2, 3, 3, 4])) for _ in range(1300)]
        per = 9
    cases, seen = [], set()

    def add(t, v):
        if v is None or not valid_val(v):
            return
        key = json.dumps([t, v])
        if key in seen:
            return
        seen.add(key)
        cases.append(make_case(rng, t, v, cap))

    for t in types:
        if t == ["none"]:
            continue
        for _ in range(per):
            r = rng.random()
            v = gen_val(rng, t)
            if r < 0.30:
                add(t, v)
            elif r < 0.55:
                add(t, corrupt(rng, v))
            elif r < 0.70:
                s = to_text(rng, v)
                add(t, None if s is None else ["str", s])
            elif r < 0.82:
                w = corrupt(rng, v)
                s = None if w is None else to_text(rng, w)
                add(t, None if s is None else ["str", s])
            else:
                add(t, ["str", rng.choice(STRS)])
    return (witness_cases(rng) + group_cases(rng, tier) + kind_cases(rng, tier) + history_cases(rng, tier) + x_cases(rng, tier) + set_cases(rng, tier)
            + cases + ann_cases(rng, tier) + nested_cases(rng, tier))


# -----------------------------------------------------------------------------------------------------------------
# observation
# -----------------------------------------------------------------------------------------------------------------
def case_queries(c):
    qs = [{"ty": c["ty"], "val": c["val"], "ch": c["ch"], "before": c.get("before") or []}]
    qs += [{"ty": p, "val": c["val"], "ch": "obj"} for p in c["perms"]]
    qs += [{"ty": pt, "val": pv, "ch": "obj"} for pt, pv in (c["parts"] or [])]
    return qs


def oracle_closure(strs, orc):
    out, todo = {}, sorted(strs)
    for _ in range(4):
        nxt = set()
        for s in todo:
            if s not in out and s in orc:
                out[s] = orc[s]
                if orc[s][0] not in ("yamlerr", "valerr"):
                    strings_of(orc[s], nxt)
        todo = sorted(nxt)
    return out


def x_proxy(m):
    return NONE_PROXY if m == ["none"] else m


def x_queries(c):
    qs = [{"ms": c["ms"], "dflt": c["dflt"], "val": c["val"], "ch": c["ch"]}]
    if len(c["ms"]) >= 2:
        qs += [{"ms": [x_proxy(m)], "dflt": None, "val": c["val"], "ch": "obj"} for m in c["ms"]]
    qs += [{"ms": [c["ms"][i] for i in pm], "dflt": c["dflt"], "val": c["val"], "ch": "obj"} for pm in c["perms"]]
    return qs


def observe(cases):
    n = 16
    chunks = [[] for _ in range(n)]
    for i, c in enumerate(cases):
        chunks[i % n].append(i)
    payloads = []
    for ch in chunks:
        qs, strs, groups, xqs = [], set(), [], []
        for i in ch:
            c = cases[i]
            if c["kind"] == "x":
                xqs.append(x_queries(c))
                strings_of(c["val"], strs)
                continue
            if c["kind"] == "group":
                groups.append({"fields": c["fields"], "val": c["val"], "style": c["style"]})
                continue
            if c["kind"] == "nested":
                qs.append({"ty": ["dict", "int" if c["ik"] else "str", c["ty"]], "val": c["val"], "ch": "nested", "key": c["key"]})
                strings_of(c["val"], strs)
                continue
            qs += case_queries(c)
            strings_of(c["val"], strs)
        payloads.append({"queries": qs, "strings": sorted(strs), "groups": groups, "enums": ENUMS, "xqueries": xqs, "pred": PRED})
    results = run_impl_parallel("c02_run.py", payloads, timeout=1500)
    out = [None] * len(cases)
    for ch, res in zip(chunks, results):
        k = g = x = 0
        for i in ch:
            c = cases[i]
            if c["kind"] == "x":
                xo = res["xobs"][x]
                x += 1
                strs = set()
                strings_of(c["val"], strs)
                n = len(c["ms"])
                o = xo["obs"]
                if any(y[0] == "skip" for y in o):
                    out[i] = {"skip": next(y[1] for y in o if y[0] == "skip"), "obs": ["skip"]}
                    continue
                rec, seen_rec = [], set()
                for name, before, after in xo["rec"]:
                    kk = json.dumps([name, before])
                    if kk not in seen_rec:
                        seen_rec.add(kk)
                        rec.append([name, before, after])
                        strings_of(before, strs)
                out[i] = {"obs": o[0], "parts": [y[0] == "ok" for y in o[1:1 + n]] if n >= 2 else [],
                          "perms": [y[0] == "ok" for y in o[1 + (n if n >= 2 else 0):]], "rec": rec,
                          "oracle": oracle_closure(strs, res["oracle"])}
                continue
            if c["kind"] == "group":
                out[i] = {"obs": res["groups"][g]}
                if res["groups"][g][0] == "skip":
                    out[i] = {"skip": res["groups"][g][1], "obs": ["skip"]}
                g += 1
                continue
            if c["kind"] == "nested":
                o = res["obs"][k]
                k += 1
                strs = set()
                strings_of(c["val"], strs)
                out[i] = {"skip": o[1], "obs": ["skip"]} if o[0] == "skip" else {"obs": o, "oracle": oracle_closure(strs, res["oracle"])}
                continue
            nq = 1 + len(c["perms"]) + len(c["parts"] or [])
            obs = res["obs"][k:k + nq]
            k += nq
            strs = set()
            strings_of(c["val"], strs)
            if obs[0][0] == "skip":
                out[i] = {"skip": obs[0][1], "obs": ["skip"]}
                continue
            po = obs[1:1 + len(c["perms"])]
            ro = obs[1 + len(c["perms"]):]
            # a side query the harness could not build is dropped (the item observations only as a whole: they are positional)
            perms = [[p, o[0] == "ok"] for p, o in zip(c["perms"], po) if o[0] != "skip"]
            parts = None
            if c["parts"] is not None and not any(o[0] == "skip" for o in ro):
                parts = [[pt, pv, o[0] == "ok"] for (pt, pv), o in zip(c["parts"], ro)]
            out[i] = {"obs": obs[0], "perms": perms, "parts": parts,
                      "oracle": oracle_closure(strs, res["oracle"])}
    return out


# -----------------------------------------------------------------------------------------------------------------
# Gallina
# -----------------------------------------------------------------------------------------------------------------
def g_float(r):
    if r in ("inf", "-inf"):
        return "FInf %s" % g_bool(r.startswith("-"))
    if r == "nan":
        return "FNan"
    d = decimal.Decimal(r)
    sign, digits, exp = d.as_tuple()
    m = int("".join(map(str, digits)))
    if m == 0:
        return "FFin 0 0"
    while m % 10 == 0:
        m //= 10
        exp += 1
    return "FFin %s %s" % (g_Z(-m if sign else m), g_Z(exp))


def g_Zbig(n):
    """long literals are slow to read (number notation): trailing zeros as a power of ten"""
    if abs(n) < 10 ** 40:
        return g_Z(n)
    k = 0
    while n % 10 == 0:
        n //= 10
        k += 1
    return "(%s * 10 ^ %d)%%Z" % (g_Z(n), k) if abs(n) < 10 ** 40 else g_Z(n * 10 ** k)


def g_val(v):
    k = v[0]
    if k == "none":
        return "VNone"
    if k == "bool":
        return "VBool %s" % g_bool(v[1])
    if k == "int":
        return "VInt %s" % g_Zbig(int(v[1]))
    if k == "float":
        return "VFloat (%s)" % g_float(v[1])
    if k == "str":
        return "VStr %s" % g_str(v[1])
    if k in ("list", "tuple", "set"):
        return "%s %s" % ({"list": "VList", "tuple": "VTuple", "set": "VSet"}[k], g_list(["(%s)" % g_val(x) for x in v[1]], "val"))
    if k == "dict":
        return "VDict %s" % g_list([g_pair(g_val(a), g_val(b)) for a, b in v[1]], "(val * val)")
    if k == "enum":
        return "VEnum %s %s" % (g_str(v[1]), g_str(v[2]))
    if k == "opaque":
        return "VOpaque %s %s" % (g_str(v[1]), g_str(v[2]))
    raise ValueError(k)


def g_lit(v):
    return {"int": lambda: "LInt %s" % g_Z(int(v[1])), "str": lambda: "LStr %s" % g_str(v[1]),
            "bool": lambda: "LBool %s" % g_bool(v[1]), "none": lambda: "LNone"}[v[0]]()


def g_ty(t):
    k = t[0]
    if k == "ann":          # Annotated[T, 'meta']: the model (and the spec) see T
        return g_ty(t[1])
    if k in ("str", "int", "float", "bool", "none", "any"):
        return {"str": "TStr", "int": "TInt", "float": "TFloat", "bool": "TBool", "none": "TNone", "any": "TAny"}[k]
    if k == "lit":
        return "TLit %s" % g_list(["(%s)" % g_lit(x) for x in t[1]], "lit")
    if k == "enum":
        return "TEnum %s %s" % (g_str(t[1]), g_list([g_str(m) for m in t[2]], "str"))
    if k == "union":
        return "TUnion %s" % g_list(["(%s)" % g_ty(x) for x in t[1]], "ty")
    if k in ("list", "tuplevar", "set"):
        return "%s (%s)" % ({"list": "TList", "tuplevar": "TTupleVar", "set": "TSet"}[k], g_ty(t[1]))
    if k == "dict":
        return "TDict %s (%s)" % (g_bool(t[1] == "int"), g_ty(t[2]))
    if k == "tuple":
        return "TTuple %s" % g_list(["(%s)" % g_ty(x) for x in t[1]], "ty")
    raise ValueError(k)


def g_lres(o):
    if o == ["yamlerr"]:
        return "LYamlErr"
    if o == ["valerr"]:
        return "LValErr"
    return "LVal (%s)" % g_val(o)


def g_obs(o):
    if o[0] == "ok":
        return "Accepted (%s)" % g_val(o[1])
    return "Rejected" if o[0] == "rej" else "Crashed"


def pred_table(case, obs):
    """the declared predicate of every flagged restricted-string member on every text of the case (input and result)"""
    names = [m[1] for m in case["ms"] if m[0] == "opq" and m[1] in PRED]
    nums = [m[1] for m in case["ms"] if m[0] == "opq" and m[1] in NUMPRED]
    texts, ntexts = set(), set()
    if case["val"][0] == "str":
        texts.add(case["val"][1])
        import re
        if re.match(r"^-?\d+(\.\d+)?$", case["val"][1]) and len(case["val"][1]) < 300:   # a plain decimal literal
            ntexts.add(case["val"][1])
    if case["val"][0] == "int" and len(case["val"][1]) < 300:
        ntexts.add(case["val"][1])
    o = obs["obs"]
    if o[0] == "ok" and o[1][0] == "opaque":
        texts.add(o[1][2])
        ntexts.add(o[1][2])
    if o[0] == "ok" and o[1][0] == "str":
        texts.add(o[1][1])
    return ([[n, t, pred_matches(n, t)] for n in names for t in sorted(texts)]
            + [[n, t, num_pred(n, t)] for n in nums for t in sorted(ntexts)])


def tdopt_table(case):
    return [[m[1], f] for m in case["ms"] if m[0] == "td" and len(m) > 3 for f in m[3]]


def g_member(m):
    if m[0] == "td":
        return "MTd %s %s" % (g_str(m[1]), g_list([g_pair(g_str(f), "(%s)" % g_ty(t)) for f, t in m[2]], "(str * ty)"))
    return "MOpq %s" % g_str(m[1]) if m[0] == "opq" else "MTy (%s)" % g_ty(m)


SKIP_TERM = "GroupCase (@nil (str * ty)) VNone (Accepted VNone)"   # a case the harness could not build: judged trivially fine


def term(case, obs):
    if "skip" in obs:
        return SKIP_TERM
    if case["kind"] == "x":
        orc = g_list([g_pair(g_str(s), g_lres(o)) for s, o in obs["oracle"].items()], "(str * lres)")
        tbl = g_list(["(%s, %s, %s)" % (g_str(n), g_val(b), ("AErr ErrValue" if a[1] == "value" else "AErr ErrType") if a[0] == "err" else "AOk (%s)" % g_val(a))
                      for n, b, a in obs["rec"]], "(str * val * ares)")
        perms = g_list([g_pair(g_list(["%d%%nat" % i for i in pm], "nat"), g_bool(a)) for pm, a in zip(case["perms"], obs["perms"])],
                       "(list nat * bool)")
        pr = g_list(["(%s, %s, %s)" % (g_str(n), g_str(t), g_bool(b)) for n, t, b in pred_table(case, obs)], "(str * str * bool)")
        tdo = g_list([g_pair(g_str(n), g_str(f)) for n, f in tdopt_table(case)], "(str * str)")
        return ("XCase {| x_ms := %s; x_dflt := %s; x_in := %s; x_oracle := %s; x_opq := %s; x_pred := %s; x_tdopt := %s; x_obs := %s; "
                "x_parts := %s; x_perms := %s |}" % (g_list([g_member(m) for m in case["ms"]], "member"),
                                      g_opt(None if case["dflt"] is None else "(%s)" % g_val(case["dflt"])), g_val(case["val"]), orc, tbl, pr, tdo,
                                      g_obs(obs["obs"]), g_list([g_bool(b) for b in obs["parts"]], "bool"), perms))
    if case["kind"] == "nested":
        orc = g_list([g_pair(g_str(s), g_lres(o)) for s, o in obs["oracle"].items()], "(str * lres)")
        return "NestedCase %s (%s) %s %s %s (%s)" % (g_bool(case["ik"]), g_ty(case["ty"]), g_str(case["key"]), g_str(case["val"][1]), orc,
                                                     g_obs(obs["obs"]))
    if case["kind"] == "group":
        fs = g_list([g_pair(g_str(n), "(%s)" % g_ty(t)) for n, t in case["fields"]], "(str * ty)")
        return "GroupCase %s (%s) (%s)" % (fs, g_val(case["val"]), g_obs(obs["obs"]))
    orc = g_list([g_pair(g_str(s), g_lres(o)) for s, o in obs["oracle"].items()], "(str * lres)")
    perms = g_list(["{| s_ty := %s; s_in := %s; s_acc := %s |}" % (g_ty(p), g_val(case["val"]), g_bool(a))
                    for p, a in obs["perms"]], "sub")
    parts = None
    if obs["parts"] is not None:
        parts = g_list(["{| s_ty := %s; s_in := %s; s_acc := %s |}" % (g_ty(pt), g_val(pv), g_bool(a))
                        for pt, pv, a in obs["parts"]], "sub")
    return ("TyCase {| c_ty := %s; c_in := %s; c_oracle := %s; c_obs := %s; c_parts := %s; c_perms := %s |}"
            % (g_ty(case["ty"]), g_val(case["val"]), orc, g_obs(obs["obs"]), g_opt(parts), perms))


# -----------------------------------------------------------------------------------------------------------------
# evidence helpers
# -----------------------------------------------------------------------------------------------------------------
def nontrivial_key(case, obs):
    if "skip" in obs:
        return None
    if case["kind"] == "x":
        return json.dumps(["x", case["ms"], case["dflt"], case["val"], case["ch"]])
    if case["kind"] == "group":
        return json.dumps(["group", case["fields"], case["val"], case["style"]])
    if case["kind"] == "nested":
        return json.dumps(["nested", case["ik"], case["ty"], case["key"], case["val"]])
    if case["ty"][0] in ("str", "int", "float", "bool", "none") and case["val"][0] == case["ty"][0]:
        return None
    return json.dumps([case["ty"], case["val"], case["ch"], case.get("before") or []])


def ty_depth(t):
    k = t[0]
    if k == "ann":
        return ty_depth(t[1])
    if k in ("union", "tuple"):
        return 1 + max([ty_depth(x) for x in t[1]] + [0])
    if k in ("list", "tuplevar", "set"):
        return 1 + ty_depth(t[1])
    if k == "dict":
        return 1 + ty_depth(t[2])
    return 0


def category(case, obs):
    if "skip" in obs:
        return "NOT EVALUATED (the harness could not build the hint or the input)"
    if case["kind"] == "x":
        return "%s/%s/%s input/%s" % ("TypedDict member" if any(m[0] == "td" for m in case["ms"]) else
                                      "restricted string with regex flags" if any(m[0] == "opq" and m[1] in PRED for m in case["ms"]) else
                                      "Union with registered member" if any(m[0] == "opq" for m in case["ms"]) else "plain hint",
                                      "default" if case["dflt"] is not None else "no default",
                                      "text" if case["val"][0] == "str" else "object", obs["obs"][0])
    if case["kind"] == "group":
        return "group key/%s/%s" % (case["val"][0], obs["obs"][0])
    if case["kind"] == "nested":
        return "nested option --k.<key>=<text>/Dict[%s, %s depth %d]/%s" % ("int" if case["ik"] else "str", case["ty"][0], ty_depth(case["ty"]),
                                                                         obs["obs"][0])
    if has_ann(case["ty"]):
        return "Annotated[...] inside the hint/%s/%s input/%s" % (case["ty"][0], "text" if case["val"][0] == "str" else "object", obs["obs"][0])
    if case.get("before"):
        return "after parses under a confusable hint/%s/%s" % (case["ty"][0], obs["obs"][0])
    return "%s depth %d/%s input/%s" % (case["ty"][0], ty_depth(case["ty"]),
                                        "text" if case["val"][0] == "str" else "object", obs["obs"][0])


def show_ty(t):
    k = t[0]
    if k == "ann":
        return "Annotated[%s, 'meta']" % show_ty(t[1])
    if k in ("str", "int", "float", "bool", "any"):
        return {"any": "Any"}.get(k, k)
    if k == "none":
        return "None"
    if k == "lit":
        return "Literal[%s]" % ", ".join(show_val(x) for x in t[1])
    if k == "enum":
        return "%s(Enum: %s)" % (t[1], ",".join(t[2]))
    if k == "union":
        return "Union[%s]" % ", ".join(show_ty(x) for x in t[1])
    if k in ("list", "set"):
        return "%s[%s]" % (k.capitalize(), show_ty(t[1]))
    if k == "tuplevar":
        return "Tuple[%s, ...]" % show_ty(t[1])
    if k == "dict":
        return "Dict[%s, %s]" % (t[1], show_ty(t[2]))
    return "Tuple[%s]" % ", ".join(show_ty(x) for x in t[1])


def show_val(v):
    k = v[0]
    if k == "none":
        return "None"
    if k == "bool":
        return str(bool(v[1]))
    if k == "int":
        return v[1]
    if k == "float":
        return "float(%r)" % v[1]
    if k == "str":
        return repr(v[1])
    if k == "list":
        return "[%s]" % ", ".join(show_val(x) for x in v[1])
    if k == "tuple":
        return "(%s,)" % ", ".join(show_val(x) for x in v[1])
    if k == "set":
        return "{%s}" % ", ".join(show_val(x) for x in v[1]) if v[1] else "set()"
    if k == "dict":
        return "{%s}" % ", ".join("%s: %s" % (show_val(a), show_val(b)) for a, b in v[1])
    if k == "enum":
        return "%s.%s" % (v[1], v[2])
    return "<%s %s>" % (v[1], v[2])


def show_obs(o):
    return "accepted -> %s" % show_val(o[1]) if o[0] == "ok" else ("rejected (ArgumentError)" if o[0] == "rej" else "CRASH " + o[1])


def show_member(m):
    if m[0] == "td":
        opt = m[3] if len(m) > 3 else []
        return "%s(TypedDict%s: %s)" % (m[1], ", total=False" if len(m) > 4 else "", ", ".join(
            "%s: %s" % (f, ("NotRequired[%s]" if f in opt and len(m) <= 4 else "Required[%s]" if f not in opt and len(m) > 4 else "%s") % show_ty(t))
            for f, t in m[2]))
    if m[0] == "opq" and m[1] in PRED:
        return "%s(restricted_string_type(re.compile(%r, %s)))" % (m[1], PRED[m[1]][0], "|".join(PRED[m[1]][1]) or "0")
    return m[1] if m[0] == "opq" else show_ty(m)


def describe(case, obs):
    if "skip" in obs:
        return {"not evaluated": obs["skip"], "case": json.dumps(case)[:300]}
    if case["kind"] == "x":
        ms = case["ms"]
        hint = show_member(ms[0]) if len(ms) == 1 else "Union[%s]" % ", ".join(show_member(m) for m in ms)
        call = ("parse_args(['--k=' + %r])" % case["val"][1]) if case["ch"] == "argv" else "parse_object({'k': %s})" % show_val(case["val"])[:80]
        d = {"type_hint": hint, "declared default": None if case["dflt"] is None else show_val(case["dflt"]), "call": call,
             "observed": show_obs(obs["obs"])[:200]}
        if len(ms) >= 2:
            d["each member alone"] = ["%s: %s" % (show_member(m), "accepted" if a else "rejected") for m, a in zip(ms, obs["parts"])]
            d["members permuted"] = ["Union[%s]: %s" % (", ".join(show_member(ms[i]) for i in pm), "accepted" if a else "rejected")
                                     for pm, a in zip(case["perms"], obs["perms"])]
        d["adapt_typehints(value, registered member) observed"] = ["%s <- %s: %s" % (n, show_val(b)[:40], ("raised " + a[1].capitalize() + "Error-like") if a[0] == "err" else show_val(a)[:40])
                                                                  for n, b, a in obs["rec"]]
        return d
    if case["kind"] == "group":
        return {"parser": "add_argument('--g.%s', type=...) for %s%s" % ("/".join(n for n, _ in case["fields"]),
                                                                      ", ".join("%s: %s" % (n, show_ty(t)) for n, t in case["fields"]),
                                                                      " inside add_argument_group" if case["style"] == "group" else ""),
                "call": "parse_object({'g': %s})" % show_val(case["val"]), "observed": show_obs(obs["obs"])}
    if case["kind"] == "nested":
        return {"type_hint": "Dict[%s, %s]" % ("int" if case["ik"] else "str", show_ty(case["ty"])),
                "call": "parse_args([%r])" % ("--k." + case["key"] + "=" + case["val"][1]), "observed": show_obs(obs["obs"])}
    call = ("parse_args(['--k=' + %r])" % case["val"][1]) if case["ch"] == "argv" else "parse_object({'k': %s})" % show_val(case["val"])
    d = {"type_hint": show_ty(case["ty"]), "call": call, "observed": show_obs(obs["obs"])}
    if case.get("before"):
        d["earlier in the same process (each on its own fresh parser)"] = [
            "type %s: parse_object({'k': %s})" % (show_ty(b["ty"]), show_val(b["val"])) for b in case["before"]]
    if obs["perms"]:
        d["same input, Union members permuted"] = ["%s: %s" % (show_ty(p), "accepted" if a else "rejected") for p, a in obs["perms"]]
    if obs["parts"]:
        d["parts (member or item type, input, accepted stand-alone)"] = ["%s <- %s: %s" % (show_ty(pt), show_val(pv), "accepted" if a else "rejected")
                                                                         for pt, pv, a in obs["parts"]]
    return d


def shrink(case):
    if case["kind"] in ("group", "nested"):
        return
    if case["kind"] == "ty" and has_ann(case["ty"]):      # is the Annotated wrapper needed at all?
        yield dict(case, ty=strip_ann(case["ty"]))
        return
    if case["kind"] == "x":
        ms = case["ms"]
        if len(ms) > 2:
            for i in range(len(ms)):
                ms2 = ms[:i] + ms[i + 1:]
                yield dict(case, ms=ms2, perms=[list(pm) for pm in itertools.permutations(range(len(ms2))) if list(pm) != list(range(len(ms2)))])
        if case["perms"]:
            yield dict(case, perms=[])
        if case["dflt"] is not None:
            yield dict(case, dflt=None)
        return
    import random
    rng = random.Random(0)
    t, v = case["ty"], case["val"]
    if case.get("before"):               # is the history needed at all?  then a shorter one
        yield dict(case, before=[])
        if len(case["before"]) > 1:
            for i in range(len(case["before"])):
                yield dict(case, before=case["before"][:i] + case["before"][i + 1:])

    def mk(t2, v2):
        if valid_val(v2):
            c = make_case(rng, t2, v2, 6)
            c["ch"] = case["ch"] if v2[0] == "str" else "obj"
            return c
        return None
    # descend into an item / a member
    for pt, pv in (case["parts"] or []):
        c = mk(pt, pv)
        if c:
            yield c
    # fewer items
    if v[0] in ("list", "tuple", "set") and t[0] != "tuple":
        for i in range(len(v[1])):
            c = mk(t, [v[0], v[1][:i] + v[1][i + 1:]])
            if c:
                yield c
    if v[0] == "dict":
        for i in range(len(v[1])):
            c = mk(t, ["dict", v[1][:i] + v[1][i + 1:]])
            if c:
                yield c
    # fewer Union members
    if t[0] == "union" and len(t[1]) > 2:
        for i in range(len(t[1])):
            c = mk(mk_union(t[1][:i] + t[1][i + 1:]), v)
            if c:
                yield c
    # no side observations
    if case["perms"] or case["parts"]:
        yield dict(case, perms=[], parts=None)


META = {
    "level_text": "Theorems (coq/Properties/C02.v) for every type hint of the modelled grammar (str, int, float, bool, None, Any, "
                  "Literal, Enum, Union, List, Dict[str|int,.], Tuple[..], Tuple[.,...], Set; unbounded nesting), every input (text or "
                  "Python object) and every YAML loader. For the repaired model of ActionTypeHint._check_type + the re-check of "
                  "validate (the pinned tree plus the one unapplied dict-key repair): C02_sound_repaired (accepted => exact declared shape: Python kind at every "
                  "level, arity, strict Literal/Enum membership, key kinds), C02_never_rejects_right_shape_repaired, "
                  "C02_recheck_passes_repaired, C02_union_order_independent_repaired (all inputs), C02_union_iff_some_member_repaired, "
                  "C02_list/tuple/dict/set_iff_*_repaired (Python objects). For the model of the pinned tree on every input inside the "
                  "executable guard (no recorded defect changes the outcome for that input): C02_sound, C02_never_rejects_right_shape, "
                  "C02_union_order_independent_parse, C02_union_iff_some_member_parse, C02_list_iff_items_parse, C02_set_iff_items_parse, "
                  "C02_text_of_right_shape_accepted (command-line / config TEXT that the loader reads as a non-str value of the hint's "
                  "shape is accepted; repaired model: C02_text_of_right_shape_accepted_repaired, every hint, text and loader — the judge's "
                  "text_right_shape is the premise text_shaped of these theorems). For the pinned tree "
                  "unconditionally, at the level of adapt_typehints / the first pass: C02_list/tuplevar/tuple/dict_iff_*, "
                  "C02_union_iff_some_member, C02_union_order_independent, C02_first_pass_union_order_independent. Eight `_refuted` "
                  "witnesses show where the pinned tree breaks the full statements. Correspondence: real parser vs model on generated "
                  "(hint, input) pairs incl. the permutations of every Union node and every item/member stand-alone; soundness, "
                  "never-reject-a-right-shaped-value and compositionality of the OBSERVED behaviour are judged inside Coq "
                  "against Spec/Conforms.v.",
    "level_note": "Only exercised by the correspondence, not proved: item = stand-alone acceptance for str items; Dict[int,.] "
                  "compositionality; the group-key model (Spec/C02Group.v: witness and per-case judgement only); the nested option "
                  "--k.<key>=<text> (Model/C02Ext.v parse_key_nested: model agreement, soundness and text right shape per case); "
                  "Annotated[T, meta] = T (tie only). The guard is semantic "
                  "(pinned model = repaired model on this input), evaluated per case by the judge. Restricted types and TypedDict "
                  "classes are OBSERVED Union members judged against their declared predicate / fields (restricted types in depth: C20), "
                  "paths by C19; Callable, Type[...], pydantic validators, dataclass/subclass hints are not modelled; an int beyond "
                  "the float range given to float (OverflowError -> ValueError) is outside the model. Trusted: Coq "
                  "kernel/VM, the hand-written models (tied per case), PyYAML on structured text (observed oracle), the runner's "
                  "canonicalisation. No axioms.",
    "technique": "Rocq proofs by structural induction over the nested type grammar (custom induction principles for ty and val), "
                 "invariants of the Union trial loop and of stable sorting, soundness + completeness => the re-check is redundant; "
                 "text completeness by a second induction over the hint for texts the parser keeps as text (leaf / Literal-kinds / Any re-load); "
                 "executable semantic guard; correspondence and spec verdicts by vm_compute",
}


def search(rng, tier, broken):
    """a proof or the tie broke without a spec failure among the regular cases: look for a failing input in a fresh
    batch (other seed) of the quick size; only failures that are not listed findings count"""
    from tie import framework as F
    import sys

    mod = sys.modules[__name__]
    known = F.load_known_findings(PROP)
    cases = generate(rng, "quick")
    obs = observe(cases)
    bm, bi, bo = F.judge_cases(mod, cases, obs, tag="x")
    bad = sorted(set(bi) | {i for i, k in bo if FINDING_CLASSES.get(k) not in known})
    if not bad:
        return None
    i = bad[0]
    return {"case": cases[i], "observed": obs[i], "explain": describe(cases[i], obs[i])}

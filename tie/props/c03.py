"""C03 — every parse failure surfaces as ArgumentError or exit status 2, nothing else.

Model  : exception-flow IR of the parse entry points regenerated from the source (tie/translate_exn_ir.py ->
         coq/Gen/C03ExnIR.v), semantics + escape analysis in coq/Model/C03ExnFlow.v.
Theorem: soundness of the analysis for all IR programs; on the regenerated IR, for all executions of the five parse
         methods in both modes, an escaping exception is the channel of the mode or comes from a listed finding site.
Tie    : structured fuzz of the real parse methods; every observed escape must be a member of the escape set the
         analysis computes (site level: deepest jsonargparse frame + class), and is judged against Spec/C03ChannelSpec.
"""
import copy
import json
import os

from tie import c03_tables as T
from tie import framework
from tie.framework import TieBroken, g_N, g_bool, g_list, g_opt, run_impl_parallel

PROP = "C03"
IMPORTS = ("From JV Require Import Lib.Base Model.C03ExnFlow Spec.C03ChannelSpec Gen.C03ExnIR Model.C03Instance Model.C03Cycle Spec.C03CycleSpec Gen.C03Cycle Corr.C03Judge.\n"
           "Open Scope N_scope.")
RULE = ("one case = (parser shape, exit_on_error, parse method, input[, up to two earlier calls on the same parser object]) — or one call of yaml_load on a text with anchors and aliases (200 quick / 4000 thorough texts from the alias grammar: cycles and sharing through lists, mappings and the tuples of !!pairs/!!omap), whose loaded value is handed to Coq as a heap and judged against the model of the cycle check. Nine parser shapes (basic typed options incl. nested "
        "keys/Any/Union/Enum; subclass types incl. Type[]/Callable/List/Dict of classes; dataclass types incl. List/Dict/nested; "
        "required subcommands with their own --cfg; plain argparse type= callables/choices/nargs/FileType; Path types + "
        "ActionParser; the basic shape again with parser_mode='json'; the types jsonargparse registers itself: Decimal, timedelta, datetime, complex, UUID, Path, Pattern, bytes, range; options declared with enable_path=True — list, dict, subclass, dataclass, Optional[str], Union[int, str] — plus a subclass option with a class_path default), parse_args also without a list (sys.argv), with non-str items and with namespace=; sub-command parsers and the ActionParser parser built with the root's exit_on_error, with the constructor default or with the opposite value, optionally with a default config file. Inputs from a grammar: option names known / unknown / malformed "
        "(dotted, empty segments, '+' suffix, sub-keys of subclass/dict/dataclass arguments, .help, class_path/init_args/"
        "dict_kwargs, the reserved bookkeeping keys __default_config__/__path__/__orig__) x values well- and ill-formed for the declared type (broken JSON/YAML, anchors and self-referential "
        "aliases, tags, NUL bytes, non-importable / non-class / malformed import paths, wrong-typed class_path/init_args, "
        "missing files, directories, undecodable files, /proc/self/mem); the same material as argv lists, config text, config "
        "objects (dict/Namespace with non-JSON values), environment mappings and config paths; both exit_on_error modes for "
        "every input. A fixed list of directed cases (one per known finding and per channel) is always included. "
        "non-trivial = the call did not simply return; distinct = distinct (shape, mode, method, input)")
TRUSTED = [
    "Coq 8.16.1 kernel + vm_compute",
    "tie/translate_exn_ir.py (Python ast -> exception-flow IR; fail-closed) and the committed tables tie/c03_tables.py "
    "(summaries of external callees, boundary functions, assumed tests, name-based call resolution) — tied by the site-level "
    "membership check of every observed escape",
    "tie/impl/c03_run.py (observation of the real parse methods: exception class, exit status, stderr shape, traceback frames), "
    "tie/impl/c03_live_classes.py (live subclass relation) and the Gallina printer",
    "CPython's exception semantics as rendered by the IR semantics `exec` (try/except/else/finally, re-raise, first matching handler)",
]
ASSUMPTIONS = [
    "only explicit raises, documented failure classes of external callees (tables) and handler structure are in the theorem; "
    "exceptions Python raises implicitly at arbitrary expressions (AttributeError/TypeError/KeyError/IndexError/RecursionError/"
    "MemoryError) are covered only by the fuzz, except the two observed ones listed in IMPLICIT_SITES",
    "termination is not in the theorem (the fuzz turns a call exceeding 8 s into the observation Hung)",
    "parser_mode='yaml' (and 'json' for one parser shape, judged against the yaml-mode IR: JSONDecodeError takes the place of YAMLError); no jsonnet/toml/omegaconf loaders (toml shows the same integer-digit-limit leak as json did: notes/C03.md), URL/fsspec paths, completions, deprecated error_handler, "
    "JSONARGPARSE_DEBUG unset, stdin closed; functions behind get_class_parser (signature inspection) are summarised (BOUNDARY)",
    "parsers nested below the root (sub-command parsers, ActionParser) may be built with any exit_on_error; what is judged is the channel of the ROOT parser whose parse method is called",
    "an argv item that is not a str and a config object that is not a mapping must be refused through the channel (both are in the generated space)",
    "the cycle-check theorem (C03_cycle_check_sound) is about the value as a heap of dict/list/tuple/other nodes: that PyYAML builds exactly these containers, and that the walks of the parse path follow only the items of dicts, lists and tuples, is trusted (tied by the yaml_load cases: accept/refuse of the real function against the model, per text)",
    "user code run during parsing (registered deserialisers, link compute functions, plain type= callables) keeps to its documented "
    "failure classes",
]
EXHAUSTIVE = {"quick": False, "thorough": False}
FINDING_CLASSES = dict(T.FINDING_KEYS)
META = {
    "level_text": "proof (partial): analysis soundness for all IR programs + single-channel theorem over all executions of the regenerated IR, guarded by 30 finding site classes; the alias-cycle check of yaml_load proved for all heaps to leave only walkable values (guard: tuples descended or absent); other implicit runtime exceptions and termination by correspondence only",
    "level_note": (
        "Proved in Coq: (1) C03_analysis_sound — for every exception-flow IR program, table passing the executable post-fixpoint "
        "check, mode and function, every raise site that an execution of the nondeterministic big-step semantics lets escape is in "
        "the computed escape set (induction on derivations, mutual with the handler relation); (2) C03_single_channel — on the IR "
        "regenerated from jsonargparse/*.py at every run (about 165 functions reachable by name from the five parse methods, about 220 raise "
        "sites, live subclass relation), for parse_args/parse_object/parse_string/parse_env/parse_path, both exit_on_error modes and "
        "ALL executions: an escaping exception reads as the documented channel (ArgumentError / exit 2 / exit 0) unless raised at a "
        "listed finding site; (3) C03_error_is_the_channel — ArgumentParser.error never returns and raises exactly ArgumentError "
        "resp. SystemExit(2); (4) per finding a machine-checked execution witness (oracle-driven interpreter proved to follow the "
        "semantics) that the unguarded statement is false on the current tree, in a form that keeps checking once the site no "
        "longer escapes; (5) C03_cycle_check_sound / C03_cycle_check_meets_spec — the one implicit-exception family that is inside a theorem: "
        "for ALL heaps (loaded YAML values with sharing and alias cycles), roots and fuels, a value that the model of "
        "_has_reference_cycle (identity test against the ancestors, short-circuit any; which containers it descends is regenerated "
        "from its source) accepts can be walked through mappings, lists and tuples to any depth without re-entering a node, i.e. no "
        "recursive walk of the parse path over it is deeper than the number of its nodes — provided the check descends tuples or the "
        "value holds none (guard cyc_guard; outside it C03_cycle_check_pairs_refuted: the heap of `&x !!pairs [k: *x]` is accepted and "
        "not walkable, finding yaml-alias-cycle-through-pairs). Only exercised by the correspondence: the other implicit exceptions (AttributeError, RecursionError, ... at arbitrary "
        "expressions), termination, the stderr shape of the exit-2 channel, everything behind the BOUNDARY summaries and the "
        "name-based call resolution. Trusted: the ast->IR translator and its committed tables, tied by checking at site level that "
        "every escape observed on the real code is in the model's escape set."),
    "technique": "abstract interpretation (exception escape analysis) proved sound once in Coq against a nondeterministic big-step semantics; instance discharged by vm_compute on an IR regenerated from the source; executable witnesses via a verified oracle interpreter; site-level structured fuzz as the tie; for the alias-cycle check a Gallina model of the function over heaps, proved by induction on its fuel against an executable walkability spec, tied per text by handing the loaded value to Coq as a heap",
}

ENTRIES = ["parse_args", "parse_object", "parse_string", "parse_env", "parse_path"]
SHAPES = ["basic", "classes", "dataclass", "subcommands", "plain", "paths", "json", "registered", "subcommands", "subpaths"]

_meta_cache = {}


def ir_meta():
    path = os.path.join(framework.COQ, "Gen", "C03ExnIR.json")
    st = os.stat(path)
    key = (st.st_mtime_ns, st.st_size)
    if _meta_cache.get("key") != key:
        m = json.load(open(path))
        m["cidx"] = {c: i for i, c in enumerate(m["classes"])}
        by_fn = {}
        for i, s in enumerate(m["sites"]):
            by_fn.setdefault((s["fn"], s["cls"]), []).append((s["line"], i))
        m["by_fn"] = by_fn
        _meta_cache.update(key=key, meta=m)
    return _meta_cache["meta"]


# ---------------------------------------------------------------------------------------------------------------------
# translate: regenerate the IR (fail closed), build the judge early so that a proof that stops checking does not
# take the judge away
# ---------------------------------------------------------------------------------------------------------------------
def translate():
    from tie import translate_exn_ir as X

    implicit = validate_implicit_sites()
    prog = X.translate(implicit_sites=implicit)
    cyc = translate_cycle_check()
    ok, log, _ = framework.build(["Corr/C03Judge.vo"])
    if not ok:
        raise TieBroken("C03 judge does not build on the regenerated IR: %s" % log[-600:])
    if cyc.get("unrecognised"):
        raise TieBroken("_loaders_dumpers._has_reference_cycle is not of the modelled shape (Model/C03Cycle.v): %s" % cyc["unrecognised"])
    return {
        "cycle_check": cyc,
        "translate_exn_ir": "%d functions, %d raise sites, %d exception classes, %d Jacobi rounds; package has %d functions"
                            % (len(prog["functions"]), len(prog["sites"]), len(prog["classes"]), prog["rounds"], prog["n_package_functions"]),
        "implicit_sites_reproduced": [s[0] + ":" + s[1] for s in implicit],
        "finding_witnesses": prog["witnesses"],
        "tables_used": prog["tables_used"],
    }


_CYCLE_TEMPLATE = ("def _has_reference_cycle(value, parents=()) -> bool:\n"
                   "    if not isinstance(value, (%s)):\n"
                   "        return False\n"
                   "    if any((value is p for p in parents)):\n"
                   "        return True\n"
                   "    items = value.values() if isinstance(value, dict) else value\n"
                   "    return any((_has_reference_cycle(v, parents + (value,)) for v in items))")


def translate_cycle_check():
    """Gen/C03Cycle.v: which containers the cycle check of yaml_load descends, read from the source of _has_reference_cycle. The
    function must have the shape Model/C03Cycle.has_cycle renders (identity test against the ancestors, short-circuit any over the
    values of a dict / the items of a sequence); anything else is refused (fail closed) after writing the flag the isinstance test
    suggests, so that the correspondence still runs and finds the input."""
    import ast

    path = os.path.join(framework.REPO, "jsonargparse", "_loaders_dumpers.py")
    tree = ast.parse(open(path).read())
    fn = next((n for n in tree.body if isinstance(n, ast.FunctionDef) and n.name == "_has_reference_cycle"), None)
    text = ast.unparse(fn) if fn is not None else ""
    flag, bad = False, None
    if text == _CYCLE_TEMPLATE % "dict, list":
        flag = False
    elif text == _CYCLE_TEMPLATE % "dict, list, tuple":
        flag = True
    else:
        flag = "tuple" in text.split("return False")[0]
        bad = "function missing" if fn is None else text[:400]
    out = os.path.join(framework.COQ, "Gen", "C03Cycle.v")
    body = ("(* GENERATED by tie/props/c03.py translate_cycle_check from jsonargparse/_loaders_dumpers.py: does\n"
            "   _has_reference_cycle descend tuples (isinstance(value, (dict, list, tuple)))? *)\n"
            "Definition cyc_tuples : bool := %s.\n" % ("true" if flag else "false"))
    if not os.path.exists(out) or open(out).read() != body:
        with open(out, "w") as f:
            f.write(body)
    return {"descends_tuples": bool(flag), "unrecognised": bad}


def validate_implicit_sites():
    """IMPLICIT_SITES are observed facts: each carries a probe; the site is part of the model iff the probe still
    raises that class with that function on the traceback."""
    probes = [dict(p, x=False) for (_, _, _, p) in T.IMPLICIT_SITES]
    obs = observe(probes) if probes else []
    kept = []
    for (fnq, cls, why, _), o in zip(T.IMPLICIT_SITES, obs):
        if o["k"] == "exc" and o["cls"] == cls and any(frame_qual(f) == fnq for f in o["frames"]):
            kept.append((fnq, cls, why))
    return kept


# ---------------------------------------------------------------------------------------------------------------------
# generation
# ---------------------------------------------------------------------------------------------------------------------
OPTS = {
    "registered": ["dec", "td", "dt", "cx", "uu", "pp", "rx", "by", "rg", "od", "ltd", "ddec", "a", "cfg"],
    "json": ["a", "s", "f", "b", "l", "d", "n.x", "n.y.z", "o", "any", "u", "e", "pos", "cfg"],
    "basic": ["a", "s", "f", "b", "l", "d", "n.x", "n.y.z", "o", "any", "u", "e", "pos", "cfg"],
    "classes": ["cal", "ocal", "t", "c", "lcal", "dcal", "a", "cfg"],
    "dataclass": ["dc", "odc", "ldc", "ddc", "out", "a", "cfg"],
    "subcommands": ["a", "cfg", "fit.p", "fit.cal", "fit.cfg", "test.q", "test.name", "subcommand", "fit", "test"],
    "plain": ["pt", "it", "ch", "m", "mc", "mq", "ms", "flag", "cnt", "a", "cfg"],
    "paths": ["p", "lp", "op", "inner", "inner.v", "inner.w.k", "a", "cfg"],
    # options declared with enable_path=True (the value may be the path of a file holding it), a subclass option with a
    # class_path default, str-accepting unions
    "subpaths": ["el", "ed", "ecal", "edc", "eos", "eus", "wcal", "us", "a", "cfg"],
}
SUBPATH_VALUES = ["list.yaml", "dict.yaml", "cal.yaml", "dc.yaml", "good.yaml", "bad.yaml", "bin.yaml", "rec.yaml", "empty.yaml", "missing.yaml", "d", "-", "case.yaml", "case.yaml",
                  "pairs.yaml", "a\x00b", "/proc/self/mem", "", "x" * 300]
SUBKEYS = ["class_path", "init_args", "init_args.firstweekday", "firstweekday", "dict_kwargs.k", "help", "x", "y", "inner.x", "k",
           "init_args.", "zz", "0", "a.b"]
IMPORT_PATHS = ["calendar.Calendar", "calendar.TextCalendar", "calendar.HTMLCalendar", "TextCalendar", "os.path", "nomod.X", "calendar.Nope",
                "Nope", "calendar.", ".calendar", "calendar..Calendar", "calendar.Calendar.itermonthdates", "math.inf", "calendar.January",
                "json.JSONDecoder", "calendar.nomod.X", "5", "", "calendar.isleap", "a b.c",
                # modules that exist but whose import fails with a plain ImportError (platform guard / optional dependency)
                "asyncio.windows_events.ProactorEventLoop", "encodings.mbcs.StreamWriter", "c03_needs_extra.Thing", "c03_needs_extra"]
HUGE_INTS = ["0x" + "f" * 5000, "0o" + "7" * 6000, "0b" + "1" * 20000, "-0x" + "a" * 5000, "9" * 4400]
ODD_NUMBERS = HUGE_INTS[:3] + ["\u00b2", "-\u00b3", "\u2460", "\u2082\u2083", "1\u00b2", "\u0663", "\uff11\uff12", "9" * 4400, "-" + "9" * 4400, "1" + "0" * 4400 + ".5",
               "0." + "3" * 500, "1e-400", "--1", "1-2.3e", "+5", "1_000", "0b11", "1e", ".e1", "\u00bd"]
SCALARS = ODD_NUMBERS[:8] + ["1", "0", "-3", "2.5", "x", "", "null", "true", "1e999", "1_0", "0x1f", "é", "a b", "~", "[]", "{}", "ok", "red", "y", "-", "--", "=", "1e3"]
BROKEN = ["[1,", "{a: ", "\"", "a: b: c", "!!python/object:os.system x", "&x [*x]", "a: &x [*x]", "*undefined", "- &a [*a]", "{a: &x {b: *x}}",
          "? [a]\n: 1", "a\x00b", "{1: 2}", "[[[[[[[[[[1]]]]]]]]]]", "!!binary x", "@", "`", "%YAML 9.9", "---\n- 1\n---\n- 2", "\t- 1", "{a: 1, a: 2}",
          "<<: *x", "!!set {a}", "!!timestamp abc", "!!timestamp 2020-01-01", "!!float x", "!!bool x", "!!null x", "!!omap [a]", "!!pairs x",
          "!!str [a]", "!!int 1_", "!!merge x", "!!seq {a: 1}", "!!map [1]", "[!!timestamp x]", "{k: !!timestamp 1}", "0o9", ": :", "[1, 2", "'"]
PATHS = ["-", "good.yaml", "bad.yaml", "bin.yaml", "rec.yaml", "empty.yaml", "d", "missing.yaml", "/proc/self/mem", "", ".", "a\x00b", "d/", "good.yaml/x",
         "case.yaml", "/dev/null", "x" * 300]
def gen_path(rng):
    """a path-like string from parts: prefix (none, cwd-relative, absolute, home of the current / a named / no user) x a name of
    the scratch directory or none x a NUL byte before, inside or after any part x trailing separator / sub-path"""
    prefix = rng.choice(["", "", "", "./", "../", "/", "~", "~/", "~root", "~root/", "/tmp/", "//", "file://", "file:///"])
    name = rng.choice(["good.yaml", "case.yaml", "missing.yaml", "d", "bin.yaml", "", "a b", "x" * 300])
    tail = rng.choice(["", "", "", "/", "/x", "/.", "/.."])
    parts = [prefix, name, tail]
    r = rng.random()
    if r < 0.45:  # one NUL byte somewhere
        k = rng.randrange(3)
        at = rng.randrange(len(parts[k]) + 1)
        parts[k] = parts[k][:at] + "\x00" + parts[k][at:]
    return "".join(parts)


STRUCT = ["[1, 2]", "[1, x]", "{k: 1}", "{k: x}", "{class_path: calendar.TextCalendar}", "{class_path: 5}", "{class_path: calendar.Calendar, init_args: 3}",
          "{class_path: calendar.Calendar, init_args: {firstweekday: x}}", "{class_path: calendar.Calendar, init_args: {zz: 1}}",
          "{init_args: {firstweekday: 2}}", "{class_path: [], init_args: {}}", "{x: 1}", "{x: bad}", "{zz: 1}", "[{x: 1}]", "[{x: bad}]", "[{zz: 1}]",
          "{k: {x: bad}}", "{inner: {x: bad}}", "{inner: 5}", "{class_path: nomod.X}", "{class_path: os.path}", "{class_path: calendar.Calendar, dict_kwargs: {k: 1}}",
          "{class_path: calendar.Calendar, dict_kwargs: 5}", "{class_path: null}", "{v: x}", "{w: {k: [x]}}"]


# keys the library reserves for its own bookkeeping inside a configuration; nothing stops a user text / object from holding them
META_KEYS = ["__default_config__", "__path__", "__orig__"]


# options whose value is itself a whole sub-configuration (dataclass / nested-parser groups): what is given for the option ITSELF
GROUP_OPTS = {"dataclass": ["dc", "out", "out.inner", "odc"], "paths": ["inner"], "subcommands": ["fit", "test"]}
GROUP_VALUES = ["[1, 2]", "[]", "null", "- 1", "empty.yaml", "list.yaml", "good.yaml", "3", "abc", "true", "{}", "{x: 1}", "{v: 2}", "~", "1.5", "[{x: 1}]", "d", "missing.yaml", "!!set {a}"]


def gen_name(rng, shape):
    r = rng.random()
    o = rng.choice(OPTS[shape])
    if r > 0.92 and shape in GROUP_OPTS:
        return rng.choice(GROUP_OPTS[shape])
    if r < 0.05:
        m = rng.choice(META_KEYS)
        return rng.choice([m, m, o + "." + m, m + ".k"])
    if r < 0.50:
        return o
    if r < 0.68:
        return o + "." + rng.choice(SUBKEYS)
    if r < 0.76:
        return o + "+"
    if r < 0.84:
        return rng.choice(["zz", "zz.y", o + "x", o[:-1] or "q", "cfg.x", "print_config", "help", "version"])
    return rng.choice([o + ".", "." + o, o.replace(".", "..") if "." in o else o + "..k", "", ".", "+", o + "++", o + ".+", "-" + o, o + "=", o.upper(), " " + o])


def gen_alias(rng):
    """a YAML flow value with anchors and aliases built from a grammar: the anchored container, a chain of 0-3 intermediate
    containers (list or one-key/two-key mapping, same or different shape as the anchored one), then the alias — or plain sharing,
    two anchors referring to each other, an alias to an enclosing non-root container, several aliases in siblings"""
    def wrap(kind, inner, rng):
        if kind == "p":  # !!pairs / !!omap: a list of (key, value) TUPLES
            return rng.choice(["!!pairs [k: %s]", "!!omap [k: %s]", "!!pairs [a: 1, k: %s]", "!!pairs [[k, %s]]", "!!omap [%s: 1]"]).replace("%s", inner)
        if kind == "l":
            return rng.choice(["[%s]", "[%s]", "[1, %s]", "[%s, %s]"]).replace("%s", inner)
        key = rng.choice(["a", "a", "b"])
        return rng.choice(["{%s: %%s}" % key, "{%s: %%s}" % key, "{%s: 1, c: %%s}" % key]).replace("%s", inner)

    r = rng.random()
    if r < 0.12:   # sharing without a cycle
        return rng.choice(["[&a [1, 2], *a]", "{p: &a {k: 1}, q: *a}", "[&a x, *a, *a]", "{a: &s [1], b: [*s, *s]}", "!!pairs [a: &s [1], b: *s]",
                           "[&a !!omap [k: 1], *a]"])
    if r < 0.20:   # two anchors referring to each other
        k = rng.choice(["a", "b"])
        return rng.choice(["&x {%s: &y {%s: *x}, b: *y}" % (k, k), "&x [&y [*x], *y]", "&x [&y {a: *x}, *y]"])
    tuples = rng.random() < 0.3   # containers that load as tuples take part
    root = rng.choice(["l", "l", "d", "p", "p"] if tuples else ["l", "l", "d"])
    depth = rng.choice([0, 0, 1, 1, 1, 2, 3])
    same = rng.random() < 0.6
    inner = "*x"
    for _ in range(depth):
        kind = root if same else rng.choice(["l", "d", "p", "p"] if tuples else ["l", "d"])
        inner = wrap(kind, inner, rng)
    val = "&x " + wrap(root, inner, rng)
    if rng.random() < 0.25:  # the cycle does not go through the root of the value
        val = rng.choice(["[0, %s]", "{k: %s}", "{class_path: calendar.Calendar, init_args: {firstweekday: %s}}"]) % val
    return val


def gen_deep(rng):
    """deeply nested flow collections, closed or not: the loader and every recursive walk over the value see the depth"""
    n = rng.choice([30, 400, 1500, 3000])
    kind = rng.random()
    if kind < 0.4:
        return "[" * n + ("]" * n if rng.random() < 0.6 else "")
    if kind < 0.7:
        return "{a: " * n + "1" + ("}" * n if rng.random() < 0.6 else "")
    if kind < 0.85:
        return "[{a: " * (n // 2) + "1" + "}]" * (n // 2)
    return "- " * min(n, 400) + "1"


def gen_value(rng):
    r = rng.random()
    if r < 0.19:
        return rng.choice(SCALARS)
    if r < 0.25:
        return rng.choice(REGVALS)
    if r < 0.38:
        return rng.choice(BROKEN)
    if r < 0.53:
        return rng.choice(IMPORT_PATHS)
    if r < 0.62:
        return rng.choice(PATHS)
    if r < 0.67:
        return gen_path(rng)
    if r < 0.77:
        return gen_alias(rng)
    if r < 0.80:
        return gen_deep(rng)
    return rng.choice(STRUCT)


# values for the types jsonargparse registers itself (Decimal, timedelta, datetime, complex, UUID, Path, Pattern, bytes, range)
REGVALS = ["abc", "1.5", "NaN", "1e9999999999", "[1]", "1:02:03", "3 days, 1:02:03", "99999999999 days, 0:0:0", "-99999999999 days, 0:0:0", "1 day, 25:00:00",
           "2020-01-02T03:04:05", "2020-13-45", "99999-01-01T00:00:00", "1+2j", "1e999j", "(", "12345678-1234-5678-1234-567812345678", "x-y", "aGk=", "////", "@@",
           "range(3)", "range(1, 2, 0)", "range(1," + "9" * 4400 + ")", "[[[", "a*", "(?P<n", "[\"99999999999 days, 0:0:0\"]", "{k: abc}", "{k: 1.5}", "[x]", "-0", "1_0.0", "Infinity", "sNaN"]
SUBCMD_VALUES = ["fit", "test", "zzz", "", "5", "null", "[fit]", "{fit: 1}", "true", "Fit"]
SUBCMD_BODIES = ["5", "x", "[1]", "null", "{}", "{p: 1}", "{p: x}", "{q: [a]}", "{zz: 1}", "[{p: 1}]", "{p: {k: 1}}", "fit", "{cfg: case.yaml}"]


def gen_inline_config(rng, shape):
    """a whole config as ONE flow mapping (the form a --cfg / APP_CFG value takes when it is not a path)"""
    items = []
    for _ in range(rng.choice([1, 1, 2, 3])):
        if shape == "subcommands" and rng.random() < 0.6:
            if rng.random() < 0.5:
                items.append("subcommand: " + rng.choice(SUBCMD_VALUES))
            else:
                items.append("%s: %s" % (rng.choice(["fit", "test", "fit", "zzz"]), rng.choice(SUBCMD_BODIES)))
        else:
            name = gen_name(rng, shape)
            v = gen_value(rng)
            if any(ch in v for ch in "\n#") or v.startswith(("- ", "%", "---")):
                v = rng.choice(SCALARS)
            items.append("%s: %s" % (name or "k", v))
    return "{" + ", ".join(items) + "}"


def value_for(rng, shape, name):
    value = gen_value(rng)
    if name == "cfg" and rng.random() < 0.7:
        value = rng.choice(["case.yaml", "case.yaml", gen_inline_config(rng, shape), gen_inline_config(rng, shape), "-", gen_path(rng), gen_path(rng)])
    elif name in ("subcommand", "fit", "test") and rng.random() < 0.7:
        value = rng.choice(SUBCMD_VALUES if name == "subcommand" else SUBCMD_BODIES)
    elif name in GROUP_OPTS.get(shape, ()) and rng.random() < 0.7:
        value = rng.choice(GROUP_VALUES)
    elif shape == "subpaths" and name.split(".")[0].rstrip("+").startswith("e") and rng.random() < 0.55:
        value = rng.choice(SUBPATH_VALUES)
    return value


def gen_argv(rng, shape):
    n = rng.choice([1, 1, 1, 2, 2, 3, 4])
    argv = []
    if shape == "subcommands" and rng.random() < 0.7:
        pre = []
        if rng.random() < 0.3:
            pre = ["--a=" + rng.choice(SCALARS)]
        argv = pre + [rng.choice(["fit", "test", "fit", "zzz", ""])]
    prev = None
    for _ in range(n):
        name = gen_name(rng, shape)
        if prev is not None and rng.random() < 0.3:
            # the same option again: a later value overrides / refines an earlier one (whole value, sub-key, or append)
            base = prev.split(".")[0].rstrip("+") or prev
            name = rng.choice([prev, base, base + "." + rng.choice(SUBKEYS), base + "+"])
        if shape == "subcommands" and "." in name and name.split(".")[0] in ("fit", "test") and rng.random() < 0.8:
            name = name.split(".", 1)[1]
        prev = name
        r = rng.random()
        value = value_for(rng, shape, name)
        if r < 0.62:
            argv.append("--%s=%s" % (name, value))
        elif r < 0.80:
            argv += ["--" + name, value]
        elif r < 0.90:
            argv.append("--" + name)
        elif r < 0.95:
            argv.append(gen_value(rng))
        else:
            argv.append(rng.choice(["--print_config", "--print_config=comments", "-h", "--help", "--", "-", "--cfg", "-x", "--print_config=zz"]))
    return argv


def yaml_scalar(v):
    return v


def gen_text(rng, shape):
    r = rng.random()
    if r < 0.12:
        # the whole text is one scalar / one broken fragment (what the scalar pre-parser and the loader see on their own)
        return rng.choice(BROKEN + SCALARS + ODD_NUMBERS + ODD_NUMBERS + ["", "- 1", "5", "null", "--", "a: [", "1: 2", "{}", "[]"])
    lines = []
    for _ in range(rng.choice([1, 1, 2, 3])):
        name = gen_name(rng, shape)
        val = value_for(rng, shape, name)
        if rng.random() < 0.5 and "." in name and not name.startswith(".") and ".." not in name and not name.endswith("."):
            parts = name.split(".")
            lines.append(parts[0] + ":")
            for d, pt in enumerate(parts[1:-1], 1):
                lines.append("  " * d + pt + ":")
            lines.append("  " * (len(parts) - 1) + parts[-1] + ": " + val)
        else:
            lines.append("%s: %s" % (name, val))
    return "\n".join(lines) + "\n"


PYVALS = [1, 0, -3, 2.5, "x", "", None, True, [1, 2], [1, "x"], {"k": 1}, {"k": "x"}, {"$": "object"}, {"$": "nan"}, {"$": "inf"},
          {"$": "ns", "v": {"x": 1}}, {"$": "ns", "v": {"class_path": "calendar.Calendar"}}, {"$": "tuple", "v": [1, 2]}, {"$": "set", "v": [1]},
          {"$": "bytes", "v": "ab"}, {"$": "deep", "n": 3000}, {"$": "deep", "n": 200}, {"$": "items", "v": [[1, 2]]}, {"$": "items", "v": [[None, 1]]}, {"$": "class"}, {"$": "instance"}, {"$": "dc"}, {"$": "big"},
          {"class_path": "calendar.TextCalendar"}, {"class_path": 5}, {"class_path": []}, {"class_path": "calendar.Calendar", "init_args": 3},
          {"class_path": "calendar.Calendar", "init_args": {"firstweekday": "x"}}, {"class_path": "nomod.X"}, {"class_path": "calendar.Nope"},
          {"init_args": {"firstweekday": 1}}, {"x": 1}, {"x": "bad"}, {"zz": 1}, [{"x": "bad"}], [{"zz": 1}], {"k": {"x": "bad"}}, {"inner": {"x": {}}},
          [[1, [2, [3]]]], {"v": "x"}, {"w": {"k": ["x"]}}, "nomod.X", "calendar.Nope", "calendar.TextCalendar", "os.path", "good.yaml", "bin.yaml", "d",
          "missing.yaml", "a\x00b", "&x [*x]", "[1,", "/proc/self/mem"]


def gen_object(rng, shape):
    obj = {}
    for _ in range(rng.choice([1, 1, 2, 3])):
        name = gen_name(rng, shape)
        # a private copy: the entries of PYVALS are templates (nesting below one of them must not write into the template,
        # let alone into itself)
        val = copy.deepcopy(rng.choice(PYVALS)) if rng.random() < 0.8 else gen_value(rng)
        if rng.random() < 0.5 and "." in name and not name.startswith(".") and ".." not in name and not name.endswith("."):
            parts = name.split(".")
            cur = obj
            ok = True
            for pt in parts[:-1]:
                nxt = cur.get(pt)
                if nxt is None:
                    nxt = cur[pt] = {}
                if not isinstance(nxt, dict) or "$" in nxt:
                    ok = False
                    break
                cur = nxt
            if ok:
                cur[parts[-1]] = val
                continue
        obj[name] = val
    r = rng.random()
    if r > 0.94:
        # a config "object" that is not a mapping at all
        return copy.deepcopy(rng.choice([[1], [], "x", "a: 1", None, 5, 2.5, True, [{"a": 1}], {"$": "object"}, {"$": "tuple", "v": [1]}, {"$": "set", "v": [1]},
                                         {"$": "bytes", "v": "ab"}, {"$": "class"}, {"$": "instance"}, {"$": "dc"}]))
    if r < 0.08:
        return {"$": "ns", "v": obj}
    if r < 0.12:
        return {"$": "items", "v": [[rng.choice([1, None, 2.5, True]), copy.deepcopy(rng.choice(PYVALS))]]}
    return obj


def gen_env(rng, shape):
    env = {}
    for _ in range(rng.choice([1, 1, 2, 3])):
        o = rng.choice(OPTS[shape])
        name = "APP_" + o.replace(".", "__").upper()
        if shape == "subcommands" and "." in o and o.split(".")[0] in ("fit", "test"):
            # options of a sub-command parser: its env_prefix is "<root prefix>_<name>_"
            name = "APP_" + o.split(".", 1)[0].upper() + "_" + o.split(".", 1)[1].replace(".", "__").upper()
            if rng.random() < 0.8:
                env["APP_SUBCOMMAND"] = o.split(".")[0] if rng.random() < 0.85 else rng.choice(SUBCMD_VALUES)
        if rng.random() < 0.1:
            name = rng.choice(["APP_ZZ", "APP_", "APP_A__", name + "__X", name.lower(), "APP_CFG"])
        env[name] = value_for(rng, shape, "cfg" if name == "APP_CFG" else o)
    return env


def gen_dcf(rng, shape):
    r = rng.random()
    if r < 0.80:
        return None
    if r < 0.86:
        return "a: 3\n"
    if r < 0.90:
        return rng.choice(["a: x\n", "zz: 1\n", "a: [\n", "\udcff\udcfe", "", "a: &x [*x]\n", "- 1\n", "5\n"] + ODD_NUMBERS
                          + ["%s: %s\n" % (m, v) for m in META_KEYS for v in ("abc", "3", "{a: 1}", "[a]", "null", "good.yaml")])
    return gen_text(rng, shape)


def directed():
    """always-included cases: one per known finding (both modes) and the plain channels"""
    D = []

    def add(shape, entry, inp, dcf=None, files=None):
        for x in (False, True):
            c = {"shape": shape, "x": x, "entry": entry, "input": inp}
            if dcf is not None:
                c["dcf"] = dcf
            if files:
                c["files"] = files
            D.append(c)

    add("basic", "parse_args", ["--cfg=--"])                                   # cfg-value-not-str
    add("basic", "parse_args", ["--any=&x [*x]"])                              # recursive-yaml-alias
    add("basic", "parse_string", "any: &x [*x]\n")
    add("basic", "parse_args", ["--cfg=bin.yaml"])                             # config-content-unreadable
    add("basic", "parse_args", ["--cfg=/proc/self/mem"])
    add("basic", "parse_path", "bin.yaml")
    add("basic", "parse_env", {"APP_CFG": "bin.yaml"})
    add("basic", "parse_args", ["--cfg=a\x00b"])                               # path-nul-byte
    add("basic", "parse_path", "a\x00b")
    add("basic", "parse_path", "missing.yaml")                                 # parse-path-patherror
    add("basic", "parse_path", "d")
    add("classes", "parse_args", ["--t=nomod.X"])                              # type-import-error
    add("classes", "parse_string", "t: calendar.Nope\n")
    add("classes", "parse_object", {"t": "nomod.X"})
    add("plain", "parse_object", {"pt": 1})                                    # argument-type-error
    add("plain", "parse_string", "pt: nope\n")
    add("plain", "parse_object", {"m": {"$": "items", "v": [[1, 2]]}})                # list-option-given-mapping
    add("plain", "parse_env", {"APP_PT": "x"})
    add("classes", "parse_args", ["--cal.help=calendar.TextCalendar", "--zzz"])  # help-subparser-exit
    add("subcommands", "parse_args", ["fit"], dcf="a: 3\n")                    # default-config-argument-error
    add("subcommands", "parse_object", {"fit": {"p": 1}}, dcf="a: 3\n")
    add("dataclass", "parse_string", "ldc: [{x: bad}]\n")                      # nested-parser-argument-error
    add("dataclass", "parse_object", {"ldc": [{"zz": 1}]})
    add("basic", "parse_args", ["--f=1" + "0" * 400])                             # overflow-error
    add("plain", "parse_string", "it: 1e999\n")
    add("basic", "parse_args", ["--cfg=good.yaml"], dcf="cfg: empty.yaml\n")   # cfg-key-in-config
    add("basic", "parse_args", ["--any.firstweekday=[1, 2]", "--print_config"])  # nested-key-on-any-print-config
    add("plain", "parse_string", "mc: x\n")                                      # nargs-choices-scalar
    add("basic", "parse_args", ["--any=" + "[" * 3000 + "]" * 3000])              # deep-nesting-recursion
    add("basic", "parse_object", {"a": {"$": "deep", "n": 3000}})
    for x in (False, True):                                                       # closed-stdin-dash
        D.append({"shape": "basic", "x": x, "entry": "parse_path", "input": "-", "stdin": "none"})
        D.append({"shape": "basic", "x": x, "entry": "parse_args", "input": ["--cfg=-"], "stdin": "none"})
    add("subcommands", "parse_args", ["--cfg={subcommand: zzz}"])                 # subcommand-value-not-mapping
    add("subcommands", "parse_string", "subcommand: fit\nfit: 5\n")
    add("subcommands", "parse_args", ["--cfg={fit: [1]}", "fit"])
    add("subcommands", "parse_args", ["--cfg={test: x, fit: {p: 1}}"])
    add("basic", "parse_args", ["--any={class_path: calendar.Calendar, init_args: {firstweekday: 1}}", "--any={class_path: nomod.X}"])  # any-class-path-override
    add("basic", "parse_args", ["--print_config=--"])                              # print-config-value-empty
    add("basic", "parse_args", ["--any=&x [[*x]]"])                                # look-alike indirect cycles (must be rejected cleanly)
    add("basic", "parse_string", "any: &x {a: {a: *x}}\n")
    for x in (False, True):                                                       # a failed call, then every other parse method
        failed = {"entry": "parse_args", "input": ["--print_config", "--a=x"]}
        for entry, inp in (("parse_object", {"a": 2}), ("parse_string", "a: 2\n"), ("parse_env", {"APP_A": "2"}), ("parse_path", "good.yaml"),
                           ("parse_args", ["--a=2"])):
            D.append({"shape": "basic", "x": x, "entry": entry, "input": inp, "history": [failed]})
    for x in (False, True):                                                       # ... failed through EVERY route (type error, unrecognised option, missing value, stray positional, inside a sub-command), then a good call
        for shape, bads in (("basic", (["--print_config", "--zz=1"], ["--print_config", "--a"], ["--print_config", "stray"], ["--print_config=comments", "--n.x"], ["-h", "--zz"])),
                            ("subcommands", (["--print_config", "fit", "--zz"], ["--print_config", "fit", "--p=x"], ["--print_config", "zzz"], ["--print_config"]))):
            for bad in bads:
                for entry in ("parse_args", "parse_object", "parse_string"):
                    D.append({"shape": shape, "x": x, "entry": entry, "input": valid_input(shape, entry), "history": [{"entry": "parse_args", "input": bad}]})
    for t in ODD_NUMBERS[:6] + ["9" * 4400]:                                       # the whole config text / file / env value is one odd scalar
        add("basic", "parse_string", t)
        add("basic", "parse_path", "case.yaml", files={"case.yaml": t})
        add("basic", "parse_args", ["--cfg=case.yaml"], files={"case.yaml": t})
        add("basic", "parse_env", {"APP_L": t})
        add("basic", "parse_env", {"APP_CFG": "case.yaml"}, files={"case.yaml": t})
        add("basic", "parse_args", [], dcf=t)
    add("json", "parse_string", "9" * 4400)                                        # json-int-digit-limit
    add("json", "parse_path", "case.yaml", files={"case.yaml": '{"a": %s}' % ("9" * 4400)})
    add("json", "parse_string", '{"a": [')
    add("json", "parse_args", ['--l=[1, "x"]'])
    for x in (False, True):                                                       # nested parsers built with another exit_on_error
        for nx in ("default", "opposite"):
            for entry, inp in (("parse_args", ["fit", "--p=x"]), ("parse_args", ["fit", "--zz"]), ("parse_env", {"APP_SUBCOMMAND": "fit", "APP_FIT_P": "x"}),
                               ("parse_object", {"subcommand": "fit", "fit": {"p": "x"}}), ("parse_string", "subcommand: fit\nfit: {p: x}\n")):
                D.append({"shape": "subcommands", "x": x, "entry": entry, "input": inp, "nested_x": nx})
            for entry, inp in (("parse_args", ["--inner.v=x"]), ("parse_args", ["--inner={v: x}"]), ("parse_env", {"APP_INNER__V": "x"}), ("parse_string", "inner: {v: x}\n")):
                D.append({"shape": "paths", "x": x, "entry": entry, "input": inp, "nested_x": nx})
    add("registered", "parse_args", ["--dec=abc"])                                 # registered-type-deserializer
    add("registered", "parse_args", ["--td=99999999999 days, 0:0:0"])
    add("registered", "parse_string", "ltd: [\"99999999999 days, 0:0:0\"]\n")
    add("registered", "parse_args", ["--td=x"])
    add("basic", "parse_args", ["--any=!!timestamp abc"])                          # yaml-timestamp-tag
    add("basic", "parse_string", "!!timestamp abc")
    for m in META_KEYS:                                                          # reserved bookkeeping keys given by the user
        for v in ("abc", "{a: 1}", "[a]"):
            add("basic", "parse_args", ["--a=2"], dcf="a: 3\n%s: %s\n" % (m, v))
            add("basic", "parse_string", "a: 2\n%s: %s\n" % (m, v))
            add("basic", "parse_args", ["--cfg=case.yaml"], files={"case.yaml": "%s: %s\n" % (m, v)})
        add("classes", "parse_object", {"cal": {"class_path": "calendar.Calendar", m: 5}})
    for inp in ([1], "x", None, 5):                                               # parse-object-non-mapping
        add("basic", "parse_object", inp)
    add("basic", "parse_args", ["--a=0x" + "f" * 5000, "--print_config"])         # huge-int-rendering
    add("basic", "parse_args", ["--a=0x" + "f" * 5000])
    add("plain", "parse_string", "ch: 0x" + "f" * 5000 + "\n")
    add("plain", "parse_string", "m:\n  +: 0x" + "f" * 5000 + "\n")
    for x in (False, True):                                                       # cwd-deleted
        D.append({"shape": "basic", "x": x, "entry": "parse_args", "input": ["--cfg=a: 2"], "cwd": "deleted"})
        D.append({"shape": "basic", "x": x, "entry": "parse_args", "input": ["--cfg=/proc/self/mem"], "cwd": "deleted"})
        D.append({"shape": "paths", "x": x, "entry": "parse_args", "input": ["--lp=x.yaml"], "cwd": "deleted"})
    for pth in ("~\x00", "~root\x00/c.yaml", "~/x\x00", "\x00", "~"):                # NUL bytes around '~'
        add("basic", "parse_args", ["--cfg=" + pth])
        add("basic", "parse_env", {"APP_CFG": pth})
        add("paths", "parse_string", "inner: \"%s\"\n" % pth.replace("\x00", "\\0"))
        add("basic", "parse_path", pth)
    for v in ("[1, 2]", "null", "empty.yaml", "list.yaml", "3"):                     # a non-mapping for a group-config option itself
        add("paths", "parse_args", ["--inner=" + v])
        add("dataclass", "parse_args", ["--dc=" + v])
        add("dataclass", "parse_object", {"out": v})
        add("paths", "parse_env", {"APP_INNER": v})
    add("basic", "parse_args", ["--any=&x !!pairs [k: *x]"])                         # yaml-alias-cycle-through-pairs
    add("basic", "parse_args", ["--any", "&x !!omap [k: *x]"])
    add("basic", "parse_string", "any: &x !!omap [k: *x]\n")
    add("basic", "parse_string", "zz: &x !!pairs [k: *x]\n")
    add("basic", "parse_args", ["--cfg=case.yaml"], files={"case.yaml": "any: [&x !!pairs [k: [*x]]]\n"})
    add("basic", "parse_args", ["--l=&x !!pairs [k: *x]"])
    for t in ("&x !!pairs [k: *x]", "&x !!omap [k: *x]", "&x [!!pairs [k: *x]]", "[&x !!pairs [[k, [*x]]]]", "&x [*x]", "&x [[*x]]", "&x {a: {a: *x}}", "{a: &x [1, *x]}",
              "[&a [1, 2], *a]", "!!pairs [a: &s [1], b: *s]", "&x !!pairs [[*x, 1]]", "{p: &a {k: 1}, q: *a}", "&x [&y [*x], *y]", "x", "[1,"):
        D.append({"shape": "basic", "x": False, "entry": "cycle_check", "input": t})   # the cycle check of yaml_load on its own
    for x in (False, True):                                                       # enable_path options, a subclass default, argv from sys.argv / with non-str items / with namespace=
        for inp in (["--el=list.yaml"], ["--el=missing.yaml"], ["--ed=dict.yaml"], ["--eos=good.yaml"], ["--ecal=cal.yaml"], ["--ecal=bad.yaml"], ["--edc=dc.yaml"],
                    ["--wcal.firstweekday=3"], ["--wcal.init_args.firstweekday=x"], ["--ed=pairs.yaml"], ["--us=x"], ["--eus=bad.yaml"]):
            D.append({"shape": "subpaths", "x": x, "entry": "parse_args", "input": inp})
        D.append({"shape": "subpaths", "x": x, "entry": "parse_string", "input": "el: list.yaml\ned: missing.yaml\n"})
        D.append({"shape": "subpaths", "x": x, "entry": "parse_object", "input": {"ecal": "cal.yaml", "wcal": {"init_args": {"firstweekday": 4}}}})
        D.append({"shape": "basic", "x": x, "entry": "parse_args", "input": ["--a=2"], "argv_via": "sys"})
        D.append({"shape": "basic", "x": x, "entry": "parse_args", "input": ["--a=x"], "argv_via": "sys"})
        D.append({"shape": "basic", "x": x, "entry": "parse_args", "input": ["--a=2", 5]})
        D.append({"shape": "basic", "x": x, "entry": "parse_args", "input": [None]})
        D.append({"shape": "basic", "x": x, "entry": "parse_args", "input": ["--f=2"], "namespace": {"a": 3}})
        D.append({"shape": "basic", "x": x, "entry": "parse_args", "input": [], "namespace": {"a": "x", "zz": 1}})
    add("basic", "parse_env", {"APP_ANY": "{class_path: calendar.Calendar, init_args: 3}"})   # any-class-spec-init-args-not-mapping
    add("basic", "parse_object", {"any": {"class_path": "calendar.Calendar", "init_args": 3}})
    # the channels themselves
    add("basic", "parse_args", ["--a=x"])
    add("basic", "parse_args", ["--zz=1"])
    add("basic", "parse_args", ["--help"])
    add("basic", "parse_args", ["--print_config"])
    add("basic", "parse_args", ["--a=2"])
    add("basic", "parse_string", "a: [\n")
    add("basic", "parse_object", {"a": "x"})
    add("basic", "parse_env", {"APP_A": "x"})
    add("basic", "parse_path", "bad.yaml")
    add("basic", "parse_path", "good.yaml")
    add("subcommands", "parse_args", [])
    add("classes", "parse_args", ["--cal=nomod.X"])
    add("classes", "parse_args", ["--cal=asyncio.windows_events.ProactorEventLoop"])
    add("classes", "parse_string", "lcal: [c03_needs_extra.Thing]\n")
    add("classes", "parse_object", {"t": "c03_needs_extra.Thing"})
    add("classes", "parse_args", ["--cal.help=NotAClass"])
    add("classes", "parse_args", ["--cal.help"])
    add("dataclass", "parse_args", ["--dc.x=bad"])
    add("paths", "parse_args", ["--p=missing.yaml"])
    add("paths", "parse_args", ["--inner.v=x"])
    add("plain", "parse_args", ["--pt=1"])
    return D


def valid_input(shape, entry):
    """an input every parser shape accepts (all declare --a: int; the sub-command shape also needs its sub-command; flow-style
    text is both YAML and JSON): what an application sends after it has caught the error of an earlier call"""
    sub = shape == "subcommands"
    if entry == "parse_args":
        return ["--a=2", "fit"] if sub else ["--a=2"]
    if entry == "parse_object":
        return {"a": 2, "subcommand": "fit"} if sub else {"a": 2}
    if entry == "parse_env":
        return {"APP_A": "2", "APP_SUBCOMMAND": "fit"} if sub else {"APP_A": "2"}
    text = '{"a": 2, "subcommand": "fit"}' if sub else '{"a": 2}'
    return text if entry == "parse_string" else "case.yaml"


def gen_case(rng, shape=None, entry=None, history=True):
    shape = shape or rng.choice(SHAPES)
    entry = entry or rng.choices(ENTRIES, weights=[40, 20, 20, 10, 10])[0]
    c = {"shape": shape, "entry": entry}
    if entry == "parse_args":
        c["input"] = gen_argv(rng, shape)
    elif entry == "parse_string":
        c["input"] = gen_text(rng, shape)
    elif entry == "parse_object":
        c["input"] = gen_object(rng, shape)
    elif entry == "parse_env":
        c["input"] = gen_env(rng, shape)
    else:
        c["input"] = rng.choice(PATHS + ["case.yaml"] * 6) if rng.random() < 0.75 else gen_path(rng)
    if rng.random() < 0.5 or "case.yaml" in json.dumps(c["input"]):
        c["files"] = {"case.yaml": gen_text(rng, shape)}
    if shape in ("subcommands", "paths"):
        # parsers nested below the root are not necessarily built with the root's exit_on_error
        c["nested_x"] = rng.choice(["same", "default", "opposite"])
    if entry == "parse_args":
        r = rng.random()
        if r < 0.06:
            c["argv_via"] = "sys"   # parse_args() without a list: the arguments are taken from sys.argv[1:]
        elif r < 0.09:
            # an item that is not a str (a caller that forwards parsed values): must be refused through the channel
            c["input"].insert(rng.randrange(len(c["input"]) + 1), copy.deepcopy(rng.choice([5, None, 2.5, True, ["--a=1"], {"a": 1}])))
        elif r < 0.13:
            ns = gen_object(rng, shape)   # parse_args(argv, namespace=<a Namespace holding earlier values>)
            if isinstance(ns, dict) and "$" not in ns:
                c["namespace"] = ns
    if rng.random() < 0.04:
        c["cwd"] = "deleted"  # environment fault: the working directory of the process is removed before the call
    if rng.random() < 0.12:
        c["stdin"] = "none"   # a process started with file descriptor 0 closed: sys.stdin is None
    if history and rng.random() < 0.22:
        # one or two earlier calls on the same parser object (an application that catches the error and goes on): any parse
        # method with any input of the grammar; half of the time a parse_args that carries an exit-0 request next to
        # something that fails
        hist = []
        for _ in range(rng.choice([1, 1, 2])):
            if rng.random() < 0.5:
                req = rng.choice(["--print_config", "--print_config=comments", "--print_config=skip_null", "-h", "--help"])
                bad = gen_argv(rng, shape)
                hist.append({"entry": "parse_args", "input": [req] + bad if rng.random() < 0.7 else bad + [req]})
            else:
                h = gen_case(rng, shape, history=False)
                hist.append({"entry": h["entry"], "input": h["input"]})
        c["history"] = hist
        if rng.random() < 0.4:
            # the application goes on with a GOOD call (or one that only fails at validation): whatever the earlier calls left
            # behind on the parser must not change how this one ends
            c["input"] = valid_input(shape, entry) if rng.random() < 0.8 else ([] if entry == "parse_args" else {} if entry in ("parse_object", "parse_env") else "{}" if entry == "parse_string" else "case.yaml")
            if entry == "parse_path":
                c["files"] = {"case.yaml": valid_input(shape, "parse_string") if c["input"] == "case.yaml" and rng.random() < 0.8 else "{}"}
            c.pop("namespace", None)
    dcf = gen_dcf(rng, shape)
    if dcf is not None:
        c["dcf"] = dcf
    return c


def gen_cycle_cases(rng, n, seen):
    """texts with anchors and aliases for ONE call of yaml_load each (judged against Model/C03Cycle + Spec/C03CycleSpec)"""
    out = []
    for _ in range(8 * n):
        if len(out) >= n:
            break
        t = gen_alias(rng)
        if rng.random() < 0.3:   # several aliased values next to each other / inside one more container
            t = rng.choice(["[%s, %s]", "{p: %s, q: %s}", "!!pairs [p: %s, q: %s]"]) % (t, gen_alias(rng).replace("&x", "&y").replace("*x", "*y"))
        c = {"shape": "basic", "x": False, "entry": "cycle_check", "input": t}
        k = json.dumps(c, sort_keys=True)
        if k not in seen:
            seen.add(k)
            out.append(c)
    return out


def generate(rng, tier):
    n = 1500 if tier == "quick" else 30000
    cases = directed()
    seen = set(json.dumps(c, sort_keys=True) for c in cases)
    cases += gen_cycle_cases(rng, 200 if tier == "quick" else 4000, seen)
    tries = 0
    target = len(cases) + 2 * n
    while len(cases) < target and tries < 10 * n:
        tries += 1
        c = gen_case(rng)
        try:
            json.dumps(c)
        except (ValueError, TypeError):  # a case must be plain JSON (it is sent to the runner and written to replays): drop it
            continue
        for x in (False, True):
            cx = dict(c, x=x)
            k = json.dumps(cx, sort_keys=True)
            if k not in seen:
                seen.add(k)
                cases.append(cx)
    return cases


# ---------------------------------------------------------------------------------------------------------------------
# observation
# ---------------------------------------------------------------------------------------------------------------------
def observe(cases):
    if not cases:
        return []
    nchunks = max(1, min(framework.JOBS, (len(cases) + 39) // 40))
    size = (len(cases) + nchunks - 1) // nchunks
    chunks = [cases[i:i + size] for i in range(0, len(cases), size)]
    outs = run_impl_parallel("c03_run.py", [{"cases": ch} for ch in chunks], timeout=1500)
    res = []
    for ch, o in zip(chunks, outs):
        if len(o["obs"]) != len(ch):
            raise framework.ImplCrash("c03_run.py returned %d observations for %d cases" % (len(o["obs"]), len(ch)))
        res += o["obs"]
    return res


def frame_qual(fr):
    """[module, code qualname, lineno] -> the translator's qualified name (nested functions as outer.<inner>)"""
    mod, qn = fr[0], fr[1]
    parts = qn.split(".<locals>.")
    return mod + "." + parts[0] + "".join(".<%s>" % p for p in parts[1:])


def obs_class(o):
    if o["k"] == "exit":
        return {0: T.EXIT0, 2: T.EXIT2}.get(o["code"], "builtins.SystemExit")
    if o["k"] == "exc":
        return o["cls"]
    return None


def attribute(o):
    """(class id or None, candidate site ids): raise sites of the observed class in the functions on the traceback, deepest
    first. Frames below a summarised (BOUNDARY) function belong to the summary: the walk stops there."""
    m = ir_meta()
    cls = obs_class(o)
    if cls is None:
        return None, []
    cid = m["cidx"].get(cls)
    if cid is None:
        return len(m["classes"]), []
    boundary = set(m["boundary"])
    chain = []
    for fr in o.get("frames", []):
        q = frame_qual(fr)
        chain.append((q, fr[2]))
        if q in boundary:
            break
    cands = []
    for q, line in reversed(chain):
        while q:
            here = m["by_fn"].get((q, cls))
            if here:
                for _, i in sorted(here, key=lambda t: (abs(t[0] - line), t[1])):
                    if i not in cands:
                        cands.append(i)
                break
            # frames of lambdas / comprehensions / nested helpers the IR folds into the enclosing function
            if ".<" in q:
                q = q.rsplit(".<", 1)[0]
            else:
                break
    return cid, cands


import re as _re

_ANCHOR_USE = _re.compile(r"&([A-Za-z0-9_]+)\b.*\*\1\b", _re.S)


def _cyclic(v, parents=(), kinds=(dict, list)):
    if not isinstance(v, kinds):
        return False
    if any(v is p for p in parents):
        return True
    return any(_cyclic(i, parents + (v,), kinds) for i in (v.values() if isinstance(v, dict) else v))


def _text_tuplecyc(t):
    """the text loads (as a whole or after its first '=') to a value with an alias cycle through a tuple (!!pairs / !!omap build
    lists of tuples) and without a cycle through mappings and lists alone"""
    if not _ANCHOR_USE.search(t) or ("!!pairs" not in t and "!!omap" not in t):
        return False
    import yaml
    for cand in (t, t.split("=", 1)[-1]):
        try:
            v = yaml.safe_load(cand)
        except RecursionError:
            return False
        except Exception:  # noqa
            continue
        return _cyclic(v, (), (dict, list, tuple)) and not _cyclic(v)
    # a config text whose lines are `key: value`: judge the values one by one
    return any(_text_tuplecyc(l.split(": ", 1)[1]) for l in t.splitlines() if ": " in l and l.split(": ", 1)[1] != t)


def _text_selfref(t):
    if not _ANCHOR_USE.search(t):
        return False
    import yaml
    for cand in (t, t.split("=", 1)[-1]):
        try:
            return _cyclic(yaml.safe_load(cand))
        except RecursionError:
            return True
        except Exception:  # noqa: not loadable as a whole: judge the text (an anchor that is used again after its definition)
            continue
    return True


_ASKS = ("print_config", "help", "version", "-h")


def asked(case):
    """does the input of THIS call (argv / text / object / env; its files and default config) hold a request that ends in exit
    status 0 — print_config, help, version? Earlier calls on the parser (history) do not count."""
    def strings(v):
        if isinstance(v, str):
            yield v
        elif isinstance(v, list):
            for i in v:
                yield from strings(i)
        elif isinstance(v, dict):
            for k, i in v.items():
                yield from strings(k)
                yield from strings(i)

    texts = list(strings(case["input"])) + list(strings(case.get("files") or {})) + [case.get("dcf") or ""] + list(strings(case.get("namespace") or {}))
    return any(a in t.lower() for t in texts for a in _ASKS)


def nonmap(case):
    """is this a parse_object call whose object is not a dict / Namespace?"""
    inp = case["input"]
    if case["entry"] != "parse_object":
        return False
    if isinstance(inp, dict):
        return inp.get("$") not in (None, "ns", "items")
    return True


def _depth(t):
    d = m = 0
    for ch in t:
        if ch in "[{":
            d += 1
            m = max(m, d)
        elif ch in "]}":
            d = max(0, d - 1)
    return m


def deep(case):
    """does the input hold a value nested more than 150 levels deep?"""
    def walk(v):
        if isinstance(v, str):
            return _depth(v) > 150 or v.count("- ") > 150
        if isinstance(v, list):
            return any(walk(i) for i in v)
        if isinstance(v, dict):
            if v.get("$") == "deep":
                return v["n"] > 150
            return any(walk(k) or walk(i) for k, i in v.items())
        return False

    return walk(case["input"]) or walk(case.get("files") or {}) or walk(case.get("dcf") or "") or walk(case.get("namespace") or {})


def selfref(case):
    """does the input (argv / text / object / env values / files / default config) hold a self-referential YAML alias?"""
    def strings(v):
        if isinstance(v, str):
            yield v
        elif isinstance(v, list):
            for i in v:
                yield from strings(i)
        elif isinstance(v, dict):
            for k, i in v.items():
                yield from strings(k)
                yield from strings(i)

    texts = list(strings(case["input"])) + list(strings(case.get("files") or {})) + [case.get("dcf") or ""] + list(strings(case.get("namespace") or {}))
    if any(t in ("rec.yaml",) or t.endswith("=rec.yaml") for t in texts):
        return True
    return any(_text_selfref(t) for t in texts)


def tuplecyc(case):
    """does the input hold a YAML alias cycle that passes through a tuple (and is not a cycle of mappings/lists anyway)?"""
    def strings(v):
        if isinstance(v, str):
            yield v
        elif isinstance(v, list):
            for i in v:
                yield from strings(i)
        elif isinstance(v, dict):
            for k, i in v.items():
                yield from strings(k)
                yield from strings(i)

    texts = list(strings(case["input"])) + list(strings(case.get("files") or {})) + [case.get("dcf") or ""] + list(strings(case.get("namespace") or {}))
    if any("pairs.yaml" in t for t in texts):   # the standard scratch file holding `k: &x !!pairs [k: *x]`
        return True
    return any(_text_tuplecyc(t) for t in texts)


def g_heap(o):
    if o.get("k") != "cyc":
        return "None"
    return "(Some (%s, %s, %s))" % (g_list(["(%s, %s)" % (g_N(k), g_list([g_N(i) for i in items], "N")) for k, items in o["heap"]], "(N * list N)"),
                                    g_N(o["root"]), g_bool(o["rejected"]))


def g_obs(o):
    if o["k"] in ("ret", "cyc"):
        return "Returned"
    if o["k"] == "hung":
        return "Hung"
    if o["k"] == "exit":
        return "(Exited (%d)%%Z %s)" % (o["code"], g_bool(o["usage"] or o["code"] != 2))
    return "(Raised %s)" % g_bool(o["argerr"])


def term(case, obs):
    m = ir_meta()
    cid, sites = attribute(obs)
    if case["entry"] == "cycle_check":
        # one call of yaml_load; anything but accept/refuse (an exception out of yaml_load itself, a hang) is judged as an escape
        # that no site explains
        return ("{| c_x := false; c_entry := %s; c_obs := %s; c_cls := None; c_sites := []; c_selfref := false; c_deep := false; c_asked := false; "
                "c_nonmap := false; c_subcmd := false; c_tuplecyc := false; c_heap := %s |}" % (g_N(m["entries"]["parse_string"]), g_obs(obs), g_heap(obs)))
    return "{| c_x := %s; c_entry := %s; c_obs := %s; c_cls := %s; c_sites := %s; c_selfref := %s; c_deep := %s; c_asked := %s; c_nonmap := %s; c_subcmd := %s; c_tuplecyc := %s; c_heap := None |}" % (
        g_bool(case["x"]), g_N(m["entries"][case["entry"]]), g_obs(obs),
        g_opt(None if cid is None else g_N(cid)), g_list([g_N(i) for i in sites[:12]], "N"), g_bool(selfref(case)), g_bool(deep(case)), g_bool(asked(case)), g_bool(nonmap(case)), g_bool(case["shape"] == "subcommands"), g_bool(tuplecyc(case)))


def nontrivial_key(case, obs):
    if obs["k"] == "ret":
        return None
    if obs["k"] == "cyc":   # non-trivial: the value holds sharing or a cycle (fewer container nodes than container slots), or is refused
        return json.dumps(["cycle_check", case["input"]]) if obs["rejected"] or len(obs["heap"]) > 1 else None
    return json.dumps([case["shape"], case["x"], case["entry"], case["input"], case.get("dcf"), case.get("files"), case.get("stdin"), case.get("history"), case.get("nested_x"), case.get("cwd"),
                       case.get("argv_via"), case.get("namespace")], sort_keys=True)


def category(case, obs):
    if obs["k"] == "cyc":
        return "yaml_load/cycle_check/%s%s" % ("refused" if obs["rejected"] else "accepted", "/tuples" if any(k == 2 for k, _ in obs["heap"]) else "")
    if obs["k"] == "exc":
        what = "ArgumentError" if obs["argerr"] else obs["cls"].rsplit(".", 1)[-1]
    elif obs["k"] == "exit":
        what = "exit%d" % obs["code"]
    else:
        what = obs["k"]
    return "%s/%s/%s" % (case["entry"], "exit_on_error" if case["x"] else "raise", what)


def describe(case, obs):
    m = ir_meta()
    cid, sites = attribute(obs)
    if case["entry"] == "cycle_check":
        return {"call": "jsonargparse._loaders_dumpers.yaml_load(text)", "text": case["input"],
                "observed": {k: v for k, v in obs.items() if k != "frames"},
                "reading": "heap = the value PyYAML builds (kind 0 dict / 1 list / 2 tuple / 3 other, item ids); rejected = yaml_load raised YAMLError"}
    d = {"parser_shape": case["shape"], "exit_on_error": case["x"], "method": case["entry"], "input": case["input"]}
    if case.get("argv_via") == "sys":
        d["argv"] = "parse_args() called without a list; sys.argv = ['prog'] + input"
    if case.get("namespace") is not None:
        d["namespace_argument"] = case["namespace"]
    if case.get("stdin") == "none":
        d["stdin"] = "closed (sys.stdin is None)"
    if case.get("nested_x", "same") != "same":
        d["nested_parsers_exit_on_error"] = {"default": "constructor default (True)", "opposite": not case["x"]}[case["nested_x"]]
    if case.get("history"):
        d["earlier_calls_on_the_same_parser"] = case["history"]
    if case.get("cwd") == "deleted":
        d["cwd"] = "the working directory (with the scratch files) is removed before the call"
    if case.get("dcf") is not None:
        d["default_config_file_content"] = case["dcf"]
    if case.get("files"):
        d["files"] = case["files"]
    o = {k: v for k, v in obs.items() if k != "frames"}
    if obs.get("frames"):
        o["deepest_jsonargparse_frames"] = [frame_qual(f) + ":%d" % f[2] for f in obs["frames"][-4:][::-1]]
    d["observed"] = o
    if sites:
        d["model_candidate_sites"] = ["%d: %s at %s:%d [%s]" % (i, m["sites"][i]["cls"], m["sites"][i]["fn"], m["sites"][i]["line"], m["sites"][i]["kind"][:60])
                                      for i in sites[:4]]
    elif cid is not None:
        d["model_site"] = "none: the IR has no raise site of class %s on this traceback" % obs_class(obs)
    return d


def shrink(case):
    inp = case["input"]
    if case.get("dcf") is not None:
        yield {k: v for k, v in case.items() if k != "dcf"}
    if case.get("stdin"):
        yield {k: v for k, v in case.items() if k != "stdin"}
    if case.get("cwd"):
        yield {k: v for k, v in case.items() if k != "cwd"}
    if case.get("namespace") is not None:
        yield {k: v for k, v in case.items() if k != "namespace"}
    if case.get("argv_via"):
        yield {k: v for k, v in case.items() if k != "argv_via"}
    if case.get("history"):
        yield {k: v for k, v in case.items() if k != "history"}
        if len(case["history"]) > 1:
            for i in range(len(case["history"])):
                yield dict(case, history=case["history"][:i] + case["history"][i + 1:])
        for i, h in enumerate(case["history"]):
            if isinstance(h["input"], list) and len(h["input"]) > 1:
                for j in range(len(h["input"])):
                    yield dict(case, history=case["history"][:i] + [dict(h, input=h["input"][:j] + h["input"][j + 1:])] + case["history"][i + 1:])
    if case.get("files"):
        yield {k: v for k, v in case.items() if k != "files"}
    if isinstance(inp, list):
        for i in range(len(inp)):
            yield dict(case, input=inp[:i] + inp[i + 1:])
    elif isinstance(inp, dict) and "$" not in inp:
        for k in list(inp):
            yield dict(case, input={a: b for a, b in inp.items() if a != k})
    elif isinstance(inp, str) and case["entry"] == "parse_string":
        lines = inp.splitlines()
        for i in range(len(lines)):
            yield dict(case, input="\n".join(lines[:i] + lines[i + 1:]) + "\n")


def search(rng, tier, broken):
    """failing-input search after a proof/tie broke: ONE fresh quick-sized batch of the same grammar (bounded: about the cost of
    the quick correspondence), first input whose observation is outside the channel and not a listed finding"""
    known = framework.load_known_findings(PROP)
    cases = directed()
    cases += gen_cycle_cases(rng, 200, set())
    while len(cases) < 3200:
        c = gen_case(rng)
        try:
            json.dumps(c)
        except (ValueError, TypeError):
            continue
        cases += [dict(c, x=False), dict(c, x=True)]
    obs = observe(cases)
    bm, bi, bo = framework.judge_cases(__import__("tie.props.c03", fromlist=["x"]), cases, obs, tag="x")
    bad = sorted(set(bi) | {i for i, k in bo if FINDING_CLASSES.get(k) not in known})
    if bad:
        i = bad[0]
        return {"case": cases[i], "observed": {k: v for k, v in obs[i].items()}, "explain": describe(cases[i], obs[i])}
    return None


def extra_coverage(tier):
    try:
        m = ir_meta()
        return {"ir": {"functions": len(m["functions"]), "raise_sites": len(m["sites"]), "classes": len(m["classes"])}}
    except OSError:
        return {}

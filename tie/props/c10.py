"""C10 — parse results are fixed points.
Real parsers (tie/impl/c10_run.py): cfg = parse(x); parser.validate(cfg); parse_object(cfg.clone());
parse_object(cfg.clone().as_dict()).  Modelled cases (kind "ns") are judged against Model/C10Adapt.v + Model/C10Parser.v
and Spec/C10Spec.v inside Coq; cases outside the modelled grammar (kind "x") are judged against the spec only."""
import json
import sys
from decimal import Decimal

from tie.framework import g_bool, g_list, g_pair, g_str, g_Z, run_impl_parallel

PROP = "C10"
IMPORTS = "From JV Require Import Lib.Base Model.C10Adapt Model.C10Parser Model.C10Nargs Spec.C10Spec Corr.C10Judge."
RULE = ("kind ns (modelled): a seeded random parser of 1-3 typed arguments under plain or dotted keys (type grammar: str, int, "
        "float, bool, Any, Literal, Enum, Optional/Union of 2-3 members, List, Dict[str,_], Dict[int,_], Tuple[..], Tuple[T,...], "
        "Set, nesting depth <=3; defaults absent, conforming, given as text, or a non-conforming str) and an object for "
        "parse_object whose values are drawn per type: the canonical Python value, the same with scalars as text ('1', "
        "'true', 'null', enum names), with other container kinds (tuple/list/set swapped, duplicates for sets, str or float "
        "keys for Dict[int,_]), the whole value as JSON/YAML text, or junk from a pool; a curated list of Union shapes known to "
        "re-select is always included. kind x (spec only): paths, registered types (complex, timedelta incl. durations of exactly one day "
        "and negative ones, range, Decimal, UUID, pathlib.Path; also given as Python instances), restricted types, Enum, "
        "dataclasses, subclass specs and the modelled types through the argv and string channels incl. list append, bare and "
        "under Optional/List/Dict/Tuple/Set/Union; and parsers with 2-4 options whose names are prefix-related "
        "(model/model_ema/mod, opt/optim, k/k2/k2b, ...), most of them subclass-typed (two class families with "
        "**kwargs-forwarding subclasses) with lazy_instance defaults, the command line / object / string switching classes and "
        "setting init_args in every spelling (--name=Cls, --name.class_path, --name.p, --name.init_args.p, JSON spec). Options of mapping / list / "
        "dataclass type declared with enable_path=True and given as a PATH to a yaml/json/line file written for the case (the value "
        "keeps its '__path__' entry), from argv, object, string and a --cfg file (channel cfgfile, also for the multi-option "
        "parsers). 30 % of the multi-option cases are preceded, in the same process, by a FAILED parse_args on another parser of the "
        "same shape (subclass options incl. their None-default init_args given, then a --cfg that is missing / broken / names an "
        "unknown key). 20 % of the x cases are containers (Dict[str,_], List, Tuple[_, ...], "
        "Tuple[_, int], Dict[str, List[_]]) whose items are a registered / restricted / path / Enum type or a class spec, bare "
        "or Optional, with None items next to real ones, and for class specs a declared default holding entries under the same "
        "keys (same or another class, its own init_args); all channels. 10 % of the x cases are str-accepting options (str, Optional[str], "
        "List/Dict/Tuple/Set of str, Union[str, float|int|bool] in both orders, Any, Literal of look-alikes) holding strings that a "
        "YAML 1.1 / custom-float resolver could take for a non-string (signed and unsigned exponents, 1_000, 0x1F, 0o7, 1:30, .5, "
        "5., .inf, yes/No/ON, NULL/~, dates, indicator characters, ...), given as objects or double-quoted in text. A third class family keeps **kwargs (Legacy/Modern; Strict does not): "
        "specs and declared defaults carry dict_kwargs, inputs keep the class, switch to the other **kwargs class or to one without, "
        "with or without their own extras, in every spelling and channel (5 % dedicated cases plus the multi-option parsers). Every x "
        "case also runs the dump leg: dump(cfg), parse_string of it compared with cfg modulo '__path__' "
        "entries, and the dump of that compared byte for byte. non-trivial = the first parse is accepted and some value changed representation or "
        "is a container; distinct = distinct (parser, input). Round 6: kind nl (modelled, Model/C10Nargs.v): one list-valued option "
        "(nargs '+', '*', 1, 2) of a random modelled type and the value given for it in an object (a list of items drawn like any value "
        "of the type incl. text and junk; now and then a tuple / set / str / mapping / scalar / empty sequence). 40 % of the x cases and "
        "8 % of the ns cases carry a CALL HISTORY between the parse and the checks: 1-3 calls that the library rejects, each at "
        "another stage (bad value, unknown key, missing --cfg file, required option missing, a selected class whose own default "
        "violates its annotation — rejected inside add_sub_defaults — through argv / object / string / inside a list, a bad dataclass "
        "field in a list, broken text, and rejections by the parser under test itself); such cases run in a forked child so that a "
        "leak shows in that case and cannot mask later ones. New x shapes: Annotated (plain, pydantic validator), Type[...], "
        "OrderedDict[str,_], TypedDict with NotRequired keys, Callable given as a function path, a dataclass given like a class spec, "
        "nested command-line keys into Dict / Optional[dataclass] / the last item of a List of class specs, list-valued (nargs) options "
        "of registered / path / Enum / Optional types through every channel, required options, partially given dataclasses as items "
        "of Dict / Tuple containers. Every leg (validate, parse_object, dump) gets its own clone of the configuration and must leave "
        "it as it was")
TRUSTED = [
    "Coq 8.16.1 kernel + vm_compute",
    "tie/impl/c10_run.py (builds the real parser, runs parse/validate/parse_object, encodes values by exact Python kind; "
    "sets listed in a canonical order and compared as sets) and the Gallina printer in tie/props/c10.py",
    "hand-written models coq/Model/C10Adapt.v (adapt_typehints, _check_type), coq/Model/C10Nargs.v (_check_type of a list-valued "
    "option) and coq/Model/C10Parser.v (parse_object, validate), tied by per-case agreement evaluated inside Coq",
    "the text readers (json_or_yaml_load, parse_value_or_config, int) are not modelled: the theorems hold for arbitrary "
    "readers, the correspondence feeds the model what the real readers answered for every string of the case",
]
ASSUMPTIONS = [
    "floats are compared as normalised decimals of their repr (generators keep to short decimals)",
    "no input string names an existing file (enable_path is off for typed arguments anyway); the runner works in an empty scratch directory",
    "the model is a pure function of (type, value): adapt_typehints copies list/dict values before adapting their items "
    "(fix ce28ec8) and parse_object works on a copy of its argument (fix e3cc9bb); a recurrence of in-place residue shows as a "
    "model disagreement (curated cases Union[List[int], List[str]] on ['1','a'] etc.)",
    "declared defaults of list-append arguments conform to their type (parse_args never checks an overridden default)",
    "dict objects carry no dotted keys and no scalar for a group key; parsers have no environment, config-file argument, "
    "subcommand or link (those are C04/C06/C15/C17)",
    "declared defaults reach the model as the parser keeps them (ActionTypeHint.normalize_default, e.g. an Enum member becomes its "
    "name, is observed, not modelled); generated type hints are normalised the way typing does (nested Unions flattened, duplicates dropped)",
    "equality of configurations ignores the ORDER of dict items (Python's == on dict / Namespace); the model tie still compares it",
    "metadata: the object re-parse must hand back the '__path__' entries it was given (full equality); the dump leg compares "
    "modulo '__path__' entries, which text cannot carry (DESIGN A.6)",
    "history: C10 quantifies over parsers and inputs; call histories are C09's subject, but a parse result must stay a fixed point "
    "whatever the library refused in between, so two cheap history shapes are exercised: a failed --cfg load BEFORE the parse (pre) "
    "and 1-3 rejected calls BETWEEN the parse and the checks (mid, tie/impl/c10_run.py fault_call); cases with a history run in a "
    "forked child of the runner",
    "list-valued options (kind nl): the model ignores the COUNT nargs demands (parse_object / validate never check it; argparse "
    "does, on the command line only); one option, no default, value given through parse_object",
    "kind x: equality of opaque values (paths, registered-type instances) is equality of (type name, repr / relative -> absolute "
    "path); a Decimal is compared by value (Decimal('1.50') == Decimal('1.5')), as Python does",
]
EXHAUSTIVE = {"quick": False, "thorough": False}
FINDING_CLASSES = {1: "union-reselects-member", 2: "union-reselects-member", 3: "union-dump-wrong-member", 4: "set-dump-order",
                   5: "dict-kwargs-default-merge"}

# ---------------------------------------------------------------------------------------------------------------------
# tagged values / types
# ---------------------------------------------------------------------------------------------------------------------
NONE = ["none"]


def I(n):
    return ["int", n]


def S(s):
    return ["str", s]


def B(b):
    return ["bool", b]


def F(x):
    return ["float", repr(float(x))]


def L(xs):
    return ["list", list(xs)]


def T(xs):
    return ["tuple", list(xs)]


def SET(xs):
    return ["set", list(xs)]


def D(kvs):
    return ["dict", [list(kv) for kv in kvs]]


def O(kind, text):
    """a Python instance of a registered type (object channel only)"""
    return ["obj", kind, text]


def has_obj(v):
    if v[0] == "obj":
        return True
    if v[0] in ("list", "tuple", "set"):
        return any(has_obj(x) for x in v[1])
    if v[0] == "dict":
        return any(has_obj(b) for _, b in v[1])
    return False


ENUMS = [("Color", ["red", "green", "blue"]), ("Sz", ["s", "m", "true"])]
LITS = [[I(1), I(2)], [S("a"), S("b")], [S("a"), I(1), NONE], [S("1"), I(1)], [B(True), S("x")], [I(3), NONE], [S("true"), B(False)]]
JUNK = [S("abc"), S(""), S(" "), S("1"), S("-3"), S("1.5"), S("1e3"), S("true"), S("null"), S("red"), S("[1, 2]"), S("[[1]]"),
        S("{a: 1}"), S("{1: a}"), S("[a, b]"), S("'1'"), S("0x10"), S("~"), S("yes"), S("- 1"), S("[1, 1]"), S("[true]"),
        S("[null]"), S("{}"), S("[]"), S("1, 2"), S("(1, 2)"), S("a: b"), S("-"), S("[2, 1]"), S("[red]"),
        I(0), I(1), I(-3), F(1.5), F(2.0), B(True), B(False), NONE, L([]), L([I(1), I(2)]), L([S("1"), S("2")]), T([I(1), I(2)]),
        SET([I(1), I(2)]), D([]), D([(S("a"), I(1))]), D([(I(1), S("a"))]), D([(S("1"), S("a"))]), L([L([I(1)])]),
        L([I(1), S("1")]), L([NONE]), L([B(True)]), L([I(2), I(1), I(2)]), L([S("b"), S("a")]), D([(S("a"), L([I(1)]))])]


def norm_ty(t):
    """what typing makes of the hint: nested Unions flattened (at every level), duplicate members dropped, Union[X] = X"""
    k = t[0]
    if k == "union":
        out = []
        for m in t[1]:
            m = norm_ty(m)
            for x in (m[1] if m[0] == "union" else [m]):
                if x not in out:
                    out.append(x)
        return out[0] if len(out) == 1 else ["union", out]
    if k in ("list", "tuplevar", "set"):
        return [k, norm_ty(t[1])]
    if k == "dict":
        return [k, t[1], norm_ty(t[2])]
    if k == "tuple":
        return [k, [norm_ty(x) for x in t[1]]]
    return t


def gen_type(rng, depth):
    return norm_ty(gen_type_(rng, depth))


def gen_type_(rng, depth):
    if depth <= 0 or rng.random() < 0.3:
        k = rng.randrange(10)
        if k < 6:
            return [["str"], ["int"], ["float"], ["bool"], ["any"], ["int"]][k]
        if k < 8:
            return ["lit", rng.choice(LITS)]
        n, ms = rng.choice(ENUMS)
        return ["enum", n, ms]
    k = rng.randrange(10)
    if k == 0:
        return ["union", [gen_type(rng, depth - 1), ["none"]]]
    if k in (1, 2):
        ms = [gen_type(rng, depth - 1) for _ in range(rng.randint(2, 3))]
        if rng.random() < 0.25:
            ms.insert(rng.randrange(len(ms) + 1), ["none"])
        out = []
        for m in ms:                      # typing flattens nested Unions and drops duplicates
            for x in (m[1] if m[0] == "union" else [m]):
                if x not in out:
                    out.append(x)
        return out[0] if len(out) == 1 else ["union", out]
    if k == 3:
        return ["list", gen_type(rng, depth - 1)]
    if k == 4:
        return ["dict", False, gen_type(rng, depth - 1)]
    if k == 5:
        return ["dict", True, gen_type(rng, depth - 1)]
    if k == 6:
        return ["tuple", [gen_type(rng, depth - 1) for _ in range(rng.randint(1, 3))]]
    if k == 7:
        return ["tuplevar", gen_type(rng, depth - 1)]
    if k == 8:
        return ["set", gen_type(rng, min(depth - 1, 1))]
    return ["list", gen_type(rng, depth - 1)]


def render(v):
    """JSON/YAML-flow text of a tagged value"""
    k = v[0]
    if k == "none":
        return "null"
    if k == "bool":
        return "true" if v[1] else "false"
    if k == "int":
        return str(v[1])
    if k == "float":
        return v[1]
    if k == "str":
        s = v[1]
        return s if s and all(c.isalnum() or c in "_." for c in s) else json.dumps(s)
    if k == "enum":
        return v[2]
    if k in ("list", "tuple", "set"):
        return "[" + ", ".join(render(x) for x in v[1]) + "]"
    if k == "dict":
        return "{" + ", ".join("%s: %s" % (render(a), render(b)) for a, b in v[1]) + "}"
    return "x"


def hashable(v):
    if v[0] == "tuple":
        return all(hashable(x) for x in v[1])
    return v[0] in ("int", "str", "bool", "float", "none", "enum")


def conforming(rng, t):
    """a canonical value of the type, no junk (used for defaults that must conform)"""
    for _ in range(20):
        v = gen_value(rng, t, 0, junk=False)
        if v is not None:
            return v
    return NONE


def gen_value(rng, t, style, junk=True):
    """a value the type should accept; style 0 = canonical, 1 = scalars as text, 2 = other container kinds"""
    if junk and rng.random() < 0.07:
        return rng.choice(JUNK)
    k = t[0]
    txt = style == 1 and rng.random() < 0.7
    if k == "str":
        return S(rng.choice(["abc", "x y", "1", "true", "null", "", "[1]", "a: b", "red"]))
    if k == "int":
        n = rng.choice([0, 1, 2, 7, -3, 12])
        return S(str(n)) if txt else I(n)
    if k == "float":
        x = rng.choice([0.5, 1.5, -2.25, 1000.0, 3.0])
        if rng.random() < 0.3:
            n = rng.choice([1, 2, -4])
            return S(str(n)) if txt else I(n)
        return S(repr(x)) if txt else F(x)
    if k == "bool":
        b = rng.random() < 0.5
        return S("true" if b else "false") if txt else B(b)
    if k == "none":
        return S("null") if txt else NONE
    if k == "any":
        return rng.choice(JUNK) if junk else I(1)
    if k == "lit":
        x = rng.choice(t[1])
        if txt and x[0] != "str":
            return S(render(x))
        if style == 2 and x[0] == "int" and rng.random() < 0.4:
            return rng.choice([F(x[1]), B(True)])
        return x
    if k == "enum":
        m = rng.choice(t[2])
        return S(m) if (txt or (junk and rng.random() < 0.5)) else ["enum", t[1], m]
    if k == "union":
        return gen_value(rng, rng.choice(t[1]), style, junk)
    if k in ("list", "tuplevar", "set"):
        n = rng.randint(0, 3)
        xs = [gen_value(rng, t[1], style, junk) for _ in range(n)]
        if k == "set" and xs and rng.random() < 0.4:
            xs.append(xs[0])
        kind = {"list": "list", "tuplevar": "tuple", "set": "set"}[k]
        if style == 2 or rng.random() < 0.25:
            kind = rng.choice(["list", "tuple", "set"])
        if kind == "set":
            ok = [x for x in xs if hashable(x)]
            uniq = []
            for x in ok:
                if x not in uniq:
                    uniq.append(x)
            return SET(uniq) if len(ok) == len(xs) else L(xs)
        return [kind, xs]
    if k == "tuple":
        xs = [gen_value(rng, m, style, junk) for m in t[1]]
        if junk and rng.random() < 0.08:
            xs = xs[:-1] if rng.random() < 0.5 else xs + [I(1)]
        return [rng.choice(["tuple", "list"]) if style != 0 else "tuple", xs]
    if k == "dict":
        n = rng.randint(0, 3)
        kvs = []
        for i in range(n):
            if t[1]:
                key = rng.choice([1, 2, 3, 10])
                kk = I(key)
                if style != 0:
                    kk = rng.choice([I(key), S(str(key)), S(str(key)), F(key + 0.5), B(True)])
            else:
                kk = S(rng.choice(["a", "b", "c", "1"]))
            if all(kk != q[0] for q in kvs):
                kvs.append([kk, gen_value(rng, t[2], style, junk)])
        return D(kvs)
    raise ValueError(t)


KEYSETS = [["k"], ["k"], ["k"], ["a", "g.b"], ["a", "g.b", "g.h.c"], ["g.x", "g.y"]]


def nest(assign):
    """[(dotted key, tagged value)] -> tagged nested dict"""
    root = []

    def put(node, parts, v):
        if len(parts) == 1:
            node.append([S(parts[0]), v])
            return
        for kv in node:
            if kv[0] == S(parts[0]) and kv[1][0] == "dict":
                put(kv[1][1], parts[1:], v)
                return
        sub = ["dict", []]
        node.append([S(parts[0]), sub])
        put(sub[1], parts[1:], v)

    for k, v in assign:
        put(root, k.split("."), v)
    return ["dict", root]


def ns_case(decls, assign):
    return {"kind": "ns", "decls": decls, "obj": nest(assign)}


def unset(v):
    """sets of a declared default become lists: the parser copies defaults, which may reorder a set"""
    k = v[0]
    if k in ("list", "tuple", "set"):
        return ["list" if k == "set" else k, [unset(x) for x in v[1]]]
    if k == "dict":
        return ["dict", [[a, unset(b)] for a, b in v[1]]]
    return v


def gen_ns(rng):
    keys = rng.choice(KEYSETS)
    decls, assign = [], []
    for key in keys:
        t = gen_type(rng, rng.randint(0, 3))
        r = rng.random()
        if r < 0.7 or len(keys) == 1 and r < 0.85:
            dflt = NONE
        elif r < 0.9:
            dflt = gen_value(rng, t, rng.choice([0, 0, 1, 2]))
            if rng.random() < 0.3:
                dflt = S(render(dflt))
        else:
            dflt = S(rng.choice(["zz", "abc", "1"]))
        decls.append({"key": key, "ty": t, "default": unset(dflt)})
        if rng.random() < (0.95 if len(keys) == 1 else 0.7):
            v = gen_value(rng, t, rng.choice([0, 1, 1, 2]))
            if rng.random() < 0.3 and v[0] != "str":
                v = S(render(v))
            if rng.random() < 0.03:
                v = NONE
            assign.append((key, v))
    if rng.random() < 0.02:
        assign.append(("zz", I(1)))
    return ns_case(decls, assign)


def gen_nl(rng):
    """kind nl (modelled, Model/C10Nargs.v): ONE list-valued option (nargs '+', '*', 1, 2; no default) of a modelled type and
    the value given for it in an object: mostly a list of items drawn like any value of the type (text, other kinds, junk),
    now and then a tuple / set / str / mapping / scalar / empty sequence (refused, or handed back untouched when empty)"""
    t = gen_type(rng, rng.randint(0, 2))
    nargs = rng.choice(["+", "+", "*", 2, 1])
    r = rng.random()
    n = rng.randint(0, 3)
    items = [gen_value(rng, t, rng.choice([0, 1, 1, 2])) for _ in range(n)]
    if r < 0.8:
        v = L(items)
    elif r < 0.86:
        v = rng.choice([T(items), T([]), S(""), S("ab"), SET([]), D([]), D([(S("a"), I(1))]), I(3), L([])])
    elif r < 0.93:
        v = L([S(render(x)) if x[0] != "str" else x for x in items])
    else:
        v = L(items + [NONE])
    return {"kind": "nl", "decls": [{"key": "k", "ty": t, "default": NONE, "nargs": nargs}], "obj": D([(S("k"), v)])}


def curated_nl():
    mk = lambda t, v, nargs="+": {"kind": "nl", "decls": [{"key": "k", "ty": t, "default": NONE, "nargs": nargs}],  # noqa: E731
                                  "obj": D([(S("k"), v)])}
    U = lambda *ms: ["union", list(ms)]  # noqa: E731
    return [mk(INT, L([S("1"), I(2)])), mk(FLT, L([S("1"), I(1), F(0.5)])), mk(COLOR, L([S("red"), ["enum", "Color", "blue"]])),
            mk(U(INT, NON), L([S("1"), NONE, S("null")])), mk(["list", INT], L([S("[1, 2]"), L([S("3")])])), mk(INT, L([]), "*"),
            mk(INT, T([I(1)])), mk(INT, T([])), mk(INT, S("")), mk(INT, S("12")), mk(INT, D([])), mk(INT, I(3)), mk(STR, L([S("a"), I(1)])),
            mk(U(STR, INT), L([S("1"), S("[1]"), I(2)])), mk(ANY, L([S("1"), S("x")])), mk(["set", INT], L([L([I(1), I(1)])])),
            mk(U(["tuple", [INT]], ["set", INT]), L([L([I(1), I(1)])])), mk(INT, L([I(1), I(2), I(3)]), 2), mk(INT, NONE)]


def one(t, v, dflt=NONE):
    return ns_case([{"key": "k", "ty": t, "default": dflt}], [("k", v)])


INT, STR, FLT, BOOL, ANY, NON = ["int"], ["str"], ["float"], ["bool"], ["any"], ["none"]
COLOR = ["enum", "Color", ["red", "green", "blue"]]
WEIRD = ["enum", "W", ["[2, 1]", "a"]]


def curated():
    U = lambda *ms: ["union", list(ms)]  # noqa: E731
    cs = [
        # Unions that re-select a member on the adapted value (finding union-reselects-member)
        one(U(["tuple", [INT]], ["set", INT]), L([I(1), I(1)])),
        one(U(["tuple", [INT, INT]], ["set", INT]), L([I(1), I(2), I(1)])),
        one(U(["set", ["lit", [I(1)]]], ["list", BOOL]), L([S("true")])),
        one(["set", U(WEIRD, STR)], S("[2, 1]")),
        one(["list", U(["tuple", [INT]], ["set", INT])], L([L([I(2), I(2)]), L([I(3)])])),
        one(["dict", False, U(["tuple", [INT]], ["set", INT])], D([(S("a"), L([I(5), I(5)]))])),
        # a failed Union member must leave nothing behind for the next one (values are copied since fix ce28ec8)
        one(U(["list", INT], ["list", STR]), L([S("1"), S("a")])), one(U(["list", INT], ANY), L([S("1"), S("a")])),
        one(U(["dict", False, INT], ["dict", False, STR]), D([(S("a"), S("1")), (S("b"), S("x"))])),
        # orig_val fallback followed by a failing member: the last ACCEPTING entry is taken (fix ec37b24), never an exception object
        one(U(STR, INT), S("[1]")), one(U(INT, STR), S("[1]")), one(U(STR, INT), S("null")), one(U(INT, STR), S("null")),
        one(["list", U(INT, STR)], S("[[1]]")), one(["list", U(STR, INT)], S("[[1]]")),
        # representation changes that must be stable
        one(INT, S("1")), one(FLT, I(1)), one(FLT, S("1")), one(BOOL, S("true")), one(COLOR, S("red")),
        one(COLOR, ["enum", "Color", "green"]), one(["tuplevar", INT], L([S("1"), I(2)])), one(["set", INT], L([I(2), I(1), I(2)])),
        one(["set", STR], T([S("b"), S("a"), S("b")])), one(["tuple", [INT, STR]], L([S("3"), S("x")])),
        one(["dict", True, STR], D([(S("1"), S("a")), (S("2"), S("b"))])), one(["dict", True, INT], D([(F(1.5), I(2))])),
        one(["dict", True, INT], D([(S("1"), I(1)), (I(1), S("2"))])),
        one(["lit", [I(1), I(2)]], S("1")), one(["lit", [I(1), I(2)]], B(True)), one(["lit", [I(1), I(2)]], F(1.0)),
        one(["lit", [S("1"), I(1)]], S("1")), one(ANY, S("[1, '2']")), one(ANY, S("1")), one(ANY, ["enum", "Color", "red"]),
        one(["list", ANY], L([S("1"), S("x"), S("[2]")])), one(U(INT, NON), S("null")), one(U(FLT, INT), S("1")),
        one(U(INT, FLT), S("1")), one(U(INT, FLT), F(2.0)), one(U(BOOL, INT), S("1")), one(U(COLOR, STR), S("red")),
        one(U(STR, COLOR), S("red")), one(U(["list", INT], STR), S("[1, 2]")), one(U(STR, ["list", INT]), S("[1, 2]")),
        one(U(["list", INT], ["dict", False, INT]), S("{a: 1}")), one(["list", U(INT, NON)], L([S("1"), NONE, S("null")])),
        one(INT, S("zz"), S("zz")), one(INT, S("7"), S("zz")), one(["list", INT], L([S("1")]), T([S("1"), I(2)])),
        ns_case([{"key": "a", "ty": INT, "default": S("3")}, {"key": "g.b", "ty": ["list", INT], "default": T([S("1"), I(2)])},
                 {"key": "g.h.c", "ty": FLT, "default": I(1)}], [("g.h.c", S("2"))]),
        ns_case([{"key": "a", "ty": INT, "default": NONE}, {"key": "g.b", "ty": U(INT, NON), "default": I(5)}], [("g.b", NONE)]),
        ns_case([{"key": "a", "ty": INT, "default": NONE}], [("b", I(1))]),
    ]
    return cs


# ---------------------------------------------------------------------------------------------------------------------
# kind x: outside the modelled grammar (spec only)
# ---------------------------------------------------------------------------------------------------------------------
X_LEAVES = [
    (["path", "fr"], [S("f1.txt"), S("dir1/f3.txt"), S("missing.txt"), S("f2.yaml")]),
    (["path", "dw"], [S("dir1"), S(".")]),
    (["path", "fc"], [S("new.txt"), S("dir1/new.txt"), S("f1.txt")]),
    (["pathlib"], [S("x/y"), S("f1.txt"), S("1"), O("pathlib", "a/b.txt")]),
    (["complex"], [S("(1+2j)"), S("1"), S("2.5"), S("1j"), I(3), F(2.5), B(True), S("false"), O("complex", "(3-4j)")]),
    (["timedelta"], [S("1:00:00"), S("2 days, 0:00:00"), S("0:00:05"), S("24:00:00"), S("30:00:00"), S("26:10:00"), S("1 day, 0:01:00"),
                     S("48:00:00"), S("100:00:00"), S("-1 day, 23:00:00"), O("timedelta", "86460"), O("timedelta", "3600"),
                     O("timedelta", "-90000"), O("timedelta", "172800")]),
    (["range"], [S("range(1, 5)"), S("range(0, 10, 2)"), S("range(5)"), O("range", "1,9,3"), S("range(0, 9, 3)"), O("range", "0,8,2"),
                 S("range(0, -6, -2)"), S("range(2, 2)")]),
    (["decimal"], [S("0.1"), S("1.50"), S("1e3"), S("-7"), O("decimal", "0.1"), O("decimal", "12345678901234567890.123456789"),
                   S("3.14159265358979323846"), S("0.1000000000000000055511151231257827"), O("decimal", "1E+30")]),
    (["uuid"], [S("12345678-1234-5678-1234-567812345678"), O("uuid", "12345678123456781234567812345678")]),
    (["enum", "Color", ["red", "green", "blue"]], [S("red"), ["enum", "Color", "green"]]),
    (["enum", "Sz", ["s", "m", "true"]], [S("true"), S("m"), ["enum", "Sz", "true"]]),
    (["posint"], [S("3"), I(3), S("0"), F(1.0), B(True), S("0x10")]),
    (["unit"], [S("0.5"), I(1), I(0), S("1"), F(0.25)]),
    (["nnfloat"], [S("2"), I(2), F(0.0), S("1e3")]),
    (["email"], [S("a@b.c"), S("nope")]),
    (["data", "D1"], [D([(S("a"), S("2"))]), D([(S("b"), S("y")), (S("c"), L([I(1), S("2")]))]), D([])]),
    (["data", "D2"], [D([(S("p"), I(1)), (S("q"), D([(S("a"), S("3"))]))]), D([(S("r"), L([S("2"), S("b")]))])]),
    (["sub"], [D([(S("class_path"), S("calendar.Calendar")), (S("init_args"), D([(S("firstweekday"), S("2"))]))]),
               S("calendar.TextCalendar"), D([(S("class_path"), S("TextCalendar"))])]),
    # round 6 (reach): Annotated (plain and with a pydantic validator), Type[...], TypedDict with NotRequired keys,
    # Callable given as a function path
    (["annot"], [S("3"), I(3), S("x")]),
    (["annotv"], [S("3"), I(3), S("0"), I(-1)]),
    (["type", "Net"], [S("c10_classes.ConvNet"), S("c10_classes.Net"), S("c10_classes.Sgd")]),
    (["tdict"], [D([(S("a"), S("1"))]), D([(S("a"), I(1)), (S("b"), S("x"))]), D([(S("a"), I(1)), (S("c"), L([S("1"), I(2)]))]),
                 D([(S("b"), S("x"))]), D([(S("a"), I(1)), (S("z"), I(1))])]),
    (["callable"], [S("c10_classes.double"), S("c10_classes.halve"), S("c10_classes.nope")]),
]
DATA_AS_SPEC = D([(S("class_path"), S("__main__.D1")), (S("init_args"), D([(S("a"), S("2"))]))])   # a dataclass given like a class spec

# calls that the library rejects (tie/impl/c10_run.py, fault_call): a parse result stays a fixed point whatever was refused in between
FAULTS = ["bad_value", "unknown_key", "cfg_missing", "required_missing", "sub_default", "sub_default_object", "sub_default_string",
          "sub_default_in_list", "dataclass_field", "string_broken", "same_unknown_key", "same_bad_string", "same_validate"]


def with_mid(rng, case, prob):
    if rng.random() < prob:
        case["mid"] = rng.sample(FAULTS, rng.randint(1, 3))
    return case


# ---- parsers with several options whose names are prefix-related, subclass-typed options with defaults ---------------
FAMILIES = {
    "Net": {"Net": {"width": "int"}, "ConvNet": {"kernel": "int", "stride": "int", "width": "int"},
            "MlpNet": {"hidden": "int", "dropout": "float", "width": "int"}},
    "Opt": {"Opt": {"lr": "float"}, "Sgd": {"momentum": "float", "nesterov": "bool", "lr": "float"},
            "Adam": {"eps": "float", "decay": "float", "lr": "float"}},
    "Plug": {"Plug": {"x": "int"}, "Legacy": {"a": "int"}, "Modern": {"b": "int"}, "Strict": {"c": "int"}},
}
KWARGS_CLASSES = ["Legacy", "Modern"]          # **kwargs kept by the class: extra keys travel as dict_kwargs
EXTRA_KEYS = ["p", "q", "r"]


def gen_extras(rng, cls, prob):
    if cls not in KWARGS_CLASSES or rng.random() > prob:
        return []
    return [[q, rng.choice([I(1), I(2), S("v"), F(0.5)])] for q in rng.sample(EXTRA_KEYS, rng.randint(1, 2))]


def sub_default(rng, fam, cls):
    """a declared default for a subclass-typed option: lazy_instance or a spec dict; **kwargs classes may carry dict_kwargs"""
    ps = [[q, param_value(rng, fam[cls][q])] for q in sorted(fam[cls]) if rng.random() < 0.6]
    extras = gen_extras(rng, cls, 0.7)
    if extras:                       # lazy_instance does not take extra keyword arguments: a spec dict carries them
        spec = [(S("class_path"), S("c10_classes." + cls))]
        if ps:
            spec.append((S("init_args"), D([(S(q), v) for q, v in ps])))
        spec.append((S("dict_kwargs"), D([(S(q), v) for q, v in extras])))
        return D(spec), extras
    return ["lazy", cls, ps], []
OPTIONAL_PARAMS = {"ConvNet": ["stride"], "MlpNet": ["dropout"], "Sgd": ["nesterov"], "Adam": ["decay"]}   # default None: dump omits them
NAMEPOOLS = [["model", "model_ema"], ["model", "model_ema", "mod"], ["opt", "optim"], ["m", "model"], ["k", "k2", "k2b"],
             ["net", "network"], ["a", "ab", "abc"]]


def param_value(rng, kind):
    if kind == "bool":
        return B(rng.random() < 0.5)
    return I(rng.choice([1, 2, 4, 5, 16, 32])) if kind == "int" else F(rng.choice([0.5, 0.25, 0.9, 2.0]))


def gen_x_multi(rng):
    names = list(rng.choice(NAMEPOOLS))
    if rng.random() < 0.3:
        rng.shuffle(names)
    if len(names) > 2 and rng.random() < 0.5:
        names = names[:2]
    base = rng.choice(sorted(FAMILIES))
    fam = FAMILIES[base]
    decls, settings = [], []          # settings: (name, kind, payload)
    for name in names:
        r = rng.random()
        if r < 0.75:
            dcls = rng.choice(sorted(fam)) if rng.random() < 0.8 else None
            if dcls and base == "Plug" and rng.random() < 0.5:
                dcls = rng.choice(KWARGS_CLASSES)
            dflt, dextras = NONE, []
            if dcls:
                dflt, dextras = sub_default(rng, fam, dcls)
            decl = {"key": name, "ty": ["sub", base], "default": dflt}
            if dextras:
                decl["default_kwargs_class"] = "c10_classes." + dcls      # the default carries dict_kwargs (judge: XSubKw)
            decls.append(decl)
            if rng.random() < 0.75:
                switch = dcls is None or rng.random() < 0.6
                cls = rng.choice(sorted(fam)) if switch else dcls
                if switch and base == "Plug" and rng.random() < 0.5:
                    cls = rng.choice(KWARGS_CLASSES)
                ps = [q for q in sorted(fam[cls]) if rng.random() < 0.4]
                settings.append((name, "sub", (cls if switch else None, [[q, param_value(rng, fam[cls][q])] for q in ps],
                                              gen_extras(rng, cls, 0.75))))
        else:
            leaf, vals = rng.choice([lv for lv in X_LEAVES if lv[0][0] not in ("data", "sub")] + [(INT, [S("3"), I(4)]), (STR, [S("abc")])])
            decls.append({"key": name, "ty": leaf, "default": NONE})
            if rng.random() < 0.6:
                settings.append((name, "leaf", rng.choice(vals)))
    if rng.random() < 0.4:
        decls.append({"key": "epochs", "ty": INT, "default": I(1)})
    ch = rng.choice(["args", "args", "object", "string", "cfgfile"])
    if any(kind == "leaf" and has_obj(v) for _, kind, v in settings):
        ch = "object"
    case = {"kind": "x", "decls": decls, "channel": ch}
    if rng.random() < 0.3:
        # a FAILED earlier call in the same process, on another parser of the same shape: options given, then a --cfg that does
        # not load (missing file / invalid content). It must not influence the parses under test.
        pre = []
        for d in decls:
            if d["ty"][0] == "sub":
                cls = rng.choice(sorted(fam))
                pre.append("--%s=%s" % (d["key"], cls))
                for q in sorted(fam[cls]):
                    if q in OPTIONAL_PARAMS.get(cls, []) or rng.random() < 0.3:
                        pre.append("--%s.%s=%s" % (d["key"], q, render(param_value(rng, fam[cls][q]))))
        bad = rng.choice(["missing_file.yaml", "broken.yaml", "unknown_key.yaml"])
        case["pre"] = pre + ["--cfg=" + bad]
        case["files"] = {"broken.yaml": "a: [1, 2\n", "unknown_key.yaml": "no_such_option: 1\n"}
    if ch == "args":
        argv = []
        for name, kind, pl in settings:
            if kind == "leaf":
                argv.append("--%s=%s" % (name, pl[1] if pl[0] == "str" else render(pl)))
                continue
            cls, ps, extras = pl
            style = rng.randrange(4)
            if cls and style == 0:
                spec = {"class_path": cls}
                if ps:
                    spec["init_args"] = {q: json.loads(render(v)) for q, v in ps}
                if extras:
                    spec["dict_kwargs"] = {q: json.loads(render_q(v)) for q, v in extras}
                argv.append("--%s=%s" % (name, json.dumps(spec)))
                continue
            if cls:
                argv.append(("--%s=%s" if style != 1 else "--%s.class_path=%s") % (name, cls if rng.random() < 0.7 else "c10_classes." + cls))
            for q, v in ps:
                argv.append(("--%s.%s=%s" if rng.random() < 0.6 else "--%s.init_args.%s=%s") % (name, q, render(v)))
            for q, v in extras:
                argv.append(("--%s.%s=%s" if rng.random() < 0.5 else "--%s.dict_kwargs.%s=%s") % (name, q, v[1] if v[0] == "str" else render(v)))
        case["input"] = argv
    else:
        kvs = []
        decl_by_name = {d["key"]: d for d in decls}
        for name, kind, pl in settings:
            if kind == "leaf":
                kvs.append((S(name), pl))
                continue
            cls, ps, extras = pl
            spec = []
            if cls:
                spec.append((S("class_path"), S(cls if rng.random() < 0.6 else "c10_classes." + cls)))
            elif extras and decl_by_name[name].get("default_kwargs_class"):
                spec.append((S("class_path"), S(decl_by_name[name]["default_kwargs_class"])))   # the same class, spelled out
            if ps:
                spec.append((S("init_args"), D([(S(q), v) for q, v in ps])))
            if extras:
                spec.append((S("dict_kwargs"), D([(S(q), v) for q, v in extras])))
            if spec:
                kvs.append((S(name), D(spec)))
        text = "".join("%s: %s\n" % (k[1], json.dumps(v[1]) if v[0] == "str" else render(v)) for k, v in kvs) or "{}"
        if ch == "object":
            case["input"] = D(kvs)
        elif ch == "cfgfile":
            case.setdefault("files", {})["main.yaml"] = text
            case["input"] = ["--cfg=main.yaml"]
        else:
            case["input"] = text
    return case


# ---- options that may be given as a PATH to a file (enable_path=True): the value keeps a "__path__" entry -------------
PATH_TYPES = [
    (["dict", False, INT], [("m1.yaml", "cpu: 4\nmem: 16\n"), ("dir1/m2.json", '{"a": 1, "b": "2"}'), ("m3.yaml", "{}\n")],
     [D([(S("cpu"), I(2))]), S("{x: 1}")]),
    (["dict", False, STR], [("s1.yaml", "name: abc\nmode: x y\n")], [D([(S("k"), S("v"))])]),
    (["dict", False, ANY], [("a1.yaml", "n: 1\nl: [1, two]\nd: {e: null}\n")], [D([(S("k"), L([I(1)]))])]),
    (["union", [["dict", False, INT], NON]], [("m1.yaml", "cpu: 4\nmem: 16\n")], [NONE, D([(S("cpu"), I(2))])]),
    (["list", INT], [("l1.txt", "1\n2\n3\n"), ("l2.yaml", "[4, 5]\n")], [L([I(1), S("2")]), S("[7]")]),
    (["list", STR], [("l3.txt", "a\nb c\n")], [L([S("x")])]),
    (["data", "D1"], [("d1.yaml", "a: 2\nb: y\n")], [D([(S("a"), S("3"))])]),
]


def gen_x_path(rng):
    names = rng.choice([["limits"], ["limits", "name"], ["k", "k2"], ["a", "ab"]])
    decls, settings, files = [], [], {}
    for n, name in enumerate(names):
        if n == 0 or rng.random() < 0.5:
            t, fs, inline = rng.choice(PATH_TYPES)
            decls.append({"key": name, "ty": t, "default": NONE, "enable_path": True})
            if rng.random() < 0.75:
                fname, content = rng.choice(fs)
                files[fname] = content
                settings.append((name, S(fname)))
            elif rng.random() < 0.8:
                settings.append((name, rng.choice(inline)))
        else:
            decls.append({"key": name, "ty": STR, "default": S("run")})
            if rng.random() < 0.5:
                settings.append((name, S("from-file")))
    ch = rng.choice(["args", "object", "string", "cfgfile"])
    case = {"kind": "x", "decls": decls, "channel": ch, "files": files}
    text = "".join("%s: %s\n" % (k, json.dumps(v[1]) if v[0] == "str" else render(v)) for k, v in settings) or "{}"
    if ch == "args":
        case["input"] = ["--%s=%s" % (k, v[1] if v[0] == "str" else render(v)) for k, v in settings]
    elif ch == "object":
        case["input"] = D([(S(k), v) for k, v in settings])
    elif ch == "string":
        case["input"] = text
    else:
        files["main.yaml"] = text
        case["input"] = ["--cfg=main.yaml"]
    return case


# ---- containers whose items are Optional[registered / restricted / path type] or (Optional) class specs ----------------
ITEM_KEYS = ["pre", "post", "a", "b"]


def spec_value(rng, fam, cls=None, full_path=None):
    cls = cls or rng.choice(sorted(fam))
    ps = [q for q in sorted(fam[cls]) if rng.random() < 0.4]
    spec = [(S("class_path"), S(("c10_classes." + cls) if (full_path if full_path is not None else rng.random() < 0.6) else cls))]
    if ps or rng.random() < 0.3:
        spec.append((S("init_args"), D([(S(q), param_value(rng, fam[cls][q])) for q in ps])))
    return D(spec), cls


def gen_x_nested(rng):
    use_sub = rng.random() < 0.5
    optional = rng.random() < 0.7
    if use_sub:
        base = rng.choice(sorted(FAMILIES))
        fam = FAMILIES[base]
        elem = ["sub", base]
        mk = lambda: spec_value(rng, fam)[0]  # noqa: E731
    else:
        leaf, vals = rng.choice([lv for lv in X_LEAVES if lv[0][0] != "sub"] + [lv for lv in X_LEAVES if lv[0][0] == "data"] * 2)
        elem = leaf
        mk = lambda: rng.choice(vals)  # noqa: E731
    et = ["union", [elem, NON]] if optional else elem
    item = lambda: NONE if optional and rng.random() < 0.4 else mk()  # noqa: E731
    shape = rng.choice(["dict", "dict", "dict", "list", "tuplevar", "tuple", "dictlist"])
    dflt = NONE
    if shape == "dict":
        t = ["dict", False, et]
        keys = rng.sample(ITEM_KEYS, rng.randint(1, 3))
        v = D([(S(k), item()) for k in keys])
        if optional and len(keys) > 1 and rng.random() < 0.7:       # a real item next to a None item
            v = D([(S(keys[0]), mk()), (S(keys[1]), NONE)] + v[1][2:])
        if use_sub and rng.random() < 0.8:
            # a declared default with entries under the same keys (same or another class, its own init_args)
            dkeys = [k for k in ITEM_KEYS if k in keys or rng.random() < 0.3]
            dflt = D([(S(k), NONE if optional and rng.random() < 0.3 else spec_value(rng, fam, full_path=True)[0]) for k in dkeys])
            if rng.random() < 0.7:           # same class as the input for one common key, other init_args
                for kv in v[1]:
                    if kv[1][0] == "dict":
                        cls = kv[1][1][0][1][1].split(".")[-1]
                        dflt = D([(a, b) for a, b in dflt[1] if a != kv[0]] + [(kv[0], spec_value(rng, fam, cls=cls, full_path=True)[0])])
                        break
    elif shape == "list":
        t = ["list", et]
        v = L([item() for _ in range(rng.randint(1, 3))])
        if use_sub and rng.random() < 0.4:
            dflt = L([spec_value(rng, fam, full_path=True)[0] for _ in range(rng.randint(1, 2))])
    elif shape == "tuplevar":
        t = ["tuplevar", et]
        v = L([item() for _ in range(rng.randint(1, 3))])
    elif shape == "tuple":
        t = ["tuple", [et, INT]]
        v = L([item(), I(3)])
    else:
        t = ["dict", False, ["list", et]]
        v = D([(S(k), L([item() for _ in range(rng.randint(1, 2))])) for k in rng.sample(ITEM_KEYS, rng.randint(1, 2))])
    ch = "object" if has_obj(v) else rng.choice(["object", "args", "string", "string", "cfgfile"])
    case = {"kind": "x", "decls": [{"key": "k", "ty": t, "default": dflt}], "channel": ch}
    if ch == "object":
        case["input"] = D([(S("k"), v)])
    elif ch == "args":
        case["input"] = ["--k=" + render(v)]
    elif ch == "string":
        case["input"] = "k: " + render(v) + "\n"
    else:
        case["files"] = {"main.yaml": "k: " + render(v) + "\n"}
        case["input"] = ["--cfg=main.yaml"]
    return case


# ---- str-accepting options holding strings that LOOK like something else to a YAML 1.1 / custom-float resolver ------------
LOOKALIKE = ["1e3", "-1e3", "+2E10", "-1.5e3", "1.5e-3", "1E5", "+1e3", "-.5e2", "1_000", "-1_0", "0x1F", "-0x1f", "0o7", "010", "0b11",
             "1:30", "-1:30:00", "190:20:30.15", ".5", "-.5", "+.5", "5.", "-5.", "1.", ".inf", "-.inf", "+.INF", ".nan", ".NaN",
             "yes", "No", "ON", "off", "y", "n", "true", "False", "TRUE", "NULL", "null", "Null", "~", "", " ", "2001-01-01",
             "2001-01-01 10:00:00", "=", "<<", "-", "--", "+", "- a", "a: b", "a:b", "#x", "x #y", "[1]", "{a: 1}", "'q'", '"q"', "*a",
             "&a", "!t", "%d", "@a", "`a", "|", ">", "?", ": ", "-1", "+1", "007", "1e", "e3", "1e+", "0.1.2", "1,000", "١٢"]
TEXT_TYPES = [STR, ["union", [STR, NON]], ["list", STR], ["dict", False, STR], ["union", [STR, FLT]], ["union", [FLT, STR]],
              ["union", [STR, INT]], ["union", [INT, STR]], ["union", [STR, BOOL]], ["union", [BOOL, STR, NON]], ["tuple", [STR, INT]],
              ["tuplevar", STR], ["set", STR], ["list", ["union", [STR, NON]]], ["dict", False, ["union", [STR, FLT]]], ANY,
              ["lit", [S("yes"), S("1e3"), S("-1e3")]]]


def render_q(v):
    """like render, every str double-quoted (so that it stays a str in YAML/JSON text)"""
    k = v[0]
    if k == "str":
        return json.dumps(v[1])
    if k in ("list", "tuple", "set"):
        return "[" + ", ".join(render_q(x) for x in v[1]) + "]"
    if k == "dict":
        return "{" + ", ".join("%s: %s" % (render_q(a), render_q(b)) for a, b in v[1]) + "}"
    return render(v)


def gen_x_text(rng):
    t = rng.choice(TEXT_TYPES)
    pick = lambda: S(rng.choice(LOOKALIKE))  # noqa: E731
    k = t[0]
    if k == "list" or k == "tuplevar":
        v = L([pick() for _ in range(rng.randint(1, 3))])
    elif k == "set":
        v = L([pick()])
    elif k == "dict":
        v = D([(S(rng.choice(["a", "b", "key"])), pick()) for _ in range(1)] + ([(S("z"), pick())] if rng.random() < 0.5 else []))
    elif k == "tuple":
        v = L([pick(), I(2)])
    elif k == "lit":
        v = rng.choice(t[1])
    else:
        v = pick()
    dflt = NONE
    ch = rng.choice(["object", "object", "args", "string", "cfgfile"])
    if v[0] == "str" and ch == "args" and v[1].startswith("-") and False:
        ch = "object"
    case = {"kind": "x", "decls": [{"key": "k", "ty": t, "default": dflt}], "channel": ch}
    quoted = render_q(v)
    if ch == "object":
        case["input"] = D([(S("k"), v)])
    elif ch == "args":
        case["input"] = ["--k=" + (v[1] if v[0] == "str" else quoted)]
    elif ch == "string":
        case["input"] = "k: " + quoted + "\n"
    else:
        case["files"] = {"main.yaml": "k: " + quoted + "\n"}
        case["input"] = ["--cfg=main.yaml"]
    return case


def gen_x_kwargs(rng):
    """subclass-typed options whose default spec carries dict_kwargs; the input keeps the class, switches to the other
    **kwargs class or to a class without **kwargs, with or without its own extras, through every channel"""
    fam = FAMILIES["Plug"]
    names = rng.choice([["k"], ["plug", "plug2"], ["k", "name"]])
    decls, kvs, argv = [], [], []
    for name in names:
        if name == "name":
            decls.append({"key": name, "ty": STR, "default": S("run")})
            continue
        dcls = rng.choice(KWARGS_CLASSES)
        dflt, dextras = sub_default(rng, fam, dcls)
        while not dextras:
            dflt, dextras = sub_default(rng, fam, dcls)
        decls.append({"key": name, "ty": ["sub", "Plug"], "default": dflt, "default_kwargs_class": "c10_classes." + dcls})
        if rng.random() < 0.15:
            continue
        cls = rng.choice([dcls, dcls, [c for c in KWARGS_CLASSES if c != dcls][0], "Strict", "Plug"])
        ps = [[q, param_value(rng, fam[cls][q])] for q in sorted(fam[cls]) if rng.random() < 0.4]
        extras = gen_extras(rng, cls, 0.8)
        if extras and rng.random() < 0.5:          # an extra key the default also has, with another value
            q0 = rng.choice(dextras)[0]
            extras = [e for e in extras if e[0] != q0] + [[q0, rng.choice([I(7), S("w"), F(1.5)])]]
        spec = [(S("class_path"), S("c10_classes." + cls if rng.random() < 0.7 else cls))]
        if ps:
            spec.append((S("init_args"), D([(S(q), v) for q, v in ps])))
        if extras:
            spec.append((S("dict_kwargs"), D([(S(q), v) for q, v in extras])))
        kvs.append((S(name), D(spec)))
        argv.append("--%s=%s" % (name, render_q(D(spec))))
    ch = rng.choice(["string", "cfgfile", "object", "args", "string"])
    case = {"kind": "x", "decls": decls, "channel": ch}
    text = "".join("%s: %s\n" % (k[1], render_q(v)) for k, v in kvs) or "{}"
    if ch == "object":
        case["input"] = D(kvs)
    elif ch == "args":
        case["input"] = argv
    elif ch == "string":
        case["input"] = text
    else:
        case["files"] = {"main.yaml": text}
        case["input"] = ["--cfg=main.yaml"]
    return case


def by_channel(rng, case, name, v, channels=("object", "args", "string", "cfgfile")):
    ch = "object" if has_obj(v) else rng.choice(channels)
    case["channel"] = ch
    if ch == "object":
        case["input"] = D([(S(name), v)])
    elif ch == "args":
        case["input"] = ["--%s=%s" % (name, v[1] if v[0] == "str" else render(v))]
    elif ch == "string":
        case["input"] = "%s: %s\n" % (name, json.dumps(v[1]) if v[0] == "str" else render(v))
    else:
        case.setdefault("files", {})["main.yaml"] = "%s: %s\n" % (name, json.dumps(v[1]) if v[0] == "str" else render(v))
        case["input"] = ["--cfg=main.yaml"]
    return case


NARGS_TYPES = [(INT, [S("1"), I(2), S("-3")]), (FLT, [S("1"), F(0.5)]), (COLOR, [S("red"), ["enum", "Color", "blue"]]),
               (["timedelta"], [S("1:00:00"), S("30:00:00")]), (["path", "fr"], [S("f1.txt"), S("dir1/f3.txt")]),
               (["union", [INT, NON]], [S("1"), S("null"), I(4)]), (["posint"], [S("3"), I(1)]), (STR, [S("a"), S("1"), S("x y")]),
               (["list", INT], [S("[1, 2]"), L([I(1)])])]


def gen_x_more(rng):
    """round 6 (reach): shapes of the anchored code that the earlier generators never met"""
    r = rng.randrange(8)
    if r == 0:
        # an ordered / read-only mapping type
        leaf, vals = rng.choice([(INT, [S("1"), I(2)]), (STR, [S("a"), S("1")]), (["timedelta"], [S("1:00:00"), S("30:00:00")]),
                                 (["posint"], [S("3")]), (["union", [INT, NON]], [NONE, S("2")])])
        t = ["odict", leaf]      # (types.MappingProxyType[...] is not a supported type hint for add_argument)
        v = D([(S(k), rng.choice(vals)) for k in rng.sample(["b", "a", "z", "m"], rng.randint(0, 3))])
        if rng.random() < 0.3:
            t = ["union", [t, NON]]
        return by_channel(rng, {"kind": "x", "decls": [{"key": "k", "ty": t, "default": NONE}]}, "k", v)
    if r == 1:
        # a dataclass given like a class spec (class_path + init_args), bare, Optional, in a list
        t = rng.choice([["data", "D1"], ["union", [["data", "D1"], NON]], ["list", ["data", "D1"]], ["dict", False, ["data", "D1"]]])
        v = DATA_AS_SPEC if t[0] in ("data", "union") else (L([DATA_AS_SPEC, D([(S("b"), S("y"))])]) if t[0] == "list"
                                                              else D([(S("w"), DATA_AS_SPEC), (S("v"), D([(S("a"), I(3))]))]))
        return by_channel(rng, {"kind": "x", "decls": [{"key": "k", "ty": t, "default": NONE}]}, "k", v)
    if r == 2:
        # nested command-line keys into a mapping / an Optional dataclass / the last item of a list of class specs
        w = rng.randrange(3)
        if w == 0:
            t = ["dict", False, rng.choice([INT, STR, ["union", [INT, NON]], ["timedelta"]])]
            dflt = D([(S("c"), I(3) if t[2] != STR else S("z"))]) if rng.random() < 0.4 and t[2] != ["timedelta"] else NONE
            vals = {"int": ["1", "2"], "str": ["x", "1"], "union": ["1", "null"], "timedelta": ["1:00:00", "30:00:00"]}[t[2][0]]
            argv = ["--k.%s=%s" % (k, rng.choice(vals)) for k in rng.sample(["a", "b", "c"], rng.randint(1, 3))]
            if rng.random() < 0.3:
                argv.insert(0, "--k={a: %s}" % rng.choice(vals))
        elif w == 1:
            t = ["union", [["data", "D1"], NON]]
            dflt = NONE
            argv = rng.sample(["--k.a=2", "--k.b=y", "--k.c=[1, 2]"], rng.randint(1, 3))
        else:
            base = rng.choice(["Net", "Opt"])
            fam = FAMILIES[base]
            t = ["list", ["sub", base]]
            dflt = NONE
            argv = []
            for _ in range(rng.randint(1, 2)):
                cls = rng.choice(sorted(fam))
                argv.append("--k+=%s" % cls)
                for q in sorted(fam[cls]):
                    if rng.random() < 0.4:
                        argv.append("--k.%s=%s" % (q, render(param_value(rng, fam[cls][q]))))
        return {"kind": "x", "decls": [{"key": "k", "ty": t, "default": dflt}], "channel": "args", "input": argv}
    if r in (3, 4):
        # list-valued options (nargs): every item goes through the option's type
        t, vals = rng.choice(NARGS_TYPES)
        nargs = rng.choice(["+", "*", 2, 1])
        n = nargs if isinstance(nargs, int) else rng.randint(0 if nargs == "*" else 1, 3)
        items = [rng.choice(vals) for _ in range(n)]
        decls = [{"key": "k", "ty": t, "default": NONE, "nargs": nargs}]
        if rng.random() < 0.3:
            decls.append({"key": "n", "ty": INT, "default": I(1)})
        case = {"kind": "x", "decls": decls}
        ch = rng.choice(["object", "args", "string", "cfgfile"])
        if any(x[0] not in ("str", "int", "float") for x in items) and ch == "args":
            ch = "object"
        case["channel"] = ch
        if ch == "args":
            case["input"] = ["--k"] + [x[1] if x[0] == "str" else render(x) for x in items]
        elif ch == "object":
            case["input"] = D([(S("k"), L(items))])
        else:
            text = "k: %s\n" % render_q(L(items))
            if ch == "string":
                case["input"] = text
            else:
                case["files"] = {"main.yaml": text}
                case["input"] = ["--cfg=main.yaml"]
        return case
    if r == 5:
        # a required option, given or not, next to others
        leaf, vals = rng.choice([(INT, [S("3"), I(4)]), (["timedelta"], [S("24:00:00")]), (["path", "fr"], [S("f1.txt")]),
                                 (["dict", False, INT], [D([(S("a"), S("1"))])])])
        decls = [{"key": "r", "ty": leaf, "default": NONE, "required": True}, {"key": "n", "ty": INT, "default": I(1)}]
        v = rng.choice(vals)
        case = {"kind": "x", "decls": decls}
        if rng.random() < 0.15:
            return by_channel(rng, case, "n", I(2))
        return by_channel(rng, case, "r", v)
    # the new leaves, bare
    leaf, vals = rng.choice(X_LEAVES[-5:])
    return by_channel(rng, {"kind": "x", "decls": [{"key": "k", "ty": leaf, "default": NONE}]}, "k", rng.choice(vals))


def gen_x(rng):
    return with_mid(rng, gen_x0(rng), 0.4)


def gen_x0(rng):
    r = rng.random()
    if r < 0.12:
        return gen_x_more(rng)
    r = rng.random()
    if r < 0.3:
        return gen_x_multi(rng)
    if r < 0.4:
        return gen_x_path(rng)
    if r < 0.65:
        return gen_x_nested(rng)
    if r < 0.73:
        return gen_x_text(rng)
    if r < 0.80:
        return gen_x_kwargs(rng)
    r = rng.random()
    if r < 0.25:
        # a modelled type through the argv / string channel, now and then with a list append
        t = gen_type(rng, rng.randint(0, 2))
        v = gen_value(rng, t, rng.choice([0, 1]))
        txt = v[1] if v[0] == "str" else render(v)
        if t[0] == "list" and rng.random() < 0.6:
            e = gen_value(rng, t[1], 1)
            etxt = e[1] if e[0] == "str" else render(e)
            dflt = conforming(rng, t) if rng.random() < 0.5 else NONE      # a declared default conforms (DESIGN A.3)
            if dflt[0] != "list":
                dflt = NONE
            return {"kind": "x", "decls": [{"key": "k", "ty": t, "default": dflt}], "channel": "args",
                    "input": (["--k=" + txt] if rng.random() < 0.5 else []) + ["--k+=" + etxt]}
        if rng.random() < 0.5:
            return {"kind": "x", "decls": [{"key": "k", "ty": t, "default": NONE}], "channel": "args", "input": ["--k=" + txt]}
        return {"kind": "x", "decls": [{"key": "k", "ty": t, "default": NONE}], "channel": "string",
                "input": "k: " + (json.dumps(txt) if v[0] == "str" else txt)}
    leaf, vals = rng.choice(X_LEAVES)
    v = rng.choice(vals)
    w = rng.randrange(12)
    t = leaf
    if w == 0:
        t = ["union", [leaf, ["none"]]]
    elif w == 1:
        t, v = ["list", leaf], L([v] + ([rng.choice(vals)] if rng.random() < 0.5 else []))
    elif w == 2:
        t, v = ["dict", False, leaf], D([(S("a"), v)])
    elif w == 3:
        t, v = ["tuple", [leaf, INT]], L([v, S("1")])
    elif w == 4:
        t = ["union", [leaf, rng.choice([INT, STR, FLT, ANY, BOOL])]]
    elif w == 5:
        t = ["union", [rng.choice([INT, STR, FLT, ANY, BOOL]), leaf]]
    elif w == 6:
        other, ovals = rng.choice(X_LEAVES)
        if other != leaf:
            t = ["union", [leaf, other]]
            if rng.random() < 0.5:
                v = rng.choice(ovals)
    elif w == 7:
        t, v = ["set", leaf], L([v, v])
        if leaf[0] in ("data", "sub"):
            t = ["list", leaf]
    ch = "object" if has_obj(v) else rng.choice(["object", "object", "args", "string"])
    case = {"kind": "x", "decls": [{"key": "k", "ty": t, "default": NONE}]}
    if ch == "object":
        case.update(channel="object", input=D([(S("k"), v)]))
    elif ch == "args":
        case.update(channel="args", input=["--k=" + (v[1] if v[0] == "str" else render(v))])
    else:
        case.update(channel="string", input="k: " + (json.dumps(v[1]) if v[0] == "str" else render(v)))
    return case


def curated_x():
    one_x = lambda t, ch, inp: {"kind": "x", "decls": [{"key": "k", "ty": t, "default": NONE}], "channel": ch, "input": inp}  # noqa: E731
    return [
        one_x(["union", [INT, ["complex"], ANY]], "object", D([(S("k"), S("false"))])),
        one_x(["union", [["set", INT], ["list", ["posint"]]]], "object", D([(S("k"), S("[1.0, 2]"))])),
        one_x(["set", ["union", [["pathlib"], STR]]], "args", ["--k=[2, 1]"]),
        one_x(["path", "fr"], "args", ["--k=f1.txt"]),
        one_x(["list", ["path", "fr"]], "object", D([(S("k"), L([S("f1.txt"), S("dir1/f3.txt")]))])),
        one_x(["timedelta"], "string", "k: '1:00:00'"),
        {"kind": "x", "decls": [{"key": "k", "ty": ["list", INT], "default": L([I(1), I(2)])}], "channel": "args", "input": ["--k+=3"]},
        {"kind": "x", "decls": [{"key": "k", "ty": ["list", INT], "default": L([I(1), I(2)])}], "channel": "args",
         "input": ["--k+=[3, 4]", "--k+=5"]},
        {"kind": "x", "decls": [{"key": "k", "ty": ["list", INT], "default": NONE}], "channel": "string", "input": "k+: [3]"},
        # the dump leg: durations of exactly one day (str(timedelta) writes the singular "1 day, ..."), other registered types
        one_x(["timedelta"], "args", ["--k=30:00:00"]), one_x(["timedelta"], "args", ["--k=24:00:00"]),
        one_x(["union", [["timedelta"], NON]], "args", ["--k=26:00:00"]),
        one_x(["list", ["timedelta"]], "string", "k:\n- '12:00:00'\n- '24:00:00'\n"),
        one_x(["timedelta"], "object", D([(S("k"), O("timedelta", "86460"))])),
        one_x(["timedelta"], "object", D([(S("k"), O("timedelta", "-90000"))])),
        one_x(["decimal"], "args", ["--k=1.50"]), one_x(["uuid"], "args", ["--k=12345678-1234-5678-1234-567812345678"]),
        one_x(["range"], "args", ["--k=range(5)"]), one_x(["complex"], "object", D([(S("k"), O("complex", "(3-4j)"))])),
        # a set is dumped in iteration order (finding set-dump-order)
        one_x(["set", STR], "object", D([(S("k"), L([S("a"), S("b"), S("x y")]))])),
        one_x(["set", STR], "args", ["--k=[a, '1', 'x y']"]),
        # serialising a Union through a member the value does not belong to (finding union-dump-wrong-member)
        one_x(["union", [["posint"], ["decimal"]]], "object", D([(S("k"), O("decimal", "0.1"))])),
        one_x(["union", [COLOR, ["range"]]], "string", "k: 'range(1, 5)'"),
        one_x(["union", [BOOL, ["enum", "Sz", ["s", "m", "true"]]]], "object", D([(S("k"), ["enum", "Sz", "true"])])),
        # a class spec next to a None item in a dict-valued option whose default has the same key and class with other init_args
        {"kind": "x", "decls": [{"key": "k", "ty": ["dict", False, ["union", [["sub", "Net"], NON]]],
                                "default": D([(S("pre"), D([(S("class_path"), S("c10_classes.MlpNet")),
                                                            (S("init_args"), D([(S("dropout"), F(0.5))]))])), (S("post"), NONE)])}],
         "channel": "string", "input": "k: {pre: {class_path: c10_classes.MlpNet, init_args: {hidden: 5}}, post: null}\n"},
        # None items inside containers under Optional[registered type]
        one_x(["list", ["union", [["timedelta"], NON]]], "object", D([(S("k"), L([NONE, S("1:00:00")]))])),
        one_x(["dict", False, ["union", [["path", "dw"], NON]]], "object", D([(S("k"), D([(S("a"), NONE), (S("b"), S("dir1"))]))])),
        # strings that look like floats / ints / bools / null to a YAML 1.1 resolver, in str-accepting options
        one_x(STR, "object", D([(S("k"), S("-1e3"))])), one_x(["list", STR], "object", D([(S("k"), L([S("+2E10"), S("1_000"), S("0x1F")]))])),
        one_x(["dict", False, STR], "object", D([(S("k"), D([(S("a"), S("-1.5e3")), (S("b"), S("yes"))]))])),
        one_x(["union", [STR, NON]], "args", ["--k=1:30"]), one_x(STR, "string", 'k: "~"\n'),
        # a default spec that carries dict_kwargs: the same **kwargs class with its own extras (finding dict-kwargs-default-merge),
        # another **kwargs class with its own extras, and a class without **kwargs
        {"kind": "x", "decls": [{"key": "k", "ty": ["sub", "Plug"], "default_kwargs_class": "c10_classes.Legacy",
                                "default": D([(S("class_path"), S("c10_classes.Legacy")), (S("dict_kwargs"), D([(S("p"), I(1))]))])}],
         "channel": "string", "input": "k: {class_path: c10_classes.Legacy, dict_kwargs: {q: 2}}\n"},
        {"kind": "x", "decls": [{"key": "k", "ty": ["sub", "Plug"], "default_kwargs_class": "c10_classes.Legacy",
                                "default": D([(S("class_path"), S("c10_classes.Legacy")), (S("dict_kwargs"), D([(S("p"), I(1))]))])}],
         "channel": "string", "input": "k: {class_path: c10_classes.Modern, dict_kwargs: {q: 2}}\n"},
        {"kind": "x", "decls": [{"key": "k", "ty": ["sub", "Plug"], "default_kwargs_class": "c10_classes.Legacy",
                                "default": D([(S("class_path"), S("c10_classes.Legacy")), (S("dict_kwargs"), D([(S("p"), I(1))]))])}],
         "channel": "cfgfile", "files": {"main.yaml": "k: {class_path: c10_classes.Strict, init_args: {c: 5}}\n"}, "input": ["--cfg=main.yaml"]},
        # subclass-typed options with defaults under prefix-related names, the later one switched to another class
        {"kind": "x", "decls": [{"key": "model", "ty": ["sub", "Net"], "default": ["lazy", "ConvNet", [["kernel", I(5)]]]},
                                {"key": "model_ema", "ty": ["sub", "Net"], "default": ["lazy", "ConvNet", [["kernel", I(7)]]]},
                                {"key": "epochs", "ty": INT, "default": I(1)}],
         "channel": "args", "input": ["--model=MlpNet", "--model_ema=MlpNet", "--model_ema.dropout=0.5"]},
        {"kind": "x", "decls": [{"key": "model", "ty": ["sub", "Net"], "default": ["lazy", "ConvNet", [["kernel", I(5)]]]},
                                {"key": "model_ema", "ty": ["sub", "Net"], "default": ["lazy", "ConvNet", [["kernel", I(7)]]]}],
         "channel": "args", "input": ["--model_ema=MlpNet", "--model_ema.hidden=16", "--model_ema.width=4"]},
        {"kind": "x", "decls": [{"key": "opt", "ty": ["sub", "Opt"], "default": ["lazy", "Sgd", [["momentum", F(0.9)]]]},
                                {"key": "optim", "ty": ["sub", "Opt"], "default": ["lazy", "Sgd", [["momentum", F(0.5)]]]}],
         "channel": "object", "input": D([(S("optim"), D([(S("class_path"), S("Adam")), (S("init_args"), D([(S("eps"), F(0.25))]))]))])},
    ]


def search(rng, tier, broken):
    """bounded failing-input search after a broken proof / tie (the framework's default would re-run the thorough tier):
    a fresh quick-sized sample, judged in Coq; a spec failure that is not a listed finding is the failing input"""
    from tie import framework as fw

    cases = [gen_ns(rng) for _ in range(1000)] + [gen_nl(rng) for _ in range(150)] + [gen_x(rng) for _ in range(400)]
    obs = observe(cases)
    _, bad_in, bad_out = fw.judge_cases(sys.modules[__name__], cases, obs, tag="x")
    known = fw.load_known_findings(PROP)
    bad = sorted(set(bad_in) | {i for i, k in bad_out if FINDING_CLASSES.get(k) not in known})
    if not bad:
        return None
    i = bad[0]
    return {"case": cases[i], "observed": obs[i], "explain": describe(cases[i], obs[i])}


def generate(rng, tier):
    n_ns, n_x = (1800, 700) if tier == "quick" else (16000, 3200)
    n_nl = 250 if tier == "quick" else 2500
    cases = curated() + curated_x() + curated_nl()
    cases += [gen_nl(rng) for _ in range(n_nl)]
    cases += [with_mid(rng, gen_ns(rng), 0.08) for _ in range(n_ns)]
    cases += [gen_x(rng) for _ in range(n_x)]
    return cases


# ---------------------------------------------------------------------------------------------------------------------
# observation
# ---------------------------------------------------------------------------------------------------------------------
def observe(cases):
    if not cases:
        return []
    n = min(16, len(cases))
    res = run_impl_parallel("c10_run.py", [{"cases": cases[k::n]} for k in range(n)], timeout=1500)
    out = [None] * len(cases)
    for k, r in enumerate(res):
        out[k::n] = r
    return out


# ---------------------------------------------------------------------------------------------------------------------
# Gallina
# ---------------------------------------------------------------------------------------------------------------------
def g_float(r):
    if r == "nan":
        return "FNan"
    if r in ("inf", "-inf"):
        return "FInf %s" % g_bool(r == "-inf")
    d = Decimal(r)
    if d == 0:
        return "FFin 0 0"
    sign, digits, exp = d.normalize().as_tuple()
    m = int("".join(map(str, digits)))
    while m % 10 == 0:
        m //= 10
        exp += 1
    return "FFin %s %s" % (g_Z(-m if sign else m), g_Z(exp))


def g_val(v):
    k = v[0]
    if k == "none":
        return "VNone"
    if k == "bool":
        return "VBool %s" % g_bool(v[1])
    if k == "int":
        return "VInt %s" % g_Z(v[1])
    if k == "float":
        return "VFloat (%s)" % g_float(v[1])
    if k == "str":
        return "VStr %s" % g_str(v[1])
    if k == "list":
        return "VList %s" % g_vals(v[1])
    if k == "tuple":
        return "VTuple %s" % g_vals(v[1])
    if k == "set":
        return "VSet %s" % g_vals(v[1])
    if k == "dict":
        return "VDict %s" % g_list([g_pair(g_val(a), g_val(b)) for a, b in v[1]], "(val * val)")
    if k == "enum":
        return "VEnum %s %s" % (g_str(v[1]), g_str(v[2]))
    if k == "opaque":
        return "VOpaque %s %s" % (g_str(v[1]), g_str(v[2]))
    raise ValueError(v)


def g_vals(vs):
    return g_list(["(%s)" % g_val(x) for x in vs], "val")


def g_lit(v):
    k = v[0]
    if k == "int":
        return "LInt %s" % g_Z(v[1])
    if k == "str":
        return "LStr %s" % g_str(v[1])
    if k == "bool":
        return "LBool %s" % g_bool(v[1])
    if k == "none":
        return "LNone"
    raise ValueError(v)


def g_ty(t):
    k = t[0]
    simple = {"str": "TStr", "int": "TInt", "float": "TFloat", "bool": "TBool", "none": "TNone", "any": "TAny"}
    if k in simple:
        return simple[k]
    if k == "lit":
        return "(TLit %s)" % g_list(["(%s)" % g_lit(x) for x in t[1]], "lit")
    if k == "enum":
        return "(TEnum %s %s)" % (g_str(t[1]), g_list([g_str(m) for m in t[2]], "str"))
    if k == "union":
        return "(TUnion %s)" % g_list([g_ty(x) for x in t[1]], "ty")
    if k == "list":
        return "(TList %s)" % g_ty(t[1])
    if k == "dict":
        return "(TDict %s %s)" % (g_bool(t[1]), g_ty(t[2]))
    if k == "tuple":
        return "(TTuple %s)" % g_list([g_ty(x) for x in t[1]], "ty")
    if k == "tuplevar":
        return "(TTupleVar %s)" % g_ty(t[1])
    if k == "set":
        return "(TSet %s)" % g_ty(t[1])
    raise ValueError(t)


def g_xty(t):
    k = t[0]
    if k == "none":
        return "XNone"
    if k == "union":
        return "(XUnion %s)" % g_list([g_xty(x) for x in t[1]], "xty")
    if k in ("list", "tuplevar", "set"):
        return "(XCont %s %s)" % (g_str(k), g_list([g_xty(t[1])], "xty"))
    if k == "dict":
        return "(XCont %s %s)" % (g_str(k), g_list([g_xty(t[2])], "xty"))
    if k == "tuple":
        return "(XCont %s %s)" % (g_str(k), g_list([g_xty(x) for x in t[1]], "xty"))
    if k in ("odict", "mproxy"):
        return "(XCont %s %s)" % (g_str(k), g_list([g_xty(t[1])], "xty"))
    return "(XLeaf %s)" % g_str(k)


def g_lres(r):
    if r[0] == "val":
        return "LVal (%s)" % g_val(r[1])
    return "LYamlErr" if r[0] == "yamlerr" else "LValErr"


def g_outcome(o):
    if o[0] == "ok":
        return "(Accepted %s)" % g_vals(o[1])
    return "Rejected" if o[0] == "rejected" else "Crashed"


def g_oracle(o):
    tab = lambda rows: g_list([g_pair(g_str(s), g_lres(r)) for s, r in rows], "(str * lres)")  # noqa: E731
    ik = g_list([g_pair(g_str(s), "None" if n is None else "(Some %s)" % g_Z(n)) for s, n in o["ikey"]], "(str * option Z)")
    return "{| o_jload := %s; o_pval_t := %s; o_pval_f := %s; o_ikey := %s |}" % (tab(o["jload"]), tab(o["pval_t"]), tab(o["pval_f"]), ik)


def term(case, obs):
    again = g_list([g_outcome(a) for a in obs["again"]], "(outcome (list val))")
    if case["kind"] == "nl":
        seen = obs["seen"]["obj"]
        v0 = seen[1][0][1] if seen and seen[0] == "dict" and seen[1] else case["obj"][1][0][1]
        return "LCase %s (%s) %s %s %s %s" % (g_ty(case["decls"][0]["ty"]), g_val(v0), g_oracle(obs["oracle"]), g_outcome(obs["first"]),
                                            g_bool(obs["valid"]), again)
    if case["kind"] == "ns":
        # values as the implementation saw them: sets in their iteration order
        p = g_list(["{| d_key := %s; d_ty := %s; d_default := %s |}" % (g_str(d["key"]), g_ty(d["ty"]), g_val(dv))
                    for d, dv in zip(case["decls"], obs["seen"]["defaults"])], "decl")
        return "NsCase %s (%s) %s %s %s %s" % (p, g_val(obs["seen"]["obj"]), g_oracle(obs["oracle"]), g_outcome(obs["first"]),
                                             g_bool(obs["valid"]), again)
    sk = g_list(["(XSubKw %s)" % g_str(d["default_kwargs_class"]) if d.get("default_kwargs_class") else g_xty(d["ty"])
                 for d in case["decls"]], "xty")
    dl = obs.get("dump") or {"reparsed": ["rejected"], "text1": None, "text2": None}
    gt = lambda t: "None" if t is None else "(Some %s)" % g_str(t)  # noqa: E731
    return "XCase %s %s %s %s %s %s %s" % (sk, g_outcome(obs["first"]), g_bool(obs["valid"]), again, g_outcome(dl["reparsed"]),
                                          gt(dl["text1"]), gt(dl["text2"]))


# ---------------------------------------------------------------------------------------------------------------------
# evidence helpers
# ---------------------------------------------------------------------------------------------------------------------
def py_ty(t):
    k = t[0]
    if k in ("str", "int", "float", "bool", "complex", "range"):
        return k
    if k == "none":
        return "None"
    if k == "any":
        return "Any"
    if k == "lit":
        return "Literal[%s]" % ", ".join(py_val(x) for x in t[1])
    if k == "enum":
        return "Enum(%r, %r)" % (t[1], t[2])
    if k == "union":
        return "Union[%s]" % ", ".join(py_ty(x) for x in t[1])
    if k == "list":
        return "List[%s]" % py_ty(t[1])
    if k == "dict":
        return "Dict[%s, %s]" % ("int" if t[1] else "str", py_ty(t[2]))
    if k == "tuple":
        return "Tuple[%s]" % ", ".join(py_ty(x) for x in t[1])
    if k == "tuplevar":
        return "Tuple[%s, ...]" % py_ty(t[1])
    if k == "set":
        return "Set[%s]" % py_ty(t[1])
    if k == "path":
        return "Path_%s" % t[1]
    if k == "sub" and len(t) > 1:
        return "c10_classes." + t[1]
    if k in ("odict", "mproxy"):
        return "%s[str, %s]" % ({"odict": "OrderedDict", "mproxy": "MappingProxyType"}[k], py_ty(t[1]))
    if k == "type":
        return "Type[c10_classes.%s]" % t[1]
    if k in ("annot", "annotv", "tdict", "alias", "callable"):
        return {"annot": "Annotated[int, 'unit']", "annotv": "Annotated[int, pydantic.Field(gt=0)]",
                "tdict": "TypedDict('TD1', a=int, b=NotRequired[str], c=NotRequired[Optional[List[int]]])",
                "alias": "TypeAliasType('ALIAS', List[Optional[int]])", "callable": "Callable[[int], int]"}[k]
    return {"pathlib": "pathlib.Path", "timedelta": "datetime.timedelta", "posint": "PositiveInt", "unit": "ClosedUnitInterval",
            "nnfloat": "NonNegativeFloat", "email": "Email", "sub": "calendar.Calendar", "decimal": "decimal.Decimal",
            "uuid": "uuid.UUID"}.get(k, "dataclass " + str(t[1:]))


def py_val(v):
    k = v[0]
    if k == "none":
        return "None"
    if k in ("bool", "int", "str"):
        return repr(v[1])
    if k == "float":
        return v[1]
    if k == "list":
        return "[" + ", ".join(py_val(x) for x in v[1]) + "]"
    if k == "tuple":
        return "(" + ", ".join(py_val(x) for x in v[1]) + ("," if len(v[1]) == 1 else "") + ")"
    if k == "set":
        return "{" + ", ".join(py_val(x) for x in v[1]) + "}" if v[1] else "set()"
    if k == "dict":
        return "{" + ", ".join("%s: %s" % (py_val(a), py_val(b)) for a, b in v[1]) + "}"
    if k == "enum":
        return "%s.%s" % (v[1], v[2])
    if k == "obj":
        return "%s(%s)" % (v[1], v[2])
    if k == "lazy":
        return "lazy_instance(%s%s)" % (v[1], "".join(", %s=%s" % (a, py_val(b)) for a, b in v[2]))
    return "<%s %s>" % (v[1], v[2])


def py_outcome(o):
    if o[0] == "ok":
        return "[" + ", ".join(py_val(x) for x in o[1]) + "]"
    return o[0] if o[0] == "rejected" else "crashed: " + o[1]


def changed(case, obs):
    if obs["first"][0] != "ok":
        return False
    if case["kind"] == "nl":
        return case["obj"][1][0][1][0] == "list" and len(case["obj"][1][0][1][1]) > 0
    if case["kind"] != "ns":
        return True
    given = {}

    def walk(prefix, node):
        for k, v in node[1]:
            key = prefix + k[1] if k[0] == "str" else prefix + "?"
            if any(d["key"] == key for d in case["decls"]):
                given[key] = v
            elif v[0] == "dict":
                walk(key + ".", v)

    walk("", case["obj"])
    for d, w in zip(case["decls"], obs["first"][1]):
        src = given.get(d["key"], d["default"])
        if src != w or w[0] in ("list", "tuple", "set", "dict"):
            return True
    return False


def nontrivial_key(case, obs):
    if not changed(case, obs):
        return None
    return json.dumps([case["decls"], case.get("obj"), case.get("channel"), case.get("input"), case.get("files"), case.get("pre"), case.get("mid")],
                      sort_keys=True)


def no_meta(v):
    """tagged value / outcome without the "__path__" entries of mappings (what text can carry)"""
    if isinstance(v, list) and v and v[0] == "dict":
        return ["dict", [[a, no_meta(b)] for a, b in v[1] if a != ["str", "__path__"]]]
    if isinstance(v, list):
        return [no_meta(x) for x in v]
    return v


def category(case, obs):
    shape = lambda t: t[0] if t[0] not in ("union",) else "union%d" % len(t[1])  # noqa: E731
    kinds = "+".join(sorted({shape(d["ty"]) for d in case["decls"]}))
    what = obs["first"][0]
    if what == "ok":
        same = all(a == obs["first"] for a in obs["again"]) and obs["valid"]
        what = "accepted/fixed-point" if same else "accepted/NOT-fixed-point"
        if obs.get("dump"):
            dl = obs["dump"]
            same_cfg = json.dumps(dl["reparsed"]).replace(" ", "") == json.dumps(no_meta(obs["first"])).replace(" ", "")
            what += "/dump-stable" if same_cfg and dl["text1"] is not None and dl["text1"] == dl["text2"] else "/dump-UNSTABLE"
    if case["kind"] == "nl":
        return "nl nargs=%s [%s] %s" % (case["decls"][0]["nargs"], kinds, what)
    if case["kind"] == "ns":
        return "ns %d keys [%s] %s" % (len(case["decls"]), kinds, what)
    return "x %s [%s] %s" % (case["channel"], kinds, what)


def describe(case, obs):
    d = {"parser": ["add_argument('--%s', type=%s%s%s)" % (x["key"], py_ty(x["ty"]),
                                                         "" if x.get("default", NONE) == NONE else ", default=%s" % py_val(x["default"]),
                                                         (", enable_path=True" if x.get("enable_path") else "")
                                                         + (", nargs=%r" % (x["nargs"],) if x.get("nargs") else "")
                                                         + (", required=True" if x.get("required") else ""))
                    for x in case["decls"]]}
    if case.get("files"):
        d["files in the working directory"] = case["files"]
    if case.get("pre") is not None:
        d["earlier in the same process (another parser with the same options plus --cfg; the call fails)"] = "parse_args(%r)" % (case["pre"],)
    if case.get("channel") == "cfgfile":
        d["parser"].insert(0, "add_argument('--cfg', action=ActionConfigFile)")
    if case["kind"] in ("ns", "nl"):
        d["call"] = "parse_object(%s)" % py_val(case["obj"])
    elif case["channel"] == "object":
        d["call"] = "parse_object(%s)" % py_val(case["input"])
    elif case["channel"] in ("args", "cfgfile"):
        d["call"] = "parse_args(%r)" % (case["input"],)
    else:
        d["call"] = "parse_string(%r)" % (case["input"],)
    d["cfg (values in declaration order)"] = py_outcome(obs["first"])
    if case.get("mid"):
        d["then, in the same process, calls that are REJECTED (tie/impl/c10_run.py fault_call)"] = case["mid"]
    d["validate(cfg)"] = "passes" if obs["valid"] else "FAILS: " + obs.get("why", "")
    d["parse_object(cfg.clone()), parse_object(cfg.clone().as_dict())"] = [py_outcome(a) for a in obs["again"]]
    if obs.get("dump"):
        dl = obs["dump"]
        d["dump(cfg)"] = dl["text1"]
        d["parse_string(dump(cfg))"] = py_outcome(dl["reparsed"])
        d["dump(parse_string(dump(cfg)))"] = dl["text2"] if dl["text2"] is not None else dl.get("why2", "not reached")
    return d


def shrink(case):
    mid = case.get("mid")
    if mid and case["kind"] == "ns":
        yield {k: v for k, v in case.items() if k != "mid"}
    for c in shrink_(case):
        if mid and case["kind"] == "ns":
            c = dict(c, mid=mid)
        yield c


def shrink_(case):
    ds = case["decls"]
    if case["kind"] == "nl":
        v = case["obj"][1][0][1]
        for t2 in simpler_types(ds[0]["ty"]):
            yield dict(case, decls=[dict(ds[0], ty=t2)])
        for v2 in simpler_values(v):
            yield dict(case, obj=D([(S("k"), v2)]))
        return
    if case["kind"] == "ns":
        assign = []

        def walk(prefix, node):
            for k, v in node[1]:
                key = prefix + k[1]
                if any(d["key"] == key for d in ds) or v[0] != "dict":
                    assign.append((key, v))
                else:
                    walk(key + ".", v)

        walk("", case["obj"])
        for i in range(len(ds)):
            if len(ds) > 1:
                yield ns_case(ds[:i] + ds[i + 1:], [kv for kv in assign if kv[0] != ds[i]["key"]])
        for i, d in enumerate(ds):
            if d["default"] != NONE:
                yield ns_case(ds[:i] + [dict(d, default=NONE)] + ds[i + 1:], assign)
        for i, d in enumerate(ds):
            for t2 in simpler_types(d["ty"]):
                yield ns_case(ds[:i] + [dict(d, ty=t2)] + ds[i + 1:], assign)
        for j, (k, v) in enumerate(assign):
            for v2 in simpler_values(v):
                yield ns_case(ds, assign[:j] + [(k, v2)] + assign[j + 1:])
    else:
        for i, d in enumerate(ds):
            for t2 in simpler_types(d["ty"]):
                yield dict(case, decls=ds[:i] + [dict(d, ty=t2)] + ds[i + 1:])
        if case.get("mid"):
            yield {k: v for k, v in case.items() if k != "mid"}
            if len(case["mid"]) > 1:
                for i in range(len(case["mid"])):
                    yield dict(case, mid=case["mid"][:i] + case["mid"][i + 1:])
        if case.get("pre") is not None:
            yield {k: v for k, v in case.items() if k != "pre"}
            for i in range(len(case["pre"]) - 1):
                yield dict(case, pre=case["pre"][:i] + case["pre"][i + 1:])
        if len(ds) > 1 and case["channel"] in ("args", "object", "string"):
            for i, d in enumerate(ds):
                rest = ds[:i] + ds[i + 1:]
                if case["channel"] == "args":
                    inp = [a for a in case["input"] if not (a.startswith("--" + d["key"] + "=") or a.startswith("--" + d["key"] + ".")
                                                            or a.startswith("--" + d["key"] + "+"))]
                    pre = case.get("pre")
                    c2 = dict(case, decls=rest, input=inp)
                    if pre is not None:
                        c2["pre"] = [a for a in pre if not (a.startswith("--" + d["key"] + "=") or a.startswith("--" + d["key"] + "."))]
                    yield c2
        if case["channel"] == "args" and len(case["input"]) > 1:
            for i in range(len(case["input"])):
                yield dict(case, input=case["input"][:i] + case["input"][i + 1:])


def simpler_types(t):
    seen = []
    for t2 in simpler_types_(t):
        t2 = norm_ty(t2)
        if t2 != t and t2 not in seen:
            seen.append(t2)
            yield t2


def simpler_types_(t):
    k = t[0]
    if k == "union":
        for i in range(len(t[1])):
            rest = t[1][:i] + t[1][i + 1:]
            yield rest[0] if len(rest) == 1 else ["union", rest]
        for i, m in enumerate(t[1]):
            for m2 in simpler_types_(m):
                yield ["union", t[1][:i] + [m2] + t[1][i + 1:]]
    elif k in ("list", "tuplevar", "set"):
        for m2 in simpler_types_(t[1]):
            yield [k, m2]
    elif k == "dict":
        for m2 in simpler_types_(t[2]):
            yield [k, t[1], m2]
    elif k == "tuple":
        for i, m in enumerate(t[1]):
            for m2 in simpler_types_(m):
                yield ["tuple", t[1][:i] + [m2] + t[1][i + 1:]]


def simpler_values(v):
    k = v[0]
    if k in ("list", "tuple", "set"):
        for i in range(len(v[1])):
            yield [k, v[1][:i] + v[1][i + 1:]]
        for i, x in enumerate(v[1]):
            for x2 in simpler_values(x):
                yield [k, v[1][:i] + [x2] + v[1][i + 1:]]
    elif k == "dict":
        for i in range(len(v[1])):
            yield [k, v[1][:i] + v[1][i + 1:]]
        for i, (a, b) in enumerate(v[1]):
            for b2 in simpler_values(b):
                yield [k, v[1][:i] + [[a, b2]] + v[1][i + 1:]]


META = {
    "level_text": "Proved in Coq for every type of the modelled grammar (str, int, float, bool, None, Any, Literal, Enum, Union, "
                  "List, Dict[str|int,_], Tuple[..], Tuple[T,...], Set, arbitrarily nested), every input value and ARBITRARY "
                  "text readers: C10_readapt_fixed_point (adapt_typehints returns unchanged what it returned: induction on the "
                  "type, incl. the isinstance early-outs, Literal membership by value and type, set() de-duplication, the Dict[int,_] key cast, the sorted "
                  "Union trial loop with orig_val fallback, last accepting entry taken), C10_check_type_fixed_point (ActionTypeHint._check_type "
                  "with text loading, orig_val retry, default early-out, valid-string fallback), "
                  "C10_parsed_key_validates_and_reparses (a parsed key passes validation and re-parses to itself) and "
                  "C10_parse_object_fixed_point (parse_object over a parser with distinct dotted keys and defaults: the result "
                  "validates and, handed back as an object, is returned unchanged; defaults applied once), and for list-valued options "
                  "(nargs '+', '*', N; round 6) C10_nargs_check_type_fixed_point / C10_nargs_key_validates_and_reparses: _check_type with "
                  "islist iterates the value, passes every item through the scalar path and writes it back (a mapping, a non-empty str / "
                  "tuple / set and a scalar are refused, an empty str / tuple / set is handed back untouched) - the parsed list validates "
                  "and re-parses to itself item by item, by induction on the list over the key-level theorem. The guard excludes "
                  "exactly the cases where a Union re-selects a member on the adapted value (finding union-reselects-member, "
                  "witness C10_fixed_point_refuted); Union-free types need no guard (C10_readapt_fixed_point_union_free). The models "
                  "are tied to the real parser by running parse_object / validate / parse_object(cfg) on generated parsers and "
                  "inputs and evaluating model- and spec-agreement inside Coq.",
    "level_note": "List-valued options are modelled for ONE option without default given through parse_object (kind nl); their "
                  "argv / string / config-file channels, registered item types and the count nargs demands are correspondence only. "
                  "Call histories (rejected calls between the parse and the checks, a failed --cfg load before it) and in-place change of "
                  "the configuration handed to validate / parse_object / dump are observed, not modelled. "
                  "Only exercised by the correspondence (spec judged in Coq, no model): paths, registered and restricted types, Annotated, "
                  "Type[...], OrderedDict, TypedDict, Callable, "
                  "Enum, dataclasses, subclass specs with defaults under prefix-related option names, the argv and string channels, list "
                  "append, the as_dict() form of the re-parse (the model re-parses the flat key/value list), and the whole dump / "
                  "parse_string / dump clause of the property (observed for every such case: the configuration read back must equal "
                  "the configuration and the second dump must be byte-identical; no theorem about serialisation here, C01 proves "
                  "serialize/adapt inversion for the plain grammar). Open findings in the x space: dict-kwargs-default-merge (object re-parse leg), union-dump-wrong-member (dump leg) "
                  "(set-dump-order was fixed by 42b663b; its class stays in the judge, a recurrence is a VIOLATION). Not covered: environment, config files, subcommands, links. Trusted: Coq "
                  "kernel/VM; the hand-written models outside the generated cases; the observation harness; the real text "
                  "readers, whose answers are fed to the model per case. No axioms.",
    "technique": "Rocq proof by structural induction on the type grammar and on lists (fixed point of a faithful Gallina model of "
                 "adapt_typehints/_check_type incl. its list-valued form/parse_object) + per-case correspondence with the real parser "
                 "evaluated in Coq",
}

"""C04 — sources override each other in the documented order.

Real parsers are run end to end (tie/impl/c04_run.py) on seeded scenarios; the observed final value of every
declared key is judged inside Coq against Model/C04Sources.v (pipeline) and Spec/C04Spec.v (fold_sources)."""
from tie.framework import g_Z, g_bool, g_list, g_opt, g_pair, g_str, run_impl_parallel

PROP = "C04"
IMPORTS = "From JV Require Import Lib.Base Lib.C04Base Model.C04Sources Spec.C04Spec Model.C04Wf Corr.C04Judge."
RULE = ("seeded scenarios: a parser of 2-7 flat/nested int, str, Optional[str], List[int], nargs='+' int and Dict[str,int] keys (defaults None or typed; "
        "str values are tokens 't<n>' and the EMPTY string, rendered in every source: variable set to '', `--k=`, `k: ''`), 0-3 "
        "default_config_files patterns (literal, glob with 0-3 matches whose names sort non-trivially, missing, blank file; in 40 % "
        "of the lists one file is reached a SECOND time: pattern listed again, file named explicitly, overlapping narrower glob), "
        "env config via the config variable (file or string), 0-3 individual variables, default_env x JSONARGPARSE_DEFAULT_ENV x "
        "env= argument, and one of parse_args (0-6 items: --k=v, --k+=v, --k.item=v, --cfg file/string), parse_env, parse_string, "
        "parse_object; parse_args also through sys.argv; 4 % of the command lines carry one item outside the well-formed space "
        "('--key+' for a non-list key, undeclared option: the call must be rejected); a variable of a nargs='+' key with one element is "
        "written bare; 20 % of the flat scenarios are HISTORIES on one parser object: built with another env_prefix / default_env, one "
        "environment-reading parse (decoy variables under the old names), then env_prefix and default_env assigned through the "
        "properties, then the observed parse; all values are fresh tokens so every order change is visible; sources are biased to 1-3 hot keys. "
        "a quarter of the scenarios have one level of subcommands: parse_args(parent items, NAME, subcommand items) with 1-3 parent keys, "
        "2-4 keys of the chosen subcommand and a bystander subcommand, environment variables PREFIX_NAME__KEY, parent-level --cfg "
        "documents with a NAME: section (plain assignments), options and (if the subcommand has one) --cfg after the token; "
        "the variable PREFIX_SUBCOMMAND is unset, NAME, the bystander or no subcommand. "
        "non-trivial = at least two sources assign the same key; distinct = distinct (scenario, observation)")
TRUSTED = [
    "Coq 8.16.1 kernel + vm_compute",
    "tie/impl/c04_run.py (builds the real parser, files, environment, argv; canonicalises the result) and the Gallina printer",
    "hand-written model coq/Model/C04Sources.v, tied by per-case agreement evaluated inside Coq",
    "the rendering of an assignment list as a YAML/JSON document, option strings and PREFIX_LEV__OPT variable names done by the harness",
]
ASSUMPTIONS = [
    "values are int tokens, string tokens ('t<n>' and '') for str/Optional[str] keys, List[int] and Dict[str,int]; type conversion is the "
    "identity on them (conversion is C02/C05)",
    "subcommand scenarios (judged case by case, not covered by C04_precedence): parse_args only, the subcommand is named on the command "
    "line (PREFIX_SUBCOMMAND may be set to anything, a `subcommand:` key is never written); default config files and the environment config may carry plain "
    "assignments in the NAME: section, parent-level --cfg documents also appends; options before the token address the parent's "
    "keys; a parent key sharing its name with a list key of the subcommand is not str-typed",
    "declared keys are prefix-free (a key is a group or an argument), carry no '+', and each document mentions a key once",
    "a nargs='+' key is a list-typed key of the model that only ever receives plain assignments (the code has no 'key+' for it); on the "
    "command line it is written `--key 1 2 3`; parent keys of subcommand scenarios are never nargs='+' (the token would be swallowed)",
    "histories: only the FINAL env_prefix / default_env of the parser count (assigned through the properties after a first parse); "
    "subcommand parsers are not re-prefixed after add_subcommand",
    "PyYAML/json round-trip the generated documents; argparse splits '--opt=value' and '--opt value' alike",
]
EXHAUSTIVE = {"quick": False, "thorough": False}
# Judge for the tree under test: "judge" = unchanged code.  When fixes/C04-default-config-without-subcommand-section-rejected.patch
# is applied in /repo: JUDGE = "judge_fixed_section" (class 4 then no longer occurs; drop key 4 and flip the open: line).
# "judge_fixed_append" / "judge_fixed" follow notes/C04-section-append.proposal.patch (a PARTIAL repair: class 5 stays a finding).
import os as _os

JUDGE = _os.environ.get("VERIF_C04_JUDGE", "judge_fixed_section_envsub_leaf")  # /repo e3568f9 and 3663e43 landed
FINDING_CLASSES = {1: "envcfg-append-ignores-earlier-list", 3: "subcommand-variable-loses-to-earlier-parent-source",
                   5: "section-append-uses-parent-list"}  # 4 repaired in /repo e3568f9; 6 repaired by 3663e43 + 5fa071e

LEAVES = ["a", "b", "l", "m", "d", "e", "g.x", "g.l", "g.d", "g.h.y", "g.h.l", "g.h.d", "k.x", "k.l", "k.d"]
ITEMS = ["p", "q", "r", "s"]
NAMES = ["a", "B", "b", "a10", "a2", "Z", "_c", "zz", "m", "A", "0x", "b_"]
FMTS = ["yaml", "json", "yaml_flow"]


class Tok:
    def __init__(self):
        self.n = 0

    def __call__(self):
        self.n += 1
        return self.n


STR_KINDS = ("str", "optstr")
# "nlist" is `type=int, nargs="+"`: a list-valued key of the argparse kind (no "key+" form: it only receives plain assignments)
COQ_KIND = {"scalar": "KScalar", "str": "KScalar", "optstr": "KScalar", "list": "KList", "nlist": "KList", "dict": "KDict"}
SUBNAMES = ["fit", "run", "tune"]


def gen_value(rng, kind, tok, allow_empty=True):
    if kind == "scalar":
        return tok()
    if kind in STR_KINDS:
        # a str / Optional[str] key: token n is rendered as the string "t<n>", token 0 as the EMPTY string (a legal
        # value in every source: variable set to "", `--k=`, `k: ''` in a document)
        return 0 if rng.random() < 0.3 else tok()
    if kind == "nlist":
        return [tok() for _ in range(rng.choice([1, 1, 2, 3]))]
    if kind == "list":
        n = rng.choice([0, 1, 1, 2, 3]) if allow_empty else rng.choice([1, 1, 2, 3])
        return [tok() for _ in range(n)]
    n = rng.choice([0, 1, 1, 2, 3]) if allow_empty else rng.choice([1, 2])
    return {i: tok() for i in rng.sample(ITEMS, n)}


def gen_doc(rng, decls, hot, tok, nonempty=False, set_only=False, pmax=0.5):
    doc = []
    pcold = rng.choice([0.0, 0.15, pmax])
    order = list(decls)
    rng.shuffle(order)
    for d in order:
        if rng.random() < (0.8 if d["key"] in hot else pcold):
            if d["kind"] == "list" and not set_only and rng.random() < 0.5:
                v = tok() if rng.random() < 0.4 else gen_value(rng, "list", tok)
                doc.append([d["key"], "append", v])
            else:
                doc.append([d["key"], "set", gen_value(rng, d["kind"], tok)])
    if nonempty and not doc:
        d = rng.choice(decls)
        doc.append([d["key"], "set", gen_value(rng, d["kind"], tok)])
    return doc


def relist_patterns(rng, patterns, p=0.4):
    """A default config file reached a second time by the listed entries: the whole pattern listed again, one of its
    files named explicitly, or an overlapping narrower glob — anywhere after (or, for the explicit name / narrower glob,
    before) the pattern, other patterns in between: the file is applied at EVERY position it is listed at."""
    src = [i for i, q in enumerate(patterns) if q["matches"]]
    if not src or rng.random() >= p:
        return
    i = rng.choice(src)
    q = patterns[i]
    mode = rng.choice(["again", "literal", "subglob"]) if q["pattern"].endswith("*.yaml") else "again"
    if mode == "again":
        new = {"pattern": q["pattern"], "matches": [dict(m) for m in q["matches"]]}
        pos = rng.randint(i + 1, len(patterns))
    elif mode == "literal":
        m = rng.choice(q["matches"])
        new = {"pattern": m["name"], "matches": [dict(m)]}
        pos = rng.randint(0, len(patterns))
    else:
        stem = q["pattern"][: -len("*.yaml")]
        first = rng.choice(q["matches"])["name"][len(stem)]
        new = {"pattern": stem + first + "*.yaml", "matches": [dict(m) for m in q["matches"] if m["name"][len(stem)] == first]}
        pos = rng.randint(0, len(patterns))
    patterns.insert(pos, new)


def gen_case(rng):
    tok = Tok()
    nk = rng.randint(2, 7)
    keys = rng.sample(LEAVES, nk)
    decls = []
    for k in keys:
        kind = rng.choice(["scalar", "str", "optstr", "list", "list", "dict", "nlist"])
        default = None if rng.random() < 0.3 else gen_value(rng, kind, tok)
        decls.append({"key": k, "kind": kind, "default": default})
    if not any(d["kind"] == "list" for d in decls):
        decls[0]["kind"] = "list"
        decls[0]["default"] = gen_value(rng, "list", tok)
    hot = set(rng.sample(keys, min(len(keys), rng.randint(1, 3))))
    # list keys are preferred hot keys
    lk = [d["key"] for d in decls if d["kind"] == "list"]
    hot.add(rng.choice(lk))

    patterns = []
    used = set()
    for i in range(rng.choice([0, 0, 1, 1, 2, 2, 3])):
        kind = rng.choice(["glob", "glob", "literal", "missing"])
        # the first letter is random so that the listed order of the patterns is independent of the
        # lexicographic order of the files they match (a global sort instead of a per-pattern sort must show)
        tag = rng.choice(["p", "a", "z", "m", "b"])
        matches = []
        if kind == "glob":
            names = rng.sample(NAMES, rng.choice([0, 1, 2, 2, 3, 3]))
            rng.shuffle(names)
            for nm in names:
                blank = rng.random() < 0.08
                matches.append({"name": "%s%d_%s.yaml" % (tag, i, nm), "doc": [] if blank else gen_doc(rng, decls, hot, tok, nonempty=True),
                                "fmt": rng.choice(FMTS), "blank": rng.choice(["", " \n", "\n\n"])})
            pattern = "%s%d_*.yaml" % (tag, i)
        elif kind == "literal":
            nm = rng.choice(NAMES)
            blank = rng.random() < 0.08
            matches.append({"name": "%s%d_%s.yaml" % (tag, i, nm), "doc": [] if blank else gen_doc(rng, decls, hot, tok, nonempty=True),
                            "fmt": rng.choice(FMTS), "blank": ""})
            pattern = matches[0]["name"]
        else:
            pattern = "%s%d_missing.yaml" % (tag, i)
        patterns.append({"pattern": pattern, "matches": matches})
    relist_patterns(rng, patterns)

    envcfg = None
    if rng.random() < 0.5:
        envcfg = {"doc": gen_doc(rng, decls, hot, tok, nonempty=True), "as": rng.choice(["file", "string"]), "fmt": rng.choice(FMTS)}
    envvars = []
    if rng.random() < 0.6:
        cand = [d for d in decls if d["key"] in hot or rng.random() < 0.3]
        rng.shuffle(cand)
        for d in cand[: rng.randint(1, 3)]:
            envvars.append([d["key"], gen_value(rng, d["kind"], tok)])

    os_default_env = rng.choice([None, None, None, True, False])
    case = {
        "parser": decls,
        "cfg_pos": rng.randint(0, 7),
        "env_prefix": rng.choice(["str", "str", "prog", "none"]),
        "default_env": rng.random() < 0.5,
        "os_default_env": os_default_env,
        "os_default_env_text": rng.choice(["true", "True", "TRUE"]) if os_default_env else rng.choice(["false", "False"]),
        "env_arg": rng.choice([None, None, True, False]),
        "dcf_empty_list": rng.random() < 0.5,
        "patterns": patterns,
        "envcfg": envcfg,
        "envvars": envvars,
        # two-stage parsing: after this many add_argument calls the runner makes a warm-up parse of the environment,
        # then adds the remaining arguments (anything the parser caches about its arguments at the first parse shows)
        "stage_at": rng.randint(1, nk - 1) if nk > 1 and rng.random() < 0.25 else None,
        # a variable of a nargs="+" key that holds ONE element is written bare ("7" instead of "[7]")
        "env_bare": rng.random() < 0.5,
    }
    # a history on the ONE parser object: it is built with other settings (prefix, default_env), parses once with the
    # environment (decoy variables under the old names stay set), then env_prefix / default_env are assigned the
    # settings of the scenario through the properties; the observed parse follows.  Only the final settings count.
    if case["stage_at"] is None and rng.random() < 0.2:
        case["history"] = {"old_prefix": rng.choice([q for q in ("OLD", "prog", "none") if q != case["env_prefix"] and not (q == "prog" and case["env_prefix"] == "str")]),
                           "old_default_env": rng.random() < 0.6, "warm": rng.choice(["env", "args", "string", "object"])}
    r = rng.random()
    if r < 0.55:
        argv = []
        for _ in range(rng.choice([0, 1, 2, 3, 3, 4, 5, 6, 6])):
            style = rng.choice(["eq", "eq", "space"])
            q = rng.random()
            pool = [d for d in decls if d["key"] in hot] if rng.random() < 0.75 else decls
            d = rng.choice(pool)
            if q < 0.22:
                argv.append({"cfg": gen_doc(rng, decls, hot, tok, nonempty=True), "as": rng.choice(["file", "string"]),
                             "fmt": rng.choice(FMTS), "style": style})
            elif d["kind"] == "list" and q < 0.62:
                v = tok() if rng.random() < 0.5 else gen_value(rng, "list", tok)
                argv.append({"asg": [d["key"], "append", v], "style": style})
            elif d["kind"] == "dict" and q < 0.7:
                argv.append({"asg": [d["key"], "item", rng.choice(ITEMS), tok()], "style": style})
            else:
                argv.append({"asg": [d["key"], "set", gen_value(rng, d["kind"], tok)], "style": style})
        # the same config FILE given again later on the command line (same path): it must be applied again at its
        # second position, whatever was given in between
        files = [i for i, it in enumerate(argv) if "cfg" in it and it["as"] == "file"]
        if files and rng.random() < 0.5:
            i = rng.choice(files)
            argv[i]["fid"] = 1
            again = dict(argv[i], style=rng.choice(["eq", "space"]))
            argv.insert(rng.randint(i + 1, len(argv)), again)
        # ... or the file named by the config environment variable given again with --cfg
        if envcfg is not None and envcfg["as"] == "file" and rng.random() < 0.3:
            argv.insert(rng.randint(0, len(argv)), {"cfg": envcfg["doc"], "as": "file", "fmt": envcfg["fmt"], "fid": "envcfg",
                                                     "style": rng.choice(["eq", "space"])})
        # rarely one item outside the well-formed space: "--key+" for a key that is no list, or an undeclared option
        # (the call must be rejected: Unrecognized in the model)
        if rng.random() < 0.04:
            pool = [d for d in decls if d["kind"] not in ("list", "nlist")]
            key = rng.choice(pool)["key"] if pool and rng.random() < 0.7 else "zz"
            argv.insert(rng.randint(0, len(argv)), {"asg": [key, "append", tok()], "style": rng.choice(["eq", "space"])})
        # parse_args() without a list reads sys.argv[1:]
        case["entry"] = {"kind": "args", "argv": argv, "via_sysargv": rng.random() < 0.15}
    elif r < 0.65:
        case["entry"] = {"kind": "env", "as_dict": rng.random() < 0.5}
    elif r < 0.83:
        case["entry"] = {"kind": "string", "doc": gen_doc(rng, decls, hot, tok, nonempty=rng.random() < 0.9), "fmt": rng.choice(FMTS)}
    else:
        case["entry"] = {"kind": "object", "doc": gen_doc(rng, decls, hot, tok)}
    return case


def gen_decls(rng, keys, tok, nlist=False):
    out = []
    for k in keys:
        kind = rng.choice(["scalar", "scalar", "str", "optstr", "list", "list", "dict"] + (["nlist"] if nlist else []))
        out.append({"key": k, "kind": kind, "default": None if rng.random() < 0.3 else gen_value(rng, kind, tok)})
    return out


def gen_option(rng, d, tok, style):
    q = rng.random()
    if d["kind"] == "list" and q < 0.5:
        return {"asg": [d["key"], "append", tok() if rng.random() < 0.5 else gen_value(rng, "list", tok)], "style": style}
    if d["kind"] == "dict" and q < 0.5:
        return {"asg": [d["key"], "item", rng.choice(ITEMS), tok()], "style": style}
    return {"asg": [d["key"], "set", gen_value(rng, d["kind"], tok)], "style": style}


def gen_sub_case(rng):
    """parse_args(parent items ++ [NAME] ++ subcommand items) on a parser with one level of subcommands."""
    tok = Tok()
    own = gen_decls(rng, rng.sample(LEAVES, rng.randint(1, 3)), tok)
    name, other = rng.sample(SUBNAMES, 2)
    sdecls = gen_decls(rng, rng.sample(LEAVES, rng.randint(2, 4)), tok, nlist=True)
    odecls = gen_decls(rng, rng.sample(LEAVES, rng.randint(1, 2)), tok)
    # a parent key that shares its name with a list key of the subcommand is not str-typed (the model does not tell a
    # str token from an int token when the code tries it as a List[int] element)
    sub_lists = {d["key"] for d in sdecls if d["kind"] == "list"}
    for d in own:
        if d["key"] in sub_lists and d["kind"] in STR_KINDS:
            d["kind"] = "scalar"
            d["default"] = tok()
    prefixed = [dict(d, key=name + "." + d["key"]) for d in sdecls]
    shot = set(rng.sample([d["key"] for d in sdecls], rng.randint(1, 2)))
    hot = {rng.choice(own)["key"]} | {name + "." + k for k in shot}

    def parent_doc():
        # own keys and the subcommand's keys (NAME.key) with any operation
        doc = gen_doc(rng, own, hot, tok, pmax=0.3) + gen_doc(rng, prefixed, hot, tok, set_only=rng.random() < 0.6, pmax=0.3)
        if not doc:
            d = rng.choice(prefixed)
            doc = [[d["key"], "set", gen_value(rng, d["kind"], tok)]]
        rng.shuffle(doc)
        return doc

    def early_doc(section):
        # default config file / environment config: own keys with any operation, plain assignments in the NAME: section
        doc = gen_doc(rng, own, hot, tok, pmax=0.3)
        if section:
            doc += gen_doc(rng, prefixed, hot, tok, set_only=True, nonempty=True, pmax=0.3)
        if not doc:
            d = rng.choice(own)
            doc = [[d["key"], "set", gen_value(rng, d["kind"], tok)]]
        rng.shuffle(doc)
        return doc

    patterns = []
    for i in range(rng.choice([0, 0, 0, 1, 1, 2])):
        nm = "p%d_%s.yaml" % (i, rng.choice(NAMES))
        # mostly with a section of the chosen subcommand (a first file without one is rejected on the unchanged tree)
        patterns.append({"pattern": nm, "matches": [{"name": nm, "doc": early_doc(rng.random() < (0.9 if i == 0 else 0.5)),
                                                      "fmt": rng.choice(FMTS), "blank": ""}]})
    relist_patterns(rng, patterns, p=0.25)
    envcfg = None
    if rng.random() < 0.3:
        envcfg = {"doc": early_doc(rng.random() < 0.6), "as": rng.choice(["file", "string"]), "fmt": rng.choice(FMTS)}
    envvars = [[d["key"], gen_value(rng, d["kind"], tok)] for d in own if rng.random() < 0.4]
    subenv = [[d["key"], gen_value(rng, d["kind"], tok)] for d in sdecls if rng.random() < (0.7 if d["key"] in shot else 0.2)]
    os_default_env = rng.choice([None, None, None, True, False])
    argv = []
    for _ in range(rng.choice([0, 1, 2, 2, 3, 3, 4])):
        style = rng.choice(["eq", "eq", "space"])
        if rng.random() < 0.7:
            argv.append({"cfg": parent_doc(), "as": rng.choice(["file", "string"]), "fmt": rng.choice(FMTS), "style": style})
        else:
            argv.append(gen_option(rng, rng.choice(own), tok, style))
    has_cfg = rng.random() < 0.5
    subargv = []
    for _ in range(rng.choice([0, 0, 1, 1, 2, 3])):
        style = rng.choice(["eq", "eq", "space"])
        if has_cfg and rng.random() < 0.3:
            subargv.append({"cfg": gen_doc(rng, sdecls, shot, tok, nonempty=True), "as": rng.choice(["file", "string"]),
                            "fmt": rng.choice(FMTS), "style": style})
        else:
            pool = [d for d in sdecls if d["key"] in shot] if rng.random() < 0.7 else sdecls
            subargv.append(gen_option(rng, rng.choice(pool), tok, style))
    return {
        "parser": own, "cfg_pos": rng.randint(0, 7), "env_prefix": rng.choice(["str", "str", "prog", "none"]),
        "default_env": rng.random() < 0.65, "os_default_env": os_default_env,
        "os_default_env_text": rng.choice(["true", "True", "TRUE"]) if os_default_env else rng.choice(["false", "False"]),
        "env_arg": rng.choice([None, None, None, True, False]), "dcf_empty_list": rng.random() < 0.5,
        "patterns": patterns, "envcfg": envcfg, "envvars": envvars, "stage_at": None, "env_bare": rng.random() < 0.5,
        "entry": {"kind": "args", "argv": argv, "via_sysargv": rng.random() < 0.1},
        # the variable PREFIX_SUBCOMMAND: unset, the subcommand the command line names, the other one, no subcommand at all
        "sub": {"envsub": rng.choice([None, None, None, name, name, other, "zzz"]), "name": name, "decls": sdecls, "other": {"name": other, "decls": odecls}, "sorted": rng.random() < 0.5,
                "has_cfg": has_cfg, "envvars": subenv, "argv": subargv},
    }


def generate(rng, tier):
    n = 1800 if tier == "quick" else 30000
    return [gen_sub_case(rng) if rng.random() < 0.25 else gen_case(rng) for _ in range(n)]


def search(rng, tier, broken):
    """failing-input search after a broken proof/tie: ONE fresh quick-sized batch (bounded, ~60 s), judged by the same judge"""
    import sys

    from tie import framework

    mod = sys.modules[__name__]
    cases = generate(rng, "quick")
    obs = observe(cases)
    bm, bi, bo = framework.judge_cases(mod, cases, obs, tag="x")
    known = framework.load_known_findings(PROP)
    bad = sorted(set(bi) | {i for i, k in bo if FINDING_CLASSES.get(k) not in known})
    if not bad:
        return None
    i = bad[0]
    return {"case": cases[i], "observed": obs[i], "explain": describe(cases[i], obs[i])}


def observe(cases):
    k = 16 if len(cases) >= 64 else 1
    chunks = [cases[i::k] for i in range(k)]
    res = run_impl_parallel("c04_run.py", [{"cases": ch} for ch in chunks], timeout=1500)
    out = [None] * len(cases)
    for i, r in enumerate(res):
        out[i::k] = r
    return out


# ------------------------------------------------------------------------------------------------------
# Gallina printing
# ------------------------------------------------------------------------------------------------------
def g_key(key):
    return g_list([g_pair(g_str(s), "false") for s in key.split(".")], "name")


def g_val(v):
    if v is None:
        return "VNone"
    if isinstance(v, dict) and "tok" in v and len(v) == 1 and not isinstance(v["tok"], dict):
        return "(VTok %s)" % g_Z(v["tok"])
    if isinstance(v, int):
        return "(VTok %s)" % g_Z(v)
    if isinstance(v, list):
        return "(VList %s)" % g_list([g_Z(x) for x in v], "Z")
    if isinstance(v, dict):
        return "(VDict %s)" % g_list([g_pair(g_str(k), g_Z(x)) for k, x in v.items()], "(str * Z)")
    raise ValueError(v)


def g_obs_val(v):
    if v is None:
        return "VNone"
    if "tok" in v:
        return "(VTok %s)" % g_Z(v["tok"])
    if "list" in v:
        return "(VList %s)" % g_list([g_Z(x) for x in v["list"]], "Z")
    if "dict" in v:
        return "(VDict %s)" % g_list([g_pair(g_str(k), g_Z(x)) for k, x in v["dict"]], "(str * Z)")
    return "(VTok (-1000000)%Z)"  # a value of an unexpected Python type: equals nothing the model or spec produce


def g_asg(a):
    key, op = a[0], a[1]
    if op == "set":
        o = "Set_ %s" % g_val(a[2])
    elif op == "append":
        o = "Append %s" % g_val(a[2])
    else:
        o = "DictItem %s %s" % (g_str(a[2]), g_Z(a[3]))
    return "(%s, %s)" % (g_key(key), o)


def g_doc(doc):
    return g_list([g_asg(a) for a in doc], "assignment")


def g_optbool(b):
    return g_opt(None if b is None else g_bool(b))


def g_decls(decls):
    return g_list(["{| d_key := %s; d_kind := %s; d_default := %s |}" % (g_key(d["key"]), COQ_KIND[d["kind"]], g_val(d["default"]))
                   for d in decls], "decl")


def g_argv(argv):
    return g_list([("ACfg %s" % g_doc(it["cfg"])) if "cfg" in it else ("AAsg %s" % g_asg(it["asg"])) for it in argv], "arg")


def term(case, obs):
    decls = g_decls(case["parser"])
    pats = g_list([g_list([g_pair(g_str(m["name"]), g_doc(m["doc"])) for m in p["matches"]], "(str * doc)") for p in case["patterns"]],
                  "(list (str * doc))")
    e = case["entry"]
    if e["kind"] == "args":
        entry = "EArgs %s" % g_argv(e["argv"])
    elif e["kind"] == "env":
        entry = "EEnv"
    elif e["kind"] == "string":
        entry = "EString %s" % g_doc(e["doc"])
    else:
        entry = "EObject %s" % g_doc(e["doc"])
    call = ("{| c_parser := %s; c_default_env := %s; c_os_default_env := %s; c_env_arg := %s; c_patterns := %s; "
            "c_envcfg := %s; c_envvars := %s; c_entry := %s |}") % (
        decls, g_bool(case["default_env"]), g_optbool(case["os_default_env"]), g_optbool(case["env_arg"]), pats,
        g_opt(None if case["envcfg"] is None else g_doc(case["envcfg"]["doc"])),
        g_list([g_pair(g_key(k), g_val(v)) for k, v in case["envvars"]], "(tpath * val)"), entry)
    if "error" in obs:
        o = "None"
    else:
        o = "(Some (%s, %s))" % (g_list([g_obs_val(v) for v in obs["values"]], "val"), g_bool(bool(obs["extra"])))
    sub = case.get("sub")
    if sub:
        ksub = "(Some (%s, %s, %s, %s, %s))" % (
            g_pair(g_str(sub["name"]), "false"), g_decls(sub["decls"]),
            g_list([g_pair(g_key(k), g_val(v)) for k, v in sub["envvars"]], "(tpath * val)"), g_argv(sub["argv"]),
            g_opt(None if sub.get("envsub") is None else g_pair(g_str(sub["envsub"]), "false")))
    else:
        ksub = "None"
    return "{| k_call := %s; k_sub := %s; k_obs := %s |}" % (call, ksub, o)


# ------------------------------------------------------------------------------------------------------
# evidence helpers
# ------------------------------------------------------------------------------------------------------
def all_docs(case):
    """(source label, doc) in documented order, ignoring whether the environment is read."""
    out = []
    for p in case["patterns"]:
        for m in sorted(p["matches"], key=lambda m: m["name"]):
            out.append(("file", m["doc"]))
    if case["envcfg"] is not None:
        out.append(("envcfg", case["envcfg"]["doc"]))
    if case["envvars"]:
        out.append(("envvars", [[k, "set", v] for k, v in case["envvars"]]))
    e = case["entry"]
    if e["kind"] == "args":
        for it in e["argv"]:
            out.append(("argcfg", it["cfg"]) if "cfg" in it else ("arg", [it["asg"]]))
    elif e["kind"] in ("string", "object"):
        out.append((e["kind"], e["doc"]))
    sub = case.get("sub")
    if sub:
        pre = sub["name"] + "."
        if sub["envvars"]:
            out.append(("subenvvars", [[pre + k, "set", v] for k, v in sub["envvars"]]))
        for it in sub["argv"]:
            doc = it["cfg"] if "cfg" in it else [it["asg"]]
            out.append(("subargcfg" if "cfg" in it else "subarg", [[pre + a[0]] + list(a[1:]) for a in doc]))
    return out


def nontrivial_key(case, obs):
    cnt = {}
    for _, doc in all_docs(case):
        for a in doc:
            cnt[a[0]] = cnt.get(a[0], 0) + 1
    if not cnt or max(cnt.values()) < 2:
        return None
    import json

    return json.dumps([case, obs], sort_keys=True)


def category(case, obs):
    e = case["entry"]
    n = len(all_docs(case))
    return "%s%s/%d sources/%s" % (e["kind"], "+subcommand" if case.get("sub") else "", min(n, 9), "error" if "error" in obs else "ok")


def describe(case, obs):
    return {"scenario": case, "observed_final_values": obs,
            "keys_in_declaration_order": [d["key"] for d in case["parser"]]}


def shrink(case):
    import copy

    def variant(f):
        c = copy.deepcopy(case)
        try:
            if f(c) is False:
                return None
        except (IndexError, KeyError, TypeError):
            return None
        return c

    cands = []
    e = case["entry"]
    if e["kind"] == "args":
        for i in range(len(e["argv"])):
            cands.append(variant(lambda c, i=i: c["entry"]["argv"].pop(i)))
    for i in range(len(case["patterns"])):
        cands.append(variant(lambda c, i=i: c["patterns"].pop(i)))
        for j in range(len(case["patterns"][i]["matches"])):
            if case["patterns"][i]["pattern"].endswith("*.yaml"):
                cands.append(variant(lambda c, i=i, j=j: c["patterns"][i]["matches"].pop(j)))
    if case["envcfg"] is not None:
        cands.append(variant(lambda c: c.__setitem__("envcfg", None)))
    for i in range(len(case["envvars"])):
        cands.append(variant(lambda c, i=i: c["envvars"].pop(i)))
    if case.get("sub"):
        for i in range(len(case["sub"]["argv"])):
            cands.append(variant(lambda c, i=i: c["sub"]["argv"].pop(i)))
        for i in range(len(case["sub"]["envvars"])):
            cands.append(variant(lambda c, i=i: c["sub"]["envvars"].pop(i)))
        used_sub = {a[0] for _, doc in all_docs(case) for a in doc}
        for i, d in enumerate(case["sub"]["decls"]):
            if case["sub"]["name"] + "." + d["key"] not in used_sub and len(case["sub"]["decls"]) > 1:
                cands.append(variant(lambda c, i=i: c["sub"]["decls"].pop(i)))
    # drop single assignments from documents
    def docs_of(c):
        ds = [m["doc"] for p in c["patterns"] for m in p["matches"]]
        if c["envcfg"] is not None:
            ds.append(c["envcfg"]["doc"])
        en = c["entry"]
        if en["kind"] == "args":
            ds += [it["cfg"] for it in en["argv"] if "cfg" in it]
        elif en["kind"] in ("string", "object"):
            ds.append(en["doc"])
        return ds

    for di, d in enumerate(docs_of(case)):
        if len(d) > 1:
            for j in range(len(d)):
                cands.append(variant(lambda c, di=di, j=j: docs_of(c)[di].pop(j)))
    # drop declared keys that no source mentions
    used = {a[0] for _, doc in all_docs(case) for a in doc}
    for i, d in enumerate(case["parser"]):
        if d["key"] not in used and len(case["parser"]) > 1:
            cands.append(variant(lambda c, i=i: c["parser"].pop(i)))
    for c in cands:
        if c is not None:
            yield c


META = {
    "level_text": "Theorems C04_precedence, C04_later_wins, C04_untouched_keys_keep_earlier_value (coq/Properties/C04.v): for every "
                  "well-formed parse call (any number of flat/nested scalar, list and dict keys, default config files, "
                  "environment sources and command line items) the code-shaped model of get_defaults / _load_env_vars / "
                  "merge_config / apply_config / the argv fold returns, for every declared key, the value of the left fold of "
                  "apply_assignment over the sources in the documented order; C04_subcommand_variable_is_not_a_source: with a subcommand, "
                  "PREFIX_SUBCOMMAND contributes no value unless it names the chosen subcommand while the environment is read. The model is tied to jsonargparse by running real "
                  "parsers end to end through parse_args/parse_env/parse_string/parse_object and judging agreement inside Coq.",
    "level_note": "One guard (finding class 1): an append ('key+') inside the config named by the config environment variable "
                  "when the earlier list is non-empty. Calls with a subcommand level (class 2) are modelled (Model/C04Sub.v pipeline_sub, "
                  "composed of the proved pieces) and judged per case against the same documented fold over the keys of both levels "
                  "(Spec flat_call), but the precedence theorem is not yet proved for pipeline_sub: there the guarantee is the "
                  "correspondence only. Four findings of that level have their own classes (3, 4, 5, 6) with _refuted witnesses; a "
                  "class 3-6 verdict requires that the faithful model reproduces the observation. Round 6: PREFIX_SUBCOMMAND is inside the model "
                  "(load_env_vars_sub): C04_subcommand_variable_is_not_a_source proves for every call that a value not naming the chosen "
                  "subcommand (or any value while the environment is not read) changes nothing; a value naming it resets the NAME: sections of "
                  "default config files / environment config to the subcommand's defaults (finding class 6, _refuted witness). Trusted: Coq kernel/VM; model faithfulness outside the sampled scenarios; "
                  "harness rendering of documents, options and variable names. No axioms.",
    "technique": "Rocq proof by refinement (nested namespace tree -> flat fold, invariants: unique names, shape) + end-to-end correspondence evaluated in Coq",
}

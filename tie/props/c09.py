"""C09 — a parser's answers do not depend on what it was asked before.

Model coq/Model/C09ParserState.v (state machine over the carried state), lemmas coq/Proofs/C09Proofs.v, theorems
coq/Properties/C09.v, judge coq/Corr/C09Judge.v.
A case is (two parser declarations, a history, an index `at`): the history prefix ops[:at] is run on the re-used
parsers, ops[at] is the call under test.  The runner (tie/impl/c09_history.py) reports the abstraction of the real
carried state before/after the call and the answers of the re-used and of a fresh parser (fresh process).
"""
import json
import sys

from tie import framework
from tie.framework import TieBroken, g_bool, g_list, g_nat, g_N, g_opt, g_pair, g_str, run_impl, run_impl_parallel

PROP = "C09"
IMPORTS = "From JV Require Import Lib.Base Model.C09ParserState Spec.C09Spec Corr.C09Judge."
RULE = ("seeded histories of 1-12 calls over two parsers drawn from: config argument (+ --print_config), int/str options "
        "(optionally one required), class-typed option Base/SubA/SubB (plain and Callable[[int], Base], also given the "
        "callable non-Base class Fac, and c09_extra.SubX whose module only a class_path imports; default None or a class "
        "spec WITH init_args), a dataclass-typed option d: Optional[Data]; the class / Callable / dataclass options "
        "either from add_argument or from a signature (add_class_arguments: non-empty per-action sub_add_kwargs); a "
        "parse-time link into the class' init_args (from an int option with the same type in every class; and, link "
        "family: from the group key g of a dataclass-typed argument, without compute_fn, into init_arg o of an option "
        "typed LBase whose subclasses annotate o as dict (WD) and as the dataclass (WO)), two sub-commands "
        "(optional/required, with their own config argument); "
        "dict-like sources give class options as class_path + init_args or init_args alone, and d as a partial mapping; calls: "
        "parse_args (valid, invalid value, unknown option, bad print_config flag, --help, --print_config[=flags] before/"
        "after a failure, inside a sub-command, before a --cfg, class help with and without trailing arguments, with a "
        "value (one item or two) and without a value, unknown sub-command, empty --cfg; called with the keywords "
        "env=None/True/False and defaults=True/False, with an argument list or through sys.argv), parse_object / parse_string / parse_env (valid, invalid, unknown key, missing required, key "
        "print_shtab), get_defaults, dump (flag combinations, corrupted cfg), validate (ok / corrupted), "
        "instantiate_classes; every fifth history with a Base-typed option additionally gets help / class_path that imports "
        "c09_extra / help on both parsers (known subclasses grow in mid-history); every prefix of every history is one case (state before, call, state after, fresh answer); "
        "a case is non-trivial when the history prefix is non-empty; distinct = distinct (declarations, prefix, call)")
TRUSTED = [
    "Coq 8.16.1 kernel + vm_compute",
    "tie/impl/c09_history.py: builds the real parsers, renders calls, canonicalises answers (sha256 digest of kind, "
    "result/ArgumentError text, stdout, stderr), computes the abstraction of parser.__dict__ / actions / ContextVars / "
    "module- and class-level containers, runs fresh references in forked pristine processes",
    "hand-written model coq/Model/C09ParserState.v, tied by per-step state and answer agreement evaluated inside Coq",
    "the Gallina printer in tie/props/c09.py",
    "probe_fixes (tie/props/c09.py): selects the pinned or the repaired model variant at each of the three finding sites "
    "by replaying the three refutation witnesses on the implementation; the choice is recorded in coverage.model_variant",
]
ASSUMPTIONS = [
    "the `shtab` package is importable (otherwise --print_shtab is never added and finding class 2 cannot occur)",
    "values of str options are alphabetic words, values of int options are decimal literals or alphabetic words; class "
    "parameters are only given after their class in the same argv; dict-like sources name a class only by its name",
    "answers are compared through a digest: equality of digests is taken for equality of answers",
    "single thread, single contextvars.Context per history",
    "the items after a class help (--<cls>.help[=CLASS] ...) are options of the form --name=value (a bare --help there "
    "is answered by the throw-away help parser itself: not modelled)",
    "parse_args(defaults=False) is only generated for parsers without parse-time links and for command lines without "
    "--print_config; env=True is generated with a process environment that holds no variable of the parser's prefix "
    "(the keywords then show in the carried parse_kwargs variable and, per the model, in how a sub-command is parsed)",
    "the fresh reference of a step runs in a pristine process that first imports the harness modules (c09_*) the "
    "re-used side had imported before that step: import state is environment (it changes the known-subclasses list of "
    "help texts), not state of jsonargparse",
    "the dataclass option d is Optional[Data] with Data(a: int = 0, b: int = 0) (no required field); dict-like sources "
    "give d as one mapping; at most one --cfg of a command line gives d and no field of d follows it on that line; a "
    "dict-like source names a class option once (class first, then its parameters); the linked init_arg o of the "
    "link family is never given by the user (the link overrides it); the environment never "
    "gives d; dump(skip_default=True) is not generated for parsers with class or dataclass options",
]
EXHAUSTIVE = {"quick": False, "thorough": False}
FINDING_CLASSES = {1: "print-config-pending", 2: "lazy-print-shtab-key", 3: "class-help-skip-shared",
                   4: "dataclass-default-carried"}
FAC = "c09_classes.Fac"  # a callable class that is no Base

WORDS = ["q", "w", "hey"]
FLAGSETS = ["skip_null", "comments", "skip_default", "skip_null,comments", "", "bogus", "skip_default,skip_null"]
# dump(skip_default=True) of a configuration that holds a class raises AttributeError in _dump_delete_default_entries
# (not a matter of history; belongs to C01/C03): skip_default is only generated for parsers without class options
FLAGSETS_NO_SD = [f for f in FLAGSETS if "skip_default" not in f]


def co3(co):
    """a class option [name, callable] (base Base), [name, callable, base] or [name, callable, base, default class]"""
    return co[0], co[1], (co[2] if len(co) > 2 else "Base")


def co_default(co):
    return co[3] if len(co) > 3 else None


EXTRA = "c09_extra.SubX"  # a Base subclass in a module that only a class_path imports


def pick_cls(rng, co):
    """a class name for a class option: mostly subclasses of its base, sometimes a class of the other family, Fac, Nope"""
    _, cal, base = co3(co)
    if base == "LBase":
        return rng.choice(["WD", "WO", "WD", "WO", "WO", "Nope", "SubA"])
    return rng.choice(["SubA", "SubB", "SubA", "Nope", "Base", FAC if cal or rng.random() < 0.3 else "SubB",
                       "WD" if rng.random() < 0.2 else "SubB", EXTRA if rng.random() < 0.6 else "SubB"])


PARAMS = {"SubA": ["a", "c"], "SubB": ["a", "b"], "Base": ["a"], "Nope": ["a"], "WD": ["a"], "WO": ["a"],
          EXTRA: ["a", "x", "x"]}


def flagsets(decl):
    return FLAGSETS_NO_SD if decl["root"]["cls"] or decl["root"].get("dc") else FLAGSETS


# ------------------------------------------------------------------------------------------------
# generation
# ------------------------------------------------------------------------------------------------
def gen_decl(rng):
    root = {"cfg": True, "opts": [["k", "int"], ["s", "str"]], "req": [], "cls": [], "links": []}
    if rng.random() < 0.3:
        root["opts"].append(["r", "int"])
        root["req"].append("r")
    if rng.random() < 0.6:
        # the default of a plain class option: None, or a class spec WITH init_args (SubA(a=5, c=9) / SubB(a=5, b=hey))
        root["cls"].append(["model", False, "Base", rng.choice([None, None, "SubA", "SubB"])])
        if rng.random() < 0.5:
            root["links"].append(["k", "model.init_args.a"])
    if rng.random() < 0.35:
        root["cls"].append(["cb", True])
    # dc: option d : Optional[Data] (dataclass a:int=0, b:int=0); sig: the class / Callable / dataclass options are
    # added from a signature (add_class_arguments(Holder)), so that action.sub_add_kwargs is a non-empty dict
    root["dc"] = rng.random() < 0.4
    root["sig"] = root["dc"] or (bool(root["cls"]) and rng.random() < 0.5)
    if root["sig"]:   # signature-derived options keep the default None
        root["cls"] = [co[:3] + [None] if len(co) > 3 else co for co in root["cls"]]
    # lk: a group g of two int fields (a dataclass-typed argument), an option lm typed LBase (subclasses WD(o: dict),
    # WO(o: Data)), and a parse-time link WITHOUT compute_fn from the group key to the class' init_args:
    # link_arguments("g", "lm.init_args.o")
    if rng.random() < 0.3:
        root["lk"] = True
        root["opts"] += [["g.a", "int"], ["g.b", "int"]]
        root["cls"].append(["lm", False, "LBase"])
    subs = []
    subreq = False
    if rng.random() < 0.55:
        fit = {"cfg": rng.random() < 0.7, "opts": [["lr", "int"]], "req": [], "cls": []}
        test = {"cfg": False, "opts": [["n", "int"]], "req": [], "cls": []}
        if rng.random() < 0.25:
            test["opts"].append(["mm", "int"])
            test["req"].append("mm")
        subs = [["fit", fit], ["test", test]]
        subreq = rng.random() < 0.5
    return {"root": root, "subreq": subreq, "subs": subs}


def val_for(rng, kind, p_bad=0.12):
    if kind == "int":
        return "bad" if rng.random() < p_bad else str(rng.choice([0, 2, 3, 7, 12, -4]))
    return rng.choice(WORDS)


def gen_sub_toks(rng, name, pd, FLAGSETS):
    toks = []
    for _ in range(rng.choice([0, 1, 1, 2, 3])):
        x = rng.random()
        if x < 0.45:
            n, k = rng.choice(pd["opts"])
            toks.append(["opt", n, val_for(rng, k)])
        elif x < 0.65 and pd["cfg"]:
            toks.append(["flag", "print_config"] if rng.random() < 0.6 else ["opt", "print_config", rng.choice(FLAGSETS)])
        elif x < 0.75 and pd["cfg"]:
            n, k = rng.choice(pd["opts"])
            toks.append(["cfg", [[n, val_for(rng, k, 0.08)]]])
        elif x < 0.82:
            toks.append(["flag", "help"])
        elif x < 0.9:
            toks.append(["opt", "zz", "1"])
        else:
            toks.append(["pos", "extra"])
    return toks


def dedupe(items):
    """a JSON object / dict cannot hold a key twice: keep the first occurrence"""
    seen, res = set(), []
    for k, v in items:
        if k not in seen:
            seen.add(k)
            res.append([k, v])
    return res


def gen_cfg_items(rng, decl):
    items = []
    root = decl["root"]
    used_cls = set()   # one group (class, then its parameters) per class option and source
    for _ in range(rng.choice([1, 1, 2, 3])):
        x = rng.random()
        if x < 0.5:
            n, k = rng.choice(root["opts"])
            items.append([n, val_for(rng, k, 0.08)])
        elif x < 0.75 and decl["subs"]:
            sn, spd = rng.choice(decl["subs"])
            n, k = rng.choice(spd["opts"])
            items.append([sn + "." + n, val_for(rng, k, 0.08)])
        elif x < 0.9 and root["cls"]:
            co = rng.choice(root["cls"])
            if co[0] not in used_cls:
                used_cls.add(co[0])
                items += gen_cls_items(rng, co, 0.08)
        elif x < 0.95:
            items.append(["zz", "1"])
    if root.get("dc") and rng.random() < 0.45:
        items.insert(rng.randrange(len(items) + 1), gen_d_item(rng, 0.08))
    return dedupe(items)


def gen_cls_items(rng, co, p_bad):
    """dict-like source: a class option (the class first, then parameters of it), or parameters alone (init_args
    without class_path: completed from the previous / default class)"""
    cn, cal, _ = co3(co)
    x = rng.random()
    cls = pick_cls(rng, co)
    params = PARAMS.get(cls, ["a", "z"])
    res = [] if x < 0.25 else [[cn, cls]]
    if x < 0.25:
        params = ["a", "a", "c", "b"]
    if x < 0.6:
        par = rng.choice(params + ["zz"] if rng.random() < 0.1 else params)
        res.append([cn + "." + par, val_for(rng, "str" if par == "b" else "int", p_bad)])
    return res


def gen_d_item(rng, p_bad):
    """dict-like source: d = {"a": A, "b": B} with one or both fields, rendered "A,B" (empty = field not given)"""
    a = val_for(rng, "int", p_bad) if rng.random() < 0.6 else ""
    b = val_for(rng, "int", p_bad) if (not a or rng.random() < 0.5) else ""
    return ["d", a + "," + b]


def gen_argv(rng, decl):
    root = decl["root"]
    FLAGSETS = flagsets(decl)
    toks = []
    n = rng.choice([0, 1, 1, 2, 2, 3, 4])
    style = rng.random()
    for _ in range(n):
        x = rng.random()
        if x < 0.3:
            nm, k = rng.choice(root["opts"])
            toks.append(["opt", nm, val_for(rng, k)])
        elif x < 0.48:
            toks.append(["flag", "print_config"] if rng.random() < 0.6 else ["opt", "print_config", rng.choice(FLAGSETS)])
        elif x < 0.58:
            toks.append(["cfg", gen_cfg_items(rng, decl)])
        elif x < 0.72 and root["cls"]:
            co = rng.choice(root["cls"])
            cn, cal, _ = co3(co)
            y = rng.random()
            cls = pick_cls(rng, co)
            if y < 0.5:
                toks.append(["opt", cn, cls])
                if rng.random() < 0.6 and cls != "Nope":
                    par = rng.choice(["a", "c", "b", "zz", "a", "z", "x"])
                    toks.append(["opt", cn + "." + par, val_for(rng, "str" if par == "b" else "int")])
            elif y < 0.7:
                toks.append(["opt", cn + ".a", val_for(rng, "int")])
            else:
                if rng.random() < 0.3:   # --<cls>.help without a value: the help of the type itself
                    toks.append(["flag", cn + ".help"])
                    for _ in range(rng.choice([0, 0, 1, 2])):
                        toks.append(rng.choice([["opt", cn + "." + rng.choice(["a", "c", "zz"]), "3"], ["opt", "k", "2"],
                                                ["opt", "s", "q"], ["opt", cn + ".a", "bad"]]))
                else:
                    toks.append(["opt", cn + ".help", cls])
                    if rng.random() < 0.45:
                        toks.append(["opt", cn + "." + rng.choice(["a", "c", "zz"]), "3"])
                break
        elif x < 0.78:
            toks.append(["flag", "help"])
        elif x < 0.84:
            toks.append(["opt", "zz", "1"] if rng.random() < 0.7 else ["flag", "zz"])
        elif x < 0.9 and "r" in root["req"]:
            toks.append(["opt", "r", val_for(rng, "int", 0.05)])
        elif x >= 0.9 and root.get("dc"):
            toks.append(["opt", "d." + rng.choice(["a", "b", "b"]), val_for(rng, "int", 0.08)])
    if root.get("dc") and rng.random() < 0.35:
        for _ in range(rng.choice([1, 1, 2])):
            toks.insert(rng.randrange(len(toks) + 1), ["opt", "d." + rng.choice(["a", "b"]), val_for(rng, "int", 0.08)])
    if "r" in root["req"] and rng.random() < 0.7 and not any(t[0] == "opt" and t[1] == "r" for t in toks):
        toks.insert(rng.randrange(len(toks) + 1), ["opt", "r", "5"])
    # a --cfg that gives d leaves a PARTIAL d in the namespace when d had no value before; fields of d given on the
    # command line after it would meet that partial value (not modelled): such tokens are not generated
    seen_cfg_d = False
    kept = []
    for t in toks:
        if seen_cfg_d and t[0] == "opt" and t[1].startswith("d."):
            continue
        if t[0] == "cfg" and any(k == "d" for k, _ in t[1]):
            if seen_cfg_d:
                t = ["cfg", [kv for kv in t[1] if kv[0] != "d"]]
            seen_cfg_d = True
        kept.append(t)
    toks = kept
    if any(t[0] in ("opt", "flag") and t[1].endswith(".help") for t in toks):
        return toks
    if decl["subs"]:
        x = rng.random()
        if x < 0.7 if decl["subreq"] else x < 0.45:
            sn, spd = rng.choice(decl["subs"])
            toks.append(["pos", sn])
            toks += gen_sub_toks(rng, sn, spd, FLAGSETS)
        elif x < 0.8:
            toks.append(["pos", "nope"])
    elif rng.random() < 0.04:
        toks.append(["pos", "fit"])
    return toks


def gen_items(rng, decl, valid_only):
    root = decl["root"]
    items = []
    for nm, k in root["opts"]:
        need = nm in root["req"]
        if rng.random() < (0.85 if need else 0.45) or (need and valid_only):
            items.append([nm, val_for(rng, k, 0.0 if valid_only else 0.1)])
    cls_items = []
    if root["cls"] and rng.random() < 0.45:
        co = rng.choice(root["cls"])
        if valid_only:
            cls_items = [[co[0], rng.choice(["WD", "WO"] if co3(co)[2] == "LBase" else ["SubA", "SubB", "Base"])]]
        else:
            cls_items = gen_cls_items(rng, co, 0.08)
    d_item = None
    if root.get("dc") and rng.random() < 0.45:
        d_item = gen_d_item(rng, 0.0 if valid_only else 0.08)
    if decl["subs"] and (rng.random() < (0.75 if decl["subreq"] else 0.35) or (decl["subreq"] and valid_only)):
        sn, spd = rng.choice(decl["subs"])
        for nm, k in spd["opts"]:
            need = nm in spd["req"]
            if need and (valid_only or rng.random() < 0.8) or (not need and (rng.random() < 0.7 or len(spd["opts"]) == 1)):
                items.append([sn + "." + nm, val_for(rng, k, 0.0 if valid_only else 0.1)])
    if not valid_only:
        if rng.random() < 0.06:
            items.append(["zz", "1"])
        if rng.random() < 0.08:
            items.append(["print_shtab", "bash"])
    rng.shuffle(items)
    if d_item:
        items.insert(rng.randrange(len(items) + 1), d_item)
    if cls_items:   # the class before its parameters, kept together
        at = rng.randrange(len(items) + 1)
        items[at:at] = cls_items
    return items


def gen_env_items(rng, decl):
    root = decl["root"]
    items = []
    for nm, k in root["opts"]:
        if rng.random() < (0.8 if nm in root["req"] else 0.4):
            items.append([nm, val_for(rng, k, 0.1)])
    if rng.random() < 0.1:
        items.append(["zz", "1"])
    if rng.random() < 0.15:
        items.append(["print_shtab", "bash"])
    return items


def gen_op(rng, decls):
    p = 0 if rng.random() < 0.65 else 1
    d = decls[p]
    x = rng.random()
    if x < 0.5:
        return with_call_style(rng, d, {"p": p, "op": "parse_args", "argv": gen_argv(rng, d)})
    if x < 0.6:
        return {"p": p, "op": "parse_object", "items": gen_items(rng, d, False)}
    if x < 0.68:
        return {"p": p, "op": "parse_string", "items": gen_items(rng, d, False)}
    if x < 0.76:
        return {"p": p, "op": "parse_env", "items": gen_env_items(rng, d)}
    if x < 0.81:
        return {"p": p, "op": "get_defaults"}
    if x < 0.9:
        return {"p": p, "op": "dump", "items": gen_items(rng, d, True), "corrupt": rng.random() < 0.2,
                "flags": {"skip_none": rng.random() < 0.5,
                          "skip_default": rng.random() < 0.3 and not d["root"]["cls"] and not d["root"].get("dc"),
                          "skip_validation": rng.random() < 0.3}}
    if x < 0.96:
        return {"p": p, "op": "validate", "items": gen_items(rng, d, True), "corrupt": rng.random() < 0.3}
    return {"p": p, "op": "instantiate", "items": gen_items(rng, d, True)}


def no_defaults_ok(decl):
    """parse_args(defaults=False) is generated for parsers without parse-time links (a link whose source has no value
    fails with "Key ... not found in namespace": nothing to do with histories)"""
    return not decl["root"].get("lk") and not decl["root"].get("links") and not decl["root"].get("nl")


def with_call_style(rng, decl, op):
    """how a parse_args call is made: keywords env= / defaults=, the command line taken from sys.argv, class
    a class help written as two items"""
    argv = op["argv"]
    if rng.random() < 0.22:
        dflt = rng.random() < 0.45 or not no_defaults_ok(decl)
        has_pc = any(t[0] in ("flag", "opt") and t[1] == "print_config" for t in argv)
        if has_pc:
            dflt = True
        op["kw"] = [rng.choice([None, True, False]), dflt]
    if rng.random() < 0.12:
        op["sysargv"] = True
    if rng.random() < 0.35 and any(t[0] == "opt" and t[1].endswith(".help") for t in argv):
        op["sep"] = True
    return op


SCRIPTED = [
    # the defect as reproduced at design time, and its relatives
    [{"p": 0, "op": "parse_args", "argv": [["flag", "print_config"], ["opt", "k", "bad"]]},
     {"p": 0, "op": "parse_args", "argv": []}],
    [{"p": 0, "op": "parse_args", "argv": [["flag", "print_config"], ["flag", "help"]]},
     {"p": 0, "op": "get_defaults"},
     {"p": 0, "op": "parse_object", "items": [["k", "3"]]}],
    [{"p": 0, "op": "parse_args", "argv": [["opt", "print_config", "skip_null"], ["opt", "zz", "1"]]},
     {"p": 1, "op": "parse_args", "argv": [["opt", "k", "2"]]},
     {"p": 0, "op": "parse_env", "items": [["k", "3"]]}],
    [{"p": 0, "op": "parse_args", "argv": [["opt", "k", "2"]]},
     {"p": 0, "op": "parse_env", "items": [["k", "3"], ["print_shtab", "bash"]]}],
]


PLAIN = {"root": {"cfg": True, "opts": [["k", "int"], ["s", "str"]], "req": [], "cls": [], "links": []},
         "subreq": False, "subs": []}
CB = {"root": {"cfg": True, "opts": [["k", "int"], ["s", "str"]], "req": [], "cls": [["cb", True]], "links": []},
      "subreq": False, "subs": []}
MODEL = {"root": {"cfg": True, "opts": [["k", "int"], ["s", "str"]], "req": [], "cls": [["model", False]], "links": []},
         "subreq": False, "subs": []}
DEFSPEC = {"root": {"cfg": True, "opts": [["k", "int"], ["s", "str"]], "req": [],
                    "cls": [["model", False, "Base", "SubA"], ["cb", True]], "links": []}, "subreq": False, "subs": []}
LINKED = {"root": {"cfg": True, "opts": [["k", "int"], ["s", "str"], ["g.a", "int"], ["g.b", "int"]], "req": [],
                   "cls": [["model", False], ["lm", False, "LBase"]], "links": [], "lk": True}, "subreq": False, "subs": []}
DC = {"root": {"cfg": True, "opts": [["k", "int"], ["s", "str"]], "req": [], "cls": [], "links": [], "sig": True, "dc": True},
      "subreq": False, "subs": []}
SIG_MC = {"root": {"cfg": True, "opts": [["k", "int"], ["s", "str"]], "req": [], "cls": [["model", False], ["cb", True]],
                   "links": [], "sig": True, "dc": True}, "subreq": False, "subs": []}
# the refutation witnesses of coq/Properties/C09.v (C09_*_refuted), in FINDING_CLASSES order; the last call is the
# one whose answer depends on the history
WITNESSES = [
    ("print-config-pending", [PLAIN, PLAIN],
     [{"p": 0, "op": "parse_args", "argv": [["flag", "print_config"], ["opt", "k", "bad"]]},
      {"p": 0, "op": "parse_args", "argv": []}]),
    ("lazy-print-shtab-key", [PLAIN, PLAIN],
     [{"p": 0, "op": "parse_args", "argv": [["opt", "k", "2"]]},
      {"p": 0, "op": "parse_object", "items": [["k", "3"], ["print_shtab", "bash"]]}]),
    ("class-help-skip-shared", [CB, MODEL],
     [{"p": 0, "op": "parse_args", "argv": [["opt", "cb.help", "SubA"]]},
      {"p": 1, "op": "parse_args", "argv": [["opt", "model.help", "SubA"]]}]),
    ("dataclass-default-carried", [DC, PLAIN],
     [{"p": 0, "op": "parse_args", "argv": [["opt", "d.a", "3"]]},
      {"p": 0, "op": "parse_args", "argv": [["opt", "d.b", "2"]]}]),
]
_FX = {}


def probe_fixes():
    """Which of the three repairs (fixes/C09-*.patch) the tree under test contains: a repair counts as present exactly
    when its refutation witness no longer reproduces on the implementation.  The answer only selects between the
    pinned and the repaired variant of the model at the three sites (Model.C09ParserState.fixes)."""
    if framework.REPO not in _FX:
        res = run_impl("c09_history.py", {"cases": [{"parsers": d, "ops": o} for _, d, o in WITNESSES]})
        flags = []
        for (key, _, _), h in zip(WITNESSES, res):
            if "crash" in h:
                raise TieBroken("runner crashed on the witness of " + key + ": " + h["crash"][-600:])
            last = h["steps"][-1]
            flags.append(last["out"]["kind"] == last["fresh"]["kind"] and last["out"]["tok"] == last["fresh"]["tok"])
        _FX[framework.REPO] = flags
    return _FX[framework.REPO]


def extra_coverage(tier):
    fx = probe_fixes()
    return {"model_variant": {k: ("repaired" if f else "pinned") for (k, _, _), f in zip(WITNESSES, fx)}}


def scripted_cases():
    plain = PLAIN
    subs = {"root": {"cfg": True, "opts": [["k", "int"], ["s", "str"]], "req": [], "cls": [["model", False]], "links": []},
            "subreq": False,
            "subs": [["fit", {"cfg": True, "opts": [["lr", "int"]], "req": [], "cls": []}],
                     ["test", {"cfg": False, "opts": [["n", "int"]], "req": [], "cls": []}]]}
    cb = {"root": {"cfg": True, "opts": [["k", "int"], ["s", "str"]], "req": [], "cls": [["cb", True]], "links": []},
          "subreq": False, "subs": []}
    hs = [([plain, plain], h) for h in SCRIPTED] + [(d, o) for _, d, o in WITNESSES]
    hs.append(([subs, plain], [
        {"p": 0, "op": "parse_args", "argv": [["pos", "fit"], ["flag", "print_config"], ["opt", "lr", "bad"]]},
        {"p": 0, "op": "parse_args", "argv": [["pos", "test"]]},
        {"p": 0, "op": "parse_args", "argv": [["pos", "fit"]]},
        {"p": 0, "op": "parse_object", "items": [["k", "2"]]}]))
    hs.append(([subs, plain], [
        {"p": 0, "op": "parse_args", "argv": [["pos", "fit"], ["flag", "print_config"], ["opt", "lr", "bad"]]},
        {"p": 0, "op": "parse_args", "argv": [["opt", "k", "2"], ["cfg", [["fit.lr", "7"]]], ["opt", "s", "q"]]}]))
    # parser.args is read by the class help (get_args_after_opt): a stale argv would turn the error into a help page
    hs.append(([subs, cb], [
        {"p": 0, "op": "parse_args", "argv": [["opt", "k", "2"]]},
        {"p": 1, "op": "parse_args", "argv": [["opt", "s", "q"], ["opt", "k", "3"]]},
        {"p": 0, "op": "parse_args", "argv": [["opt", "model.help", "SubA"], ["opt", "model.a", "3"]]},
        {"p": 1, "op": "parse_args", "argv": [["opt", "cb.help", "SubB"], ["opt", "cb.b", "q"]]},
        {"p": 0, "op": "parse_args", "argv": [["opt", "model.help", "SubA"]]}]))
    # a successful --print_config / --help / class help must leave nothing behind either
    hs.append(([subs, plain], [
        {"p": 0, "op": "parse_args", "argv": [["opt", "k", "2"], ["flag", "print_config"]]},
        {"p": 0, "op": "parse_args", "argv": [["opt", "k", "3"]]},
        {"p": 0, "op": "parse_args", "argv": [["pos", "fit"], ["opt", "print_config", "skip_null"]]},
        {"p": 0, "op": "parse_object", "items": [["k", "bad"]]},
        {"p": 0, "op": "parse_args", "argv": [["flag", "help"]]},
        {"p": 0, "op": "parse_string", "items": [["k", "5"], ["fit.lr", "2"]]},
        {"p": 0, "op": "parse_args", "argv": []},
        {"p": 0, "op": "get_defaults"}]))
    # per-action carried state of signature-derived options (action.sub_add_kwargs: default / skip / linked_targets):
    # a Base subclass, then a callable class that is no Base with its first parameter, through every kind of call
    hs.append(([SIG_MC, PLAIN], [
        {"p": 0, "op": "parse_args", "argv": [["opt", "cb", "SubA"], ["opt", "cb.c", "3"]]},
        {"p": 0, "op": "parse_args", "argv": [["opt", "cb", FAC], ["opt", "cb.a", "3"]]},
        {"p": 0, "op": "parse_object", "items": [["cb", "SubB"], ["cb.b", "q"]]},
        {"p": 0, "op": "parse_object", "items": [["cb", FAC], ["cb.a", "2"], ["cb.z", "7"]]},
        {"p": 0, "op": "parse_string", "items": [["model", "SubA"], ["model.a", "2"]]},
        {"p": 0, "op": "parse_args", "argv": [["opt", "model", FAC]]},
        {"p": 0, "op": "parse_args", "argv": [["opt", "cb.help", FAC]]},
        {"p": 0, "op": "parse_string", "items": [["cb", FAC], ["cb.a", "12"]]}]))
    # a value of d given piecewise, through different sources, with failures in between
    hs.append(([SIG_MC, DC], [
        {"p": 0, "op": "parse_args", "argv": [["opt", "d.a", "3"], ["opt", "d.b", "7"], ["opt", "k", "bad"]]},
        {"p": 0, "op": "parse_args", "argv": [["opt", "d.b", "2"]]},
        {"p": 1, "op": "parse_object", "items": [["d", "12,"]]},
        {"p": 1, "op": "parse_string", "items": [["d", ",7"], ["zz", "1"]]},
        {"p": 1, "op": "parse_args", "argv": [["opt", "d.b", "2"], ["flag", "print_config"]]},
        {"p": 0, "op": "validate", "items": [["d", "0,3"]], "corrupt": False},
        {"p": 0, "op": "parse_args", "argv": [["opt", "d.b", "12"], ["cfg", [["d", "2,"]]], ["opt", "k", "bad"]]},
        {"p": 0, "op": "parse_object", "items": [["d", ",-4"]]},
        {"p": 1, "op": "dump", "items": [["d", "7,7"]], "corrupt": False,
         "flags": {"skip_none": False, "skip_default": False, "skip_validation": False}},
        {"p": 1, "op": "parse_args", "argv": [["opt", "d.a", "0"]]}]))
    # a failing --cfg after class options on the same line, then configs that lean on previous values
    # (init_args without class_path) on this and on the other parser
    hs.append(([MODEL, SIG_MC], [
        {"p": 0, "op": "parse_args", "argv": [["opt", "model", "SubB"], ["opt", "model.b", "q"], ["cfg", [["k", "bad"]]]]},
        {"p": 0, "op": "parse_string", "items": [["model.a", "7"]]},
        {"p": 1, "op": "parse_string", "items": [["model.a", "3"]]},
        {"p": 1, "op": "parse_args", "argv": [["opt", "cb", "SubA"], ["opt", "cb.c", "2"], ["cfg", [["model", "Nope"]]]]},
        {"p": 1, "op": "parse_object", "items": [["cb.a", "7"]]},
        {"p": 0, "op": "parse_args", "argv": [["cfg", [["model.a", "2"]]]]},
        {"p": 1, "op": "parse_string", "items": [["d", "3,"]]}]))
    # parse-time link without compute_fn from a group key into the init_args of a class option: the class changes
    # from call to call (o: dict in WD, o: Data in WO), through every kind of source
    hs.append(([LINKED, PLAIN], [
        {"p": 0, "op": "parse_args", "argv": [["opt", "lm", "WO"], ["opt", "g.a", "3"]]},
        {"p": 0, "op": "parse_args", "argv": [["opt", "lm", "WD"], ["opt", "g.a", "3"]]},
        {"p": 0, "op": "parse_object", "items": [["lm", "WO"], ["lm.a", "2"], ["g.b", "7"]]},
        {"p": 0, "op": "parse_string", "items": [["g.a", "2"], ["lm", "WD"]]},
        {"p": 0, "op": "parse_args", "argv": [["cfg", [["lm", "WO"]]], ["opt", "g.b", "12"]]},
        {"p": 0, "op": "parse_env", "items": [["g.a", "7"]]},
        {"p": 0, "op": "dump", "items": [["lm", "WD"], ["g.a", "2"]], "corrupt": False,
         "flags": {"skip_none": False, "skip_default": False, "skip_validation": False}},
        {"p": 0, "op": "instantiate", "items": [["lm", "WO"]]},
        {"p": 0, "op": "parse_args", "argv": [["opt", "lm", "WD"], ["flag", "print_config"]]},
        {"p": 0, "op": "parse_args", "argv": [["opt", "lm", "WO"]]}]))
    # a class option whose default is a class spec WITH init_args: successful calls of every kind select other
    # classes (which do not accept all of those init_args); the calls afterwards must still see the full default
    hs.append(([DEFSPEC, PLAIN], [
        {"p": 0, "op": "get_defaults"},
        {"p": 0, "op": "parse_string", "items": [["model", "SubB"]]},
        {"p": 0, "op": "get_defaults"},
        {"p": 0, "op": "parse_env", "items": [["k", "3"]]},
        {"p": 0, "op": "parse_object", "items": [["model", "Base"]]},
        {"p": 0, "op": "parse_args", "argv": []},
        {"p": 0, "op": "parse_args", "argv": [["opt", "model", "SubB"], ["opt", "model.b", "q"]]},
        {"p": 0, "op": "parse_args", "argv": [["opt", "model.c", "3"]]},
        {"p": 0, "op": "parse_args", "argv": [["flag", "print_config"]]},
        {"p": 0, "op": "parse_string", "items": [["model.c", "2"]]}]))
    # help texts list the known subclasses: a class_path that imports a module makes the list grow in mid-history
    hs.append(([DEFSPEC, MODEL], [
        {"p": 0, "op": "parse_args", "argv": [["flag", "help"]]},
        {"p": 1, "op": "parse_args", "argv": [["flag", "help"]]},
        {"p": 0, "op": "parse_args", "argv": [["opt", "model", EXTRA], ["opt", "model.x", "3"]]},
        {"p": 0, "op": "parse_args", "argv": [["flag", "help"]]},
        {"p": 1, "op": "parse_args", "argv": [["flag", "help"]]},
        {"p": 1, "op": "parse_object", "items": [["model", EXTRA]]},
        {"p": 0, "op": "parse_args", "argv": [["opt", "cb.help", "SubA"]]}]))
    # a request consumed by an EMPTY --cfg inside parse_args dumps nothing (dump_kwargs stays unset)
    hs.append(([plain, subs], [
        {"p": 0, "op": "parse_args", "argv": [["flag", "print_config"], ["opt", "k", "5"], ["cfg", []], ["opt", "k", "bad"]]},
        {"p": 1, "op": "parse_args", "argv": [["opt", "print_config", "skip_null"], ["cfg", [["k", "2"]]]]},
        {"p": 0, "op": "parse_env", "items": []},
        {"p": 0, "op": "parse_args", "argv": [["flag", "print_config"]]}]))
    # the keywords of parse_args (stored in the parse_kwargs context variable, read by the sub-command action), the
    # command line from sys.argv, class helps without a value / as two items / with and without trailing arguments
    hs.append(([subs, cb], [
        {"p": 0, "op": "parse_args", "argv": [["opt", "k", "2"], ["pos", "fit"], ["opt", "lr", "3"]], "kw": [True, False]},
        {"p": 0, "op": "parse_args", "argv": [["pos", "fit"]]},
        {"p": 0, "op": "parse_args", "argv": [["pos", "test"]], "kw": [None, False]},
        {"p": 1, "op": "parse_args", "argv": [["opt", "k", "2"]], "kw": [False, False]},
        {"p": 0, "op": "parse_args", "argv": [["pos", "fit"], ["opt", "lr", "7"]], "sysargv": True},
        {"p": 0, "op": "parse_args", "argv": [["flag", "model.help"]]},
        {"p": 0, "op": "parse_args", "argv": [["opt", "model.help", "SubA"], ["opt", "model.a", "3"]], "sep": True},
        {"p": 0, "op": "parse_args", "argv": [["opt", "model.help", "SubA"]]},
        {"p": 0, "op": "parse_args", "argv": [["flag", "model.help"], ["opt", "k", "2"], ["opt", "model.a", "3"]]},
        {"p": 1, "op": "parse_args", "argv": [["flag", "cb.help"]]},
        {"p": 0, "op": "parse_args", "argv": [["opt", "model", "SubB"], ["opt", "model.b", "q"]], "kw": [None, False]}]))
    hs.append(([cb, subs], [
        {"p": 0, "op": "parse_args", "argv": [["opt", "cb.help", "SubA"]]},
        {"p": 1, "op": "parse_args", "argv": [["opt", "model.help", "SubA"]]},
        {"p": 1, "op": "parse_args", "argv": [["opt", "model.help", "SubA"], ["opt", "model.a", "3"]]}]))
    return hs


def mid_history_import(rng, decls, ops):
    """Every fifth history (where a parser has a Base-typed option) gets: a help-printing call, later a call whose
    class_path imports c09_extra (the set of known subclasses grows in mid-history), later help-printing calls on
    both parsers.  Anything that remembers the subclasses seen by an earlier call shows in the later help texts."""
    cands = [(p, co) for p, d in enumerate(decls) for co in d["root"]["cls"] if co3(co)[2] == "Base"]
    if not cands or rng.random() >= 0.2:
        return ops
    p, co = rng.choice(cands)
    ops = ops[:8]
    imp = rng.choice([{"p": p, "op": "parse_args", "argv": [["opt", co[0], EXTRA]]},
                      {"p": p, "op": "parse_object", "items": [[co[0], EXTRA]]},
                      {"p": p, "op": "parse_string", "items": [[co[0], EXTRA], [co[0] + ".x", "3"]]}])
    helps = [{"p": q, "op": "parse_args", "argv": [["flag", "help"]]} for q in (0, 1)]
    i = rng.randrange(len(ops) + 1)
    j = rng.randrange(i, len(ops) + 1)
    first = [rng.choice(helps)] if rng.random() < 0.7 else []
    last = helps if rng.random() < 0.5 else [rng.choice(helps)]
    return ops[:i] + first + ops[i:j] + [imp] + ops[j:] + last


def generate(rng, tier):
    hists = scripted_cases()
    n = 150 if tier == "quick" else 1600
    for _ in range(n):
        decls = [gen_decl(rng), gen_decl(rng)]
        ln = rng.choice([1, 2, 3, 4, 6, 8, 10, 12, 12])
        hists.append((decls, mid_history_import(rng, decls, [gen_op(rng, decls) for _ in range(ln)])))
    cases = []
    for decls, ops in hists:
        for i in range(len(ops)):
            cases.append({"parsers": decls, "ops": ops, "at": i})
    return cases


def search(rng, tier, broken):
    """Failing-input search when the tie (or a proof) broke although no listed-free failure showed up in the main run:
    ONE fresh quick-sized batch of histories, judged like the main run (bounded: about the cost of a quick run); the
    first case whose real answer differs from the fresh parser's answer and that is not a listed finding is the
    failing input.  A tie broken by unexplained state alone is reported without an input."""
    known = framework.load_known_findings(PROP)
    mod = sys.modules[__name__]
    hists = []
    for _ in range(110):
        decls = [gen_decl(rng), gen_decl(rng)]
        ln = rng.choice([2, 3, 4, 6, 8, 10])
        hists.append((decls, mid_history_import(rng, decls, [gen_op(rng, decls) for _ in range(ln)])))
    cases = [{"parsers": d, "ops": ops, "at": i} for d, ops in hists for i in range(1, len(ops))]
    obs = observe(cases)
    _, bad_in, bad_out = framework.judge_cases(mod, cases, obs, tag="x")
    bad = sorted(set(bad_in) | {i for i, k in bad_out if FINDING_CLASSES.get(k) not in known})
    if bad:
        i = min(bad, key=lambda j: cases[j]["at"])
        return {"case": cases[i], "observed": obs[i], "explain": describe(cases[i], obs[i])}
    return None


# ------------------------------------------------------------------------------------------------
# observation
# ------------------------------------------------------------------------------------------------
def observe(cases):
    keyed = {}
    for c in cases:
        k = json.dumps([c["parsers"], c["ops"]], sort_keys=True)
        keyed.setdefault(k, {"parsers": c["parsers"], "ops": c["ops"]})
    keys = list(keyed)
    nshard = 16 if len(keys) >= 32 else max(1, len(keys))
    chunks = [keys[i::nshard] for i in range(nshard)]
    res = run_impl_parallel("c09_history.py", [{"cases": [keyed[k] for k in ch]} for ch in chunks])
    runs = {}
    for ch, r in zip(chunks, res):
        for k, h in zip(ch, r):
            runs[k] = h
    out = []
    fx = probe_fixes()
    for c in cases:
        h = runs[json.dumps([c["parsers"], c["ops"]], sort_keys=True)]
        if "crash" in h:
            raise TieBroken("runner crashed on a history: " + h["crash"][-600:], witness={"parsers": c["parsers"], "ops": c["ops"]})
        i = c["at"]
        st = h["steps"][i]
        out.append({"pre": h["init"] if i == 0 else h["steps"][i - 1]["state"], "post": st["state"],
                    "out": st["out"], "fresh": st["fresh"], "fx": fx})
    return out


# ------------------------------------------------------------------------------------------------
# Gallina
# ------------------------------------------------------------------------------------------------
def g_kind(k):
    return "KInt" if k == "int" else "KStr"


def g_pdecl(pd):
    return "{| pd_cfg := %s; pd_opts := %s; pd_req := %s; pd_cls := %s; pd_dc := %s |}" % (
        g_bool(pd["cfg"]),
        g_list([g_pair(g_str(n), g_kind(k)) for n, k in pd["opts"]], "(str * kind)"),
        g_list([g_str(r) for r in pd["req"]], "str"),
        g_list(["{| co_name := %s; co_base := %s; co_callable := %s; co_default := %s |}" % (
            g_str(co3(co)[0]), g_str(co3(co)[2]), g_bool(co3(co)[1]), g_opt(None if co_default(co) is None else g_str(co_default(co))))
                for co in pd["cls"]], "copt"),
        g_bool(bool(pd.get("dc"))))


def g_decl(d):
    return "{| d_root := %s; d_subreq := %s; d_subs := %s |}" % (
        g_pdecl(d["root"]), g_bool(d["subreq"]),
        g_list([g_pair(g_str(n), g_pdecl(pd)) for n, pd in d["subs"]], "(str * pdecl)"))


def g_items(items):
    return g_list([g_pair(g_str(k), g_str(v)) for k, v in items], "(str * str)")


def g_tok(t):
    if t[0] == "opt":
        return "(TOpt %s %s)" % (g_str(t[1]), g_str(t[2]))
    if t[0] == "flag":
        return "(TFlag %s)" % g_str(t[1])
    if t[0] == "cfg":
        return "(TCfg %s)" % g_items(t[1])
    return "(TPos %s)" % g_str(t[1])


def g_toks(ts):
    return g_list([g_tok(t) for t in ts], "tok")


def g_dv(d):
    return "None" if d is None else "(Some (%s, %s))" % (g_str(d[0]), g_str(d[1]))


def cfg_d(items):
    """the value of d in the cfg that make_cfg (runner) builds from valid items: dataclass defaults + given fields"""
    for k, v in items:
        if k == "d":
            a, b = v.split(",")
            return [a or "0", b or "0"]
    return None


def g_op(o):
    k = o["op"]
    if k == "parse_args" and o.get("kw"):
        body = "(PArgsKw %s %s %s)" % (g_opt(None if o["kw"][0] is None else g_bool(o["kw"][0])), g_bool(o["kw"][1]),
                                       g_toks(o["argv"]))
    elif k == "parse_args":
        body = "(PArgs %s)" % g_toks(o["argv"])
    elif k == "parse_object":
        body = "(PObject %s)" % g_items(o["items"])
    elif k == "parse_string":
        body = "(PString %s)" % g_items(o["items"])
    elif k == "parse_env":
        body = "(PEnv %s)" % g_items(o["items"])
    elif k == "get_defaults":
        body = "GetDefaults"
    elif k == "dump":
        f = o["flags"]
        body = "(Dump %s %s %s %s %s)" % (g_dv(cfg_d(o["items"])), g_bool(o.get("corrupt", False)), g_bool(f["skip_none"]),
                                        g_bool(f["skip_default"]), g_bool(f["skip_validation"]))
    elif k == "validate":
        body = "(Validate %s %s)" % (g_dv(cfg_d(o["items"])), g_bool(o.get("corrupt", False)))
    else:
        body = "Instantiate"
    return "{| op_p := %s; op_k := %s |}" % (g_nat(o["p"]), body)


def g_flags(f):
    return "{| f_sn := %s; f_sd := %s; f_yc := %s |}" % tuple(g_bool(x) for x in f)


def g_label(l):
    if l is None:
        return "None"
    if l == "inner":
        return "(Some LInner)"
    if l.startswith("P") and l[1:].split("/")[0].isdigit():
        idx, _, sub = l[1:].partition("/")
        return "(Some (LP %s %s))" % (g_nat(int(idx)), g_str(sub))
    return None


def g_state(st):
    unexplained = bool(st["unexplained"])
    pend = []
    for i, p in enumerate(st["pending"]):
        if p is None:
            pend.append("PNone")
        elif p["form"] == "full":
            want = "P%d" % i if p["key"] is None else "P%d/%s" % (i, p["key"])
            if p["sub"] != want:
                unexplained = True
            pend.append("(PFull %s %s)" % (g_opt(None if p["key"] is None else g_str(p["key"])), g_flags(p["flags"])))
        else:
            pend.append("(PBroken %s)" % g_flags(p["flags"]))
    ctx = st["ctx"]
    sap = g_label(ctx["subclass_arg_parser"])
    if sap is None:
        unexplained, sap = True, "None"
    pk = "None" if ctx["parse_kwargs"] is None else "(Some (%s, %s))" % (
        g_opt(None if ctx["parse_kwargs"][0] is None else g_bool(ctx["parse_kwargs"][0])), g_bool(ctx["parse_kwargs"][1]))
    dk = "None" if ctx["dump_kwargs"] is None else "(Some (%s, %s))" % (g_bool(ctx["dump_kwargs"][0]), g_bool(ctx["dump_kwargs"][1]))
    args = g_list([g_list([g_pair(g_str(n), g_toks(ts)) for n, ts in pa], "(str * list tok)") for pa in st["args"]],
                  "(list (str * list tok))")
    return ("{| os_pending := %s; os_args := %s; os_shtab := %s; os_ddef := %s; os_pk := %s; os_sap := %s; os_dk := %s; "
            "os_help_skip := %s; os_unexplained := %s |}") % (
        g_list(pend, "pending"), args, g_list([g_bool(b) for b in st["shtab"]], "bool"),
        g_list([g_dv(x) for x in st["ddef"]], "(option dv)"), pk, sap, dk,
        g_bool(st["help_skip"]), g_bool(unexplained))


KINDS = {"ok": 0, "err": 1, "exc": 2, "exit0": 3, "exit2": 4}


def g_answer(a):
    return "(%s, %s)" % (g_N(KINDS.get(a["kind"], 9)), g_str(a["tok"]))


def term(case, obs):
    i = case["at"]
    return ("{| c_fx := {| fx_pc := %s; fx_sh := %s; fx_hs := %s; fx_dd := %s |}; c_decls := %s; c_prefix := %s; c_op := %s; c_pre := %s; c_post := %s; c_reused := %s; c_fresh := %s |}") % (
        g_bool(obs["fx"][0]), g_bool(obs["fx"][1]), g_bool(obs["fx"][2]), g_bool(obs["fx"][3]),
        g_list([g_decl(d) for d in case["parsers"]], "decl"),
        g_list([g_op(o) for o in case["ops"][:i]], "op"),
        g_op(case["ops"][i]), g_state(obs["pre"]), g_state(obs["post"]), g_answer(obs["out"]), g_answer(obs["fresh"]))


# ------------------------------------------------------------------------------------------------
# evidence helpers
# ------------------------------------------------------------------------------------------------
def nontrivial_key(case, obs):
    if case["at"] == 0:
        return None
    return json.dumps([case["parsers"], case["ops"][: case["at"] + 1]], sort_keys=True)


def category(case, obs):
    op = case["ops"][case["at"]]
    return "%s/%s/prefix%s" % (op["op"], obs["out"]["kind"], "0" if case["at"] == 0 else "1-3" if case["at"] < 4 else "4-11")


def show_op(o):
    if o["op"] == "parse_args":
        style = {k: o[k] for k in ("kw", "sysargv", "sep") if o.get(k)}
        return "P%d.parse_args(%s%s)" % (o["p"], json.dumps(o["argv"]), (" " + json.dumps(style)) if style else "")
    rest = {k: v for k, v in o.items() if k not in ("p", "op")}
    return "P%d.%s(%s)" % (o["p"], o["op"], json.dumps(rest) if rest else "")


def describe(case, obs):
    i = case["at"]
    return {"parsers": case["parsers"], "history_before": [show_op(o) for o in case["ops"][:i]],
            "call": show_op(case["ops"][i]),
            "answer_on_reused_parser": [obs["out"]["kind"], obs["out"]["text"]],
            "answer_on_fresh_parser": [obs["fresh"]["kind"], obs["fresh"]["text"]],
            "same_answer": obs["out"]["kind"] == obs["fresh"]["kind"] and obs["out"]["tok"] == obs["fresh"]["tok"],
            "carried_state_after": obs["post"]}


def shrink(case):
    i = case["at"]
    ops = case["ops"][: i + 1]
    for j in range(i):
        yield {"parsers": case["parsers"], "ops": ops[:j] + ops[j + 1:], "at": i - 1}
    last = ops[-1]
    if last["op"] == "parse_args":
        for j in range(len(last["argv"])):
            yield {"parsers": case["parsers"], "ops": ops[:-1] + [dict(last, argv=last["argv"][:j] + last["argv"][j + 1:])], "at": i}
    for j in range(i):
        o = ops[j]
        if o["op"] == "parse_args" and len(o["argv"]) > 1:
            for k in range(len(o["argv"])):
                yield {"parsers": case["parsers"],
                       "ops": ops[:j] + [dict(o, argv=o["argv"][:k] + o["argv"][k + 1:])] + ops[j + 1:], "at": i}


META = {
    "level_text": (
        "Proof about a state-machine model of the state jsonargparse parsers carry between calls (pending --print_config "
        "request, stored argv, lazily added --print_shtab action and the sub_add_kwargs['default'] of a dataclass-typed "
        "option per root parser; parse_kwargs / subclass_arg_parser / dump_kwargs context variables and the class-level "
        "dict of the class-help action per process), coq/Properties/C09.v: C09_guarded_answer_is_fresh_answer / "
        "C09_history_independent_guarded — for every variant of the model, ANY carried state (hence every history of any "
        "length over any number of parsers, failing, help-printing and config-printing calls included) and every call "
        "inside the guard, the answer is the answer of the same call on fresh parsers in a fresh process; the guard "
        "excludes exactly four reads of carried state. Each of the four is a defect of the tree as given, proved by witness "
        "(C09_print_config_pending_refuted, C09_print_config_broken_refuted, C09_lazy_print_shtab_key_refuted, "
        "C09_class_help_skip_shared_refuted, C09_dataclass_default_carried_refuted, "
        "C09_dataclass_default_after_failure_refuted, C09_full_statement_refuted_on_pinned_tree) and reproduced on the "
        "implementation; three have been fixed in /repo (fix: commits c0605da, dab4460, 449b519), the fourth "
        "(dataclass-default-carried) is listed open in known_findings/C09.txt with fixes/C09-dataclass-default-carried.patch. "
        "C09_class_needs_missing_repair: after any history a finding class can only be met when the corresponding repair is "
        "absent (invariants: with the print_config repair no request is pending after any call, with the dataclass repair "
        "nothing is ever stored); C09_repaired_history_independent: the model of the tree with the four repairs satisfies "
        "the full statement with no guard. C09_other_parser_untouched: a call never changes what another parser carries "
        "itself. C09_subcommand_keywords_are_this_calls / C09_subcommand_keywords_default (round 6): the keywords env= / "
        "defaults= of parse_args are part of the calls (PArgsKw), the answer of the model carries the keywords the "
        "sub-command action READS from the never-reset parse_kwargs context variable, and for ANY carried state these are "
        "the keywords of the call itself (or the constant (None, True) a throw-away class parser of the same command line "
        "stored) — never an earlier call's; the guarded and the repaired theorems compare answers including them. The "
        "class help without a value (--<cls>.help, also followed by further items) is inside the grammar of the induction. "
        "Only exercised by the correspondence run (not proved about the code): that the model is the code. The run executes "
        "seeded histories of 1-12 calls over two real parsers (config argument, int/str/required options, class-typed, "
        "Callable-typed and dataclass-typed options added by add_argument or from a signature, parse-time links into "
        "class init_args (from a scalar option and, without compute_fn, from a dataclass group into an init_arg whose "
        "annotation differs between the subclasses), optional/required sub-commands) and compares, per step and inside Coq, (a) the abstraction of the REAL carried "
        "state before and after the step (deep snapshot of every parser's and action's __dict__ including each action's "
        "sub_add_kwargs, all jsonargparse ContextVars, mutable module globals and class attributes; anything the model does "
        "not explain is a disagreement) with the model state, (b) the kind of answer on the re-used parser and on a fresh "
        "parser built in a pristine forked process with the model's answers, and (c) equality of the two real answers "
        "(result / ArgumentError text / exit status, stdout, stderr) with equality of the model's answers. Of the values "
        "inside an answer only the dataclass value d is modelled; the history independence of all other values is checked "
        "only by the fresh-vs-reused comparison of the real answers on the generated histories."),
    "level_note": (
        "Partial: the theorems are about the modelled state components and the modelled parser shapes; the per-step state "
        "correspondence (unexplained differences of the deep snapshot count as disagreement) is what argues that nothing "
        "else is carried, on the generated histories only. Not modelled: values/messages inside answers other than d, "
        "dataclasses with required fields, partial d values left by a --cfg (generator avoids them), nested class-typed "
        "parameters (linked_targets propagation into nested class parsers), links with compute_fn or applied on "
        "instantiate, parse_args(env=True) with matching environment variables, parse_args(defaults=False) on parsers with "
        "links or together with --print_config, class parameters written --<cls>.init_args.<p> (they go through a "
        "throw-away parser's parse_args), default_config_files (incl. the default swap of the help formatter), "
        "ActionParser, Union[class, Callable] options with a user-given skip set (unlisted defect "
        "class-parser-skip-set-shared, fixes/C09-class-parser-skip-set-shared.patch), "
        "nested sub-commands, threads / several contextvars.Context. The model variant (pinned or repaired at each of the "
        "four sites) is selected per run by replaying the four refutation witnesses on the implementation and is recorded in "
        "the evidence (coverage.model_variant). Trusted: Coq kernel/VM, tie/impl/c09_history.py (builder, abstraction, "
        "forked fresh references), the Gallina printer in tie/props/c09.py, sha256 digests for answer equality, presence "
        "of the shtab package. No axioms (Print Assumptions: closed under the global context)."),
    "technique": ("Rocq proof: frame (read-set) lemma for the step function of a parser state machine by induction on argv "
                  "and item lists, invariants over histories for the repaired variants, vm_compute witnesses for the four "
                  "defects; per-step state-and-answer correspondence against the real objects judged inside Coq"),
}

"""C13 — parameters resolved through **kwargs are exactly those the code accepts.

Each case is a program of the DSL of coq/Model/Kwargs.v, emitted twice: as a Gallina term and as real Python
source (written to a file in a scratch directory by tie/impl/c13_kwargs.py). The real resolver's answer is compared
with Model.resolve, the real interpreter's answers with Spec.call, and the property is decided inside Coq."""
import itertools
import os

from tie.framework import g_N, g_Z, g_bool, g_list, g_nat, g_opt, g_pair, g_str, run_impl_parallel

PROP = "C13"
IMPORTS = "From JV Require Import Lib.Base Model.Kwargs Model.KwargsGuard Model.C13KwargsFx Spec.KwargsSpec Corr.C13Judge."
RULE = ("seeded random programs: 1-6 classes in hierarchies of depth 1-5 (single and multiple inheritance, C3-consistent, "
        "own or inherited __init__, overridable methods), 0-3 functions; bodies of kwargs.pop/get and at most one forwarding "
        "call (super().__init__, the two-argument super(C, self).__init__ incl. non-immediate C, function, class, self.method; "
        "for some __init__ bodies written in the attribute form self._kw = kwargs + a consuming method in the class or an "
        "ancestor) with positional and hard-coded keyword arguments, some of them written after the ** unpacking "
        "(f(a=0, **kwargs, b=0)); a suffix of the parameters of some callables is keyword-only (def f(a, *, b=1, **kwargs)); "
        "statements of some bodies stand under a conditional on a module-level constant (if T: / if not F: / else-branches, six "
        "forms; the dead branch reads another key; truthy/falsy non-bool constants; each module has its own constants and the second "
        "module of a two-file program carries decoys of the library's constants with the opposite truth value); some signatures declare "
        "*args where the bare * would stand and forward it (only in programs whose calls pass no positional argument); "
        "kwargs.pop/get defaults may be [] / {} / a non-literal expression; names from "
        "small pools so that collisions happen; programs that cannot be called successfully at all are discarded. Each "
        "program is written to real source files (four in ten split over two modules: a library with the first top-level items "
        "and a module with the rest that imports only the names its own text uses), resolved with get_signature_parameters and add_class_arguments, and "
        "instantiated with up to 40 keyword sets; in half of the cases one to three other callables of the same program are resolved "
        "first in the same process, for targets with subclasses in half of the cases a subclass last (history: the answer must be the stand-alone one). Non-trivial: the resolved class forwards **kwargs at least once; "
        "distinct = distinct (program text, target, history)")
TRUSTED = [
    "Coq 8.16.1 kernel + vm_compute",
    "tie/impl/c13_kwargs.py (observation of the real resolver / parser / interpreter), the DSL-to-Python renderer and the "
    "DSL-to-Gallina printer in tie/props/c13.py (one JSON program rendered twice)",
    "hand-written model coq/Model/Kwargs.v (resolver; coq/Model/C13KwargsFx.v once repairs are applied) and reference "
    "semantics coq/Spec/KwargsSpec.v (CPython keyword binding), each tied by per-case agreement evaluated inside Coq",
]
ASSUMPTIONS = [
    "keyword-only parameters come after the positional-or-keyword ones (as Python requires); no positional-only parameters",
    "history: only resolutions of other callables of the SAME program earlier in the same process (get_signature_parameters "
    "on up to four of them, any order) are exercised; state carried over from other programs, threads, or parser objects is not",
    "programs live in one or two modules; the second imports from the first only the names its own text uses; programs with "
    "the two-argument super are written to one module only",
    "attribute form (self._kw = kwargs, callee(**self._kw) in a method): judged as the forwarding call it stands for -- only where "
    "both mean the same (store is the last statement of __init__, callee is a function/class/self.method, hard-coded names "
    "are no pop/get keys, the class is not instantiated inside another __init__, the consuming method is not overridden); the "
    "runner calls the consuming method right after construction. This equivalence is part of the trusted rendering",
    "only programs of the DSL: int/float/str annotations, literal defaults, **kwargs last, no decorators, "
    "at most one forwarding use of **kwargs per body",
    "constant conditionals (if GLOBAL: / if not GLOBAL:) are part of the rendering: the DSL term is the live program, the dead "
    "branch is text only; conditionals on non-constants (both branches followed, conditional parameters) are not modelled",
    "*args is declared / forwarded only in programs whose calls pass no positional argument, so that it is always empty under "
    "keyword-only instantiation and the program means the same without it; positional overflow into *args is not modelled",
    "CPython 3.12 keyword binding as modelled by Spec.call (validated per case against the interpreter)",
    "stubs resolver, pydantic/attrs, class-instance defaults and source-unavailable fallbacks are not modelled",
]
EXHAUSTIVE = {"quick": False, "thorough": False}
_ALL_CLASSES = {1: "get-then-forward", 2: "inherited-init-positional", 3: "pop-hardcoded", 4: "method-override",
                5: "cond-origin-crash"}
# Which of fixes/C13-<key>.patch have been applied to the implementation. THE LEAD FLIPS THESE when a "fix:" commit
# lands in /repo (and turns the matching `open:` line of known_findings/C13.txt into `fixed:`). With a flag set the
# correspondence is judged against the repaired model (coq/Model/C13KwargsFx.v, judge_fx), the class is no longer a
# listed finding and any recurrence is a VIOLATION. VERIF_C13_FIXED=key,key is a development aid to try a patched
# scratch worktree (VERIF_REPO) without editing this table.
FIXES_APPLIED = {"inherited-init-positional": True, "pop-hardcoded": True, "method-override": True,
                 "cond-origin-crash": True}  # /repo commits 0af5536, cf9a529, e1fd476, f42af31
for _k in os.environ.get("VERIF_C13_FIXED", "").split(","):
    if _k.strip() in FIXES_APPLIED:
        FIXES_APPLIED[_k.strip()] = True
FINDING_CLASSES = {n: k for n, k in _ALL_CLASSES.items() if not FIXES_APPLIED.get(k, False)}
if any(FIXES_APPLIED.values()):
    JUDGE = "(judge_fx {| fx_mro := %s; fx_pop := %s; fx_meth := %s; fx_crash := %s |})" % tuple(
        "true" if FIXES_APPLIED[k] else "false"
        for k in ("inherited-init-positional", "pop-hardcoded", "method-override", "cond-origin-crash"))

OPT = list("abcdefgh")
REQ = ["r0", "r1", "r2"]
TY = ["int", "float", "str"]


# ------------------------------------------------------------------------------------------------
# rendering: DSL -> Python source, DSL -> Gallina
# ------------------------------------------------------------------------------------------------
def lit(k, z):
    # 3, 4: the two non-constant literals the resolver evaluates ([] and {}); 5: any other expression (UnknownDefault)
    return {0: "%d" % z, 1: "%d.5" % z, 2: "'v%d'" % z, 3: "[]", 4: "{}", 5: "dict()"}[k]


def extras(s):
    """rendering options of a statement (do not change the DSL term): pg -> s[5], call -> s[4]"""
    i = 5 if s[0] == "pg" else 4
    return (s[i] or {}) if len(s) > i else {}


def set_extra(s, key, val):
    i = 5 if s[0] == "pg" else 4
    if len(s) > i:
        s[i] = dict(s[i] or {}, **{key: val})
    else:
        s.append({key: val})


# module-level constants for `if <global>:` (ParametersVisitor.visit_If takes the live branch only); per module tag
CONSTS = {0: ("T0 = True", "F0 = 0"), 1: ("T1 = 'on'", "F1 = None")}
DECOYS = ("T0 = ''", "F0 = 1")   # in the second module: the library's names with the opposite truth value


def wrap_cond(ind, text, cond, tag):
    """`text` is the live statement; the dead one reads a key with kwargs.pop/get (it would be offered if the resolver
    looked at the dead branch). form: 0 if T: live else: dead | 1 if not F: live else: dead | 2 if F: dead else: live |
    3 if not T: dead else: live | 4 if T: live | 5 if F: dead  (then the live statement unconditionally)."""
    form, pop, name = cond
    dead = 'v_%s = kwargs.%s("%s", 7)' % (name, "pop" if pop else "get", name)
    T, F = "T%d" % tag, "F%d" % tag
    i2 = ind + "    "
    if form == 4:
        return [ind + "if %s:" % T, i2 + text]
    if form == 5:
        return [ind + "if %s:" % F, i2 + dead, ind + text]
    test = {0: T, 1: "not " + F, 2: F, 3: "not " + T}[form]
    a, b = (text, dead) if form in (0, 1) else (dead, text)
    return [ind + "if %s:" % test, i2 + a, ind + "else:", i2 + b]


def call_text(s, kwname):
    _, callee, npos, given = s[:4]
    target = {"super": "super().__init__", "superof": "super(C%s, self).__init__", "func": "f%s", "class": "C%s",
              "meth": "self.m%s"}[callee[0]]
    if callee[0] != "super":
        target = target % callee[1]
    # legal Python: keywords may also be written AFTER the ** unpacking, f(0, a=0, **kwargs, b=0); same meaning
    after = s[4].get("after", 0) if len(s) > 4 and s[4] else 0
    before = given[:len(given) - after] if after else given
    star = ["*args"] if extras(s).get("star") and kwname == "kwargs" else []
    return "%s(%s)" % (target, ", ".join(["0"] * npos + star + ["%s=0" % g for g in before] + ["**" + kwname]
                                         + ["%s=0" % g for g in given[len(before):]]))


def attr_host(s, cls_idx):
    """A forwarding call of an __init__ written in the documented attribute form: `self._kw<i> = kwargs` in the __init__
    and `def a<i>(self): callee(.., **self._kw<i>)` in class s[4]["attr"] (the class itself or one of its ancestors)."""
    return s[4]["attr"] if len(s) > 4 and s[4] and "attr" in s[4] else None


def consumers(prog):
    """host class -> [(storing class, call statement)]"""
    res = {}
    for i, c in enumerate(prog["classes"]):
        if c["init"] is not None:
            for s in c["init"]["body"]:
                if s[0] == "call" and attr_host(s, i) is not None:
                    res.setdefault(attr_host(s, i), []).append((i, s))
    return res


def kwo(p):
    """parameter declared keyword-only (after a bare `*`); keyword-only parameters come last"""
    return len(p) > 3 and bool(p[3])


def render_fn(name, fn, method, cls_idx=None, tag=0):
    ps = ["self"] if method else []
    star = "*args" if fn.get("va") else "*"   # *args stands where the bare * would (what follows is keyword-only)
    for p in fn["params"]:
        if kwo(p) and star not in ps:
            ps.append(star)
        ps.append("%s: %s" % (p[0], TY[p[1]]) + ("" if p[2] is None else " = " + lit(*p[2])))
    if fn.get("va") and star not in ps:
        ps.append(star)
    if fn["kw"]:
        ps.append("**kwargs")
    ind = "        " if method else "    "
    lines = ["%sdef %s(%s):" % (ind[4:], name, ", ".join(ps))]
    for s in fn["body"]:
        cond = extras(s).get("cond")
        if s[0] == "pg":
            pop, n, k, z = s[1:5]
            text = 'v_%s = kwargs.%s("%s", %s)' % (n, "pop" if pop else "get", n, lit(k, z))
        elif name == "__init__" and attr_host(s, cls_idx) is not None:
            text, cond = "self._kw%d = kwargs" % cls_idx, None
        else:
            text = call_text(s, "kwargs")
        lines += wrap_cond(ind, text, cond, tag) if cond else [ind + text]
    if not fn["body"]:
        lines.append(ind + "pass")
    return "\n".join(lines)


def render(prog, tag=0, decoys=False):
    out = []
    for kind, i in prog["order"]:
        if kind == "f":
            out.append(render_fn("f%d" % i, prog["funcs"][i], False, tag=tag))
        else:
            c = prog["classes"][i]
            head = "class C%d%s:" % (i, "(%s)" % ", ".join("C%d" % b for b in c["bases"]) if c["bases"] else "")
            body = []
            if c["init"] is not None:
                body.append(render_fn("__init__", c["init"], True, i, tag=tag))
            for m, fn in c["meths"]:
                body.append(render_fn("m%d" % m, fn, True, tag=tag))
            for j, st in consumers(prog).get(i, []):
                body.append("    def a%d(self):\n        %s" % (j, call_text(st, "self._kw%d" % j)))
            if not body:
                body.append("    pass")
            out.append(head + "\n" + "\n\n".join(body))
    head = ""
    if prog.get("cond"):
        head = "\n".join((DECOYS if decoys else ()) + CONSTS[tag]) + "\n\n\n"
    return head + "\n\n\n".join(out) + "\n"


LIB = "{LIB}"  # placeholder for the name of the first module; the runner substitutes the real module name


def _refs(prog, items):
    """Top-level names (C<i>, f<i>) that the source text of these items refers to."""
    names = []
    fns = []
    for kind, i in items:
        if kind == "f":
            fns.append(prog["funcs"][i])
        else:
            c = prog["classes"][i]
            names += ["C%d" % b for b in c["bases"]]
            fns += ([c["init"]] if c["init"] is not None else []) + [f for _, f in c["meths"]]
            for _, st in consumers(prog).get(i, []):
                fns.append({"body": [st[:4]]})
    for fn in fns:
        for s in fn["body"]:
            if s[0] == "call" and attr_host(s, None) is not None:
                continue  # written in the hosting class
            if s[0] == "call" and s[1][0] in ("func", "class", "superof"):
                names.append(("f%d" if s[1][0] == "func" else "C%d") % s[1][1])
    return list(dict.fromkeys(names))


def render_split(prog, split):
    """The same program as two source files: the first `split` top-level items (base classes, helper functions) in a
    library module, the rest in a second module that imports from the library exactly the names its own text refers to
    (bases, callables it calls itself) and nothing else -- in particular not the helpers that inherited code calls.
    Python's semantics do not depend on the split; a resolver that looks names up in the wrong module's globals does."""
    a, b = prog["order"][:split], prog["order"][split:]
    defined_a = {("f%d" if k == "f" else "C%d") % i for k, i in a}
    imports = [n for n in _refs(prog, b) if n in defined_a]
    src_a = render(dict(prog, order=a), tag=0)
    src_b = (("from %s import %s\n\n\n" % (LIB, ", ".join(imports)) if imports else "")
             + render(dict(prog, order=b), tag=1, decoys=True))
    return src_a, src_b


def sources(case):
    split = case.get("split") or 0
    if 0 < split < len(case["prog"]["order"]):
        return list(render_split(case["prog"], split))
    return [render(case["prog"])]


def g_fn(fn):
    ps = g_list(["{| sp_name := %s; sp_ty := %s; sp_def := %s; sp_kwonly := %s |}" % (
        g_str(p[0]), g_N(p[1]), "DReq" if p[2] is None else "DVal %s %s" % (g_N(p[2][0]), g_Z(p[2][1])), g_bool(kwo(p)))
                 for p in fn["params"]], "sparam")
    body = []
    for s in fn["body"]:
        if s[0] == "pg":
            body.append("SPG %s %s %s %s" % (g_bool(s[1]), g_str(s[2]), g_N(s[3]), g_Z(s[4])))
        else:
            c = s[1]
            k = {"super": "KSuper", "superof": "(KSuperOf %s)", "func": "(KFunc %s)", "class": "(KClass %s)",
                 "meth": "(KMeth %s)"}[c[0]]
            if c[0] != "super":
                k = k % g_nat(c[1])
            body.append("SCall %s %s %s" % (k, g_nat(s[2]), g_list([g_str(x) for x in s[3]], "str")))
    return "{| f_params := %s; f_kw := %s; f_body := %s |}" % (ps, g_bool(fn["kw"]), g_list(body, "stmt"))


def g_prog(prog):
    fs = g_list([g_fn(f) for f in prog["funcs"]], "fn")
    cs = g_list(["{| c_bases := %s; c_init := %s; c_meths := %s |}" % (
        g_list([g_nat(b) for b in c["bases"]], "nat"), g_opt(None if c["init"] is None else g_fn(c["init"])),
        g_list([g_pair(g_nat(m), g_fn(f)) for m, f in c["meths"]], "(nat * fn)")) for c in prog["classes"]], "cls")
    return "{| p_funcs := %s; p_classes := %s |}" % (fs, cs)


OUT = {"ok": "COk", "unexpected": "CUnexpected", "objinit": "CObjInit", "multiple": "CMultiple", "missing": "CMissing",
       "toomany": "CTooMany", "other": "COther"}


def g_rparam(p):
    d = p["default"]
    if d == "req":
        gd = "RReq"
    elif d == "cond":
        gd = "RCond"
    elif isinstance(d, list):
        gd = "RVal %s %s" % (g_N(d[0]), g_Z(d[1]))
    else:
        gd = "RVal 99%N 0%Z"  # unrecognised default: can never agree with the model
    ann = [a if isinstance(a, int) else 99 for a in p["ann"]]
    return "{| r_name := %s; r_ann := %s; r_def := %s; r_kwonly := %s; r_otup := %s |}" % (
        g_str(p["name"]), g_list([g_N(a) for a in ann], "N"), gd, g_bool(p["kwonly"]), g_bool(p["otup"]))


def term(case, obs):
    trials = g_list([g_pair(g_list([g_str(x) for x in s], "str"), OUT[o]) for s, o in obs["trials"]], "(list str * outcome)")
    return "{| c_prog := %s; c_cls := %s; c_mro := %s; c_offered := %s; c_alone := %s; c_parser := %s; c_trials := %s |}" % (
        g_prog(case["prog"]), g_nat(case["target"]), g_list([g_nat(x) for x in obs["mro"]], "nat"),
        g_list([g_rparam(p) for p in obs["offered"]], "rparam"),
        g_list([g_rparam(p) for p in obs.get("alone", obs["offered"])], "rparam"),
        g_list([g_str(x) for x in obs["parser"]], "str"), trials)


# ------------------------------------------------------------------------------------------------
# generation
# ------------------------------------------------------------------------------------------------
def fn_names(fn):
    res = [p[0] for p in fn["params"]]
    for s in fn["body"]:
        res += [s[2]] if s[0] == "pg" else list(s[3])
    return res


def universe(prog):
    res = []
    for f in prog["funcs"]:
        res += fn_names(f)
    for c in prog["classes"]:
        if c["init"] is not None:
            res += fn_names(c["init"])
        for _, f in c["meths"]:
            res += fn_names(f)
    seen, out = set(), []
    for n in res:
        if n not in seen:
            seen.add(n)
            out.append(n)
    return out


def py_mro(prog, i, cache):
    """MRO by really creating the classes (None if C3 fails)."""
    if "types" not in cache:
        cache["types"] = {}
    ts = cache["types"]
    for j in range(i + 1):
        if j not in ts:
            try:
                ts[j] = type("C%d" % j, tuple(ts[b] for b in prog["classes"][j]["bases"]), {})
            except (TypeError, KeyError):
                return None
    return [int(c.__name__[1:]) for c in ts[i].__mro__ if c is not object]


def visible_params(prog, callee, cls_idx, cache):
    """Names the generator believes the callee accepts directly (to choose hard-coded arguments sensibly)."""
    def deep(fn, depth, ctx):
        names = [p[0] for p in fn["params"]]
        if fn["kw"] and depth < 4:
            for s in fn["body"]:
                if s[0] == "pg":
                    names.append(s[2])
                else:
                    tgt = target_fn(s[1], ctx)
                    if tgt:
                        names += [n for n in deep(tgt[0], depth + 1, tgt[1])[s[2]:] if n not in s[3]]
        return names

    def target_fn(c, ctx):
        if c[0] == "func":
            return prog["funcs"][c[1]], None
        if c[0] == "class":
            mro = py_mro(prog, c[1], cache)
            for k, ci in enumerate(mro or []):
                if prog["classes"][ci]["init"] is not None:
                    return prog["classes"][ci]["init"], (mro, k)
            return None
        if c[0] == "super" and ctx:
            mro, idx = ctx
            for k in range(idx + 1, len(mro)):
                if prog["classes"][mro[k]]["init"] is not None:
                    return prog["classes"][mro[k]]["init"], (mro, k)
            return None
        if c[0] == "superof" and ctx:
            mro, idx = ctx
            if c[1] in mro:
                for k in range(mro.index(c[1]) + 1, len(mro)):
                    if prog["classes"][mro[k]]["init"] is not None:
                        return prog["classes"][mro[k]]["init"], (mro, k)
            return None
        if c[0] == "meth" and ctx:
            mro, idx = ctx
            for k, ci in enumerate(mro):
                for m, f in prog["classes"][ci]["meths"]:
                    if m == c[1]:
                        return f, (mro, k)
        return None

    ctx = None
    if cls_idx is not None:
        mro = py_mro(prog, cls_idx, cache)
        ctx = (mro, 0) if mro else None
    tgt = target_fn(callee, ctx)
    return (deep(tgt[0], 0, tgt[1]), len([p for p in tgt[0]["params"] if not kwo(p)])) if tgt else ([], 0)


def gen_params(rng, nmax):
    n = rng.choice([0, 1, 1, 2, 2, 3][: nmax + 3])
    names = []
    params = []
    for _ in range(n):
        if rng.random() < 0.25:
            nm = rng.choice(REQ)
            d = None
        else:
            nm = rng.choice(OPT)
            t = None
            d = "opt"
        if nm in names:
            continue
        names.append(nm)
        t = rng.randrange(3)
        if d == "opt":
            d = [t if rng.random() < 0.9 else rng.randrange(3), rng.randrange(4)]
        params.append([nm, t, d])
    # Python: parameters without default may not follow parameters with default
    params.sort(key=lambda p: p[2] is not None)
    return params


def gen_fn(rng, prog, cls_idx, is_init, cache, kw_prob=0.8):
    fn = {"params": gen_params(rng, 3), "kw": rng.random() < kw_prob, "body": []}
    if not fn["kw"]:
        return fn
    own = [p[0] for p in fn["params"]]
    callees = []
    if cls_idx is not None and is_init:
        callees += [["super"]] * 6
        mro = py_mro(prog, cls_idx, cache) or []
        # the documented two-argument form, own class or a non-immediate one: super(C<k>, self).__init__(**kwargs)
        callees += [["superof", k] for k in rng.sample(mro, min(2, len(mro)))]
        ms = sorted({m for ci in mro for m, _ in prog["classes"][ci]["meths"]})
        callees += [["meth", m] for m in ms] * 2
    callees += [["func", i] for i in range(len(prog["funcs"]))]
    callees += [["class", i] for i in range(len(prog["classes"])) if cls_idx is None or i < cls_idx]
    body = []
    for _ in range(rng.choice([0, 0, 0, 1, 1, 2])):
        body.append(["pg", rng.random() < 0.6, rng.choice(OPT), rng.choice([0, 0, 1, 2]), rng.randrange(4)])
    if callees and rng.random() < 0.88:
        c = rng.choice(callees)
        vis, nown = visible_params(prog, c, cls_idx, cache)
        npos = 0
        if nown and rng.random() < 0.2:
            npos = rng.randint(1, min(2, nown))
        given = []
        cands = [n for n in vis[npos:]]
        for _ in range(rng.choice([0, 0, 1, 1, 2])):
            if cands and rng.random() < 0.9:
                g = rng.choice(cands)
            else:
                g = rng.choice(OPT + REQ)
            if g not in given:
                given.append(g)
        if 1 <= len(vis[npos:]) <= 4 and rng.random() < 0.1:
            given = list(dict.fromkeys(vis[npos:]))   # every named parameter of the target is hard-coded
            if rng.random() < 0.6:
                fn["params"] = []                     # ... and the signature is only **kwargs: the correct answer is []
                own = []
        call = ["call", c, npos, given]
        body.insert(rng.randint(0, len(body)), call)
        if vis and rng.random() < 0.15:
            # a pop/get of a name the callee also accepts, with its own default, before or after the call: the two
            # occurrences are merged by group_parameters (conditional parameter when type/default differ)
            body.insert(rng.randint(0, len(body)), ["pg", rng.random() < 0.5, rng.choice(vis), rng.choice([0, 0, 1, 2]), rng.randrange(4)])
        if given and rng.random() < 0.3:
            # a pop/get of a name that is also hard-coded at the call, before or after it (statement order matters; a name
            # that is only READ with get is still in the forwarded dict and clashes with the hard-coded one)
            at = body.index(call)
            body.insert(rng.randint(0, at) if rng.random() < 0.65 else rng.randint(at + 1, len(body)),
                        ["pg", rng.random() < 0.5, rng.choice(given), 0, rng.randrange(4)])
    fn["body"] = body
    return fn


def gen_diamond(rng):
    """Layered multiple inheritance with a common root: root, 2-3 middle classes deriving from it (or from one another),
    a leaf deriving from two or three of them in random order, sometimes a subclass of the leaf. Every own __init__
    forwards **kwargs with super(); four in ten classes below the root have no __init__ of their own, so the one they
    inherit may come from far down the MRO with siblings that define one in between."""
    prog = {"funcs": [], "classes": [], "order": []}
    cache = {}
    pool = OPT + REQ[:1]

    def coop_init(i, always=False):
        if not always and rng.random() < 0.4:
            return None
        params = []
        for _ in range(rng.choice([1, 1, 2])):
            nm = rng.choice(pool)
            if nm not in [p[0] for p in params]:
                t = rng.randrange(3)
                params.append([nm, t, None if nm in REQ else [t, rng.randrange(4)]])
        params.sort(key=lambda p: p[2] is not None)
        body = []
        if rng.random() < 0.2:
            body.append(["pg", True, rng.choice(OPT), 0, rng.randrange(4)])
        vis, nown = visible_params(prog, ["super"], i, cache)
        given = [rng.choice(vis)] if vis and rng.random() < 0.2 else []
        if 1 <= len(vis) <= 4 and rng.random() < 0.1:
            given = list(dict.fromkeys(vis))   # a middle class / leaf that hard-codes everything above it
            if rng.random() < 0.6:
                params = []
        if given and rng.random() < 0.3:
            body.append(["pg", rng.random() < 0.5, rng.choice(given), 0, rng.randrange(4)])
        body.append(["call", ["super"], 0, given])
        return {"params": params, "kw": True, "body": body}

    def add(bases, always=False):
        i = len(prog["classes"])
        prog["classes"].append({"bases": bases, "init": None, "meths": []})
        cache.pop("types", None)
        if py_mro(prog, i, cache) is None:
            prog["classes"].pop()
            cache.pop("types", None)
            return None
        prog["classes"][i]["init"] = coop_init(i, always)
        prog["order"].append(["c", i])
        return i

    root = add([], always=True)
    if rng.random() < 0.5:   # a root that does not forward
        prog["classes"][root]["init"]["kw"] = rng.random() < 0.5
        prog["classes"][root]["init"]["body"] = []
    mids = []
    for _ in range(rng.choice([2, 2, 3])):
        b = [root] if not mids or rng.random() < 0.8 else [rng.choice(mids)]
        m = add(b)
        if m is not None:
            mids.append(m)
    leaf = None
    for _ in range(6):
        bs = rng.sample(mids, min(len(mids), rng.choice([2, 2, 3])))
        leaf = add(bs)
        if leaf is not None:
            break
    if leaf is not None and rng.random() < 0.4:
        add([leaf])
    return prog


def gen_coop(rng):
    if rng.random() < 0.4:
        return gen_diamond(rng)
    """Cooperative multiple inheritance: every __init__ takes **kwargs and forwards it with super().__init__, the
    parameters of a sibling are reachable only through the instance's MRO."""
    prog = {"funcs": [], "classes": [], "order": []}
    cache = {}
    ncls = rng.choice([3, 4, 4, 5, 5, 6])
    pool = OPT + REQ[:1]
    for i in range(ncls):
        for _ in range(10):
            nb = rng.choice([0, 1, 1, 2, 2, 2, 3]) if i else 0
            bases = []
            for _ in range(min(nb, i)):
                b = rng.randrange(i)
                if b not in bases:
                    bases.append(b)
            prog["classes"].append({"bases": bases, "init": None, "meths": []})
            cache.pop("types", None)
            if py_mro(prog, i, cache) is not None:
                break
            prog["classes"].pop()
        else:
            prog["classes"].append({"bases": [], "init": None, "meths": []})
            cache.pop("types", None)
        c = prog["classes"][i]
        # three in ten classes inherit __init__: in a diamond the inherited one may come from a class that is NOT the
        # next one in the instance's MRO (a sibling with its own __init__ sits in between)
        if rng.random() < 0.7:
            params = []
            for _ in range(rng.choice([0, 1, 1, 2])):
                nm = rng.choice(pool)
                if nm not in [p[0] for p in params]:
                    t = rng.randrange(3)
                    params.append([nm, t, None if nm in REQ else [t, rng.randrange(4)]])
            params.sort(key=lambda p: p[2] is not None)
            body = []
            if rng.random() < 0.3:
                body.append(["pg", True, rng.choice(OPT), 0, rng.randrange(4)])
            if rng.random() < 0.92:
                given = []
                npos = 0
                vis, nown = visible_params(prog, ["super"], i, cache)
                if nown and rng.random() < 0.2:
                    npos = 1
                if rng.random() < 0.25 and vis[npos:]:
                    given = [rng.choice(vis[npos:])]
                if 1 <= len(vis[npos:]) <= 4 and rng.random() < 0.1:
                    given = list(dict.fromkeys(vis[npos:]))   # everything the rest of the chain accepts is hard-coded
                    if rng.random() < 0.6:
                        params = []
                if given and rng.random() < 0.3:   # the hard-coded name is also read (get) or popped before the call
                    body.append(["pg", rng.random() < 0.5, rng.choice(given), 0, rng.randrange(4)])
                body.append(["call", ["super"], npos, given])
            c["init"] = {"params": params, "kw": True, "body": body}
        prog["order"].append(["c", i])
    return prog


def gen_libapp(rng):
    """Library + application: helper functions / helper classes and base classes whose __init__ (or a method it calls
    through self) forwards **kwargs to a helper, then subclasses that inherit or extend them. prog["lib"] = number of
    top-level items that make up the library when the program is written to two files (generate() uses it as split)."""
    prog = {"funcs": [], "classes": [], "order": []}
    cache = {}

    def plain(nmax=3):
        return {"params": gen_params(rng, nmax) or [[rng.choice(OPT), 0, [0, rng.randrange(4)]]], "kw": False, "body": []}

    def call(callee, cls_idx):
        vis, nown = visible_params(prog, callee, cls_idx, cache)
        npos = 1 if nown and rng.random() < 0.15 else 0
        given = [rng.choice(vis[npos:])] if vis[npos:] and rng.random() < 0.35 else []
        if 1 <= len(vis[npos:]) <= 4 and rng.random() < 0.08:
            given = list(dict.fromkeys(vis[npos:]))
        return ["call", callee, npos, given]

    def forwarding(cls_idx, callee, nmax=2):
        body = [call(callee, cls_idx)]
        if rng.random() < 0.25:
            body.insert(0, ["pg", True, rng.choice(OPT), 0, rng.randrange(4)])
        return {"params": gen_params(rng, nmax), "kw": True, "body": body}

    # helpers
    helpers = []
    for _ in range(rng.choice([1, 1, 2])):
        if rng.random() < 0.5:
            prog["funcs"].append(plain())
            helpers.append(["func", len(prog["funcs"]) - 1])
            prog["order"].append(["f", helpers[-1][1]])
        else:
            prog["classes"].append({"bases": [], "init": plain(), "meths": []})
            helpers.append(["class", len(prog["classes"]) - 1])
            prog["order"].append(["c", helpers[-1][1]])
    # base classes of the library
    bases = []
    for _ in range(rng.choice([1, 1, 2])):
        i = len(prog["classes"])
        c = {"bases": [], "init": None, "meths": []}
        prog["classes"].append(c)
        cache.pop("types", None)
        if rng.random() < 0.5:      # __init__ calls the helper itself
            c["init"] = forwarding(i, rng.choice(helpers))
        else:                       # __init__ calls self.m0, m0 calls the helper
            c["meths"].append([0, forwarding(i, rng.choice(helpers), nmax=1)])
            c["init"] = forwarding(i, ["meth", 0])
        bases.append(i)
        prog["order"].append(["c", i])
    prog["lib"] = len(prog["order"])
    # the application: subclasses that inherit, extend with super(), or override the method
    for _ in range(rng.choice([1, 2, 2, 3])):
        i = len(prog["classes"])
        pool = bases + list(range(bases[-1] + 1, i))
        c = {"bases": [rng.choice(pool)], "init": None, "meths": []}
        prog["classes"].append(c)
        cache.pop("types", None)
        if rng.random() < 0.5:
            c["init"] = forwarding(i, ["super"])
        if rng.random() < 0.3:
            c["meths"].append([0, plain(2) if rng.random() < 0.5 else forwarding(i, rng.choice(helpers), nmax=1)])
        prog["order"].append(["c", i])
        if rng.random() < 0.6:
            # another user of a helper: a function that forwards to it and reads one of the helper's names itself, with its
            # own default, before or after the call (the merged parameter is a conditional one in THIS function only)
            h = rng.choice(helpers)
            fn = forwarding(None, h, nmax=1)
            vis, _ = visible_params(prog, h, None, cache)
            if vis and rng.random() < 0.8:
                fn["body"] = [s for s in fn["body"] if s[0] == "call"]
                fn["body"].insert(0 if rng.random() < 0.35 else 1, ["pg", rng.random() < 0.4, rng.choice(vis), rng.choice([0, 0, 1, 2]), rng.randrange(4)])
            prog["funcs"].append(fn)
            prog["order"].append(["f", len(prog["funcs"]) - 1])
    return prog


def gen_prog(rng):
    if rng.random() < 0.2:
        return gen_libapp(rng)
    if rng.random() < 0.3:
        return gen_coop(rng)
    prog = {"funcs": [], "classes": [], "order": []}
    cache = {}
    ncls = rng.choice([1, 2, 2, 3, 3, 4, 4, 5, 6])
    nfun = rng.choice([0, 0, 1, 1, 2, 3])
    kinds = ["c"] * ncls + ["f"] * nfun
    rng.shuffle(kinds)
    for kind in kinds:
        if kind == "f":
            prog["funcs"].append(gen_fn(rng, prog, None, False, cache, kw_prob=0.6))
            prog["order"].append(["f", len(prog["funcs"]) - 1])
        else:
            i = len(prog["classes"])
            for _ in range(10):
                nb = rng.choice([0, 1, 1, 1, 2, 2, 3]) if i else 0
                # prefer recent classes as bases so that deep chains appear
                pool = list(range(i))
                bases = []
                for _ in range(min(nb, i)):
                    b = pool[-1] if rng.random() < 0.5 else rng.choice(pool)
                    if b not in bases:
                        bases.append(b)
                prog["classes"].append({"bases": bases, "init": None, "meths": []})
                cache.pop("types", None)
                if py_mro(prog, i, cache) is not None:
                    break
                prog["classes"].pop()
            else:
                prog["classes"].append({"bases": [], "init": None, "meths": []})
                cache.pop("types", None)
            c = prog["classes"][i]
            for m in range(2):
                if rng.random() < 0.3:
                    c["meths"].append([m, gen_fn(rng, prog, i, False, cache, kw_prob=0.5)])
            if rng.random() < 0.8:
                c["init"] = gen_fn(rng, prog, i, True, cache, kw_prob=0.85)
            prog["order"].append(["c", i])
    return prog


def superofy(rng, prog):
    """Rewrite some zero-argument super() calls as super(C<k>, self) with C<k> the class itself or any class of its MRO
    (the non-immediate form skips the classes in between)."""
    cache = {}
    for i, c in enumerate(prog["classes"]):
        if c["init"] is None:
            continue
        for s in c["init"]["body"]:
            if s[0] == "call" and s[1] == ["super"] and rng.random() < 0.35:
                mro = py_mro(prog, i, cache) or [i]
                skipping = mro[1:3]   # non-immediate: continue after a parent / grandparent
                s[1] = ["superof", rng.choice(skipping) if skipping and rng.random() < 0.6 else i]


def attrify(rng, prog):
    """Rewrite some forwarding calls of __init__ bodies in the documented attribute form (self._kw = kwargs in __init__,
    the call with **self._kw in a method of the class or of one of its ancestors). Only where the two forms mean the same
    for resolver and interpreter alike: the call is the last statement, goes to a function / class / self.method, its
    hard-coded names are no pop/get keys, and the class is never instantiated inside another __init__ (the consuming
    method is called by the runner right after construction of the outer object)."""
    cache = {}
    inner = set()
    fns = list(prog["funcs"])
    for c in prog["classes"]:
        fns += ([c["init"]] if c["init"] is not None else []) + [f for _, f in c["meths"]]
    for fn in fns:
        for s in fn["body"]:
            if s[0] == "call" and s[1][0] == "class":
                inner.update(py_mro(prog, s[1][1], cache) or [s[1][1]])
    pos = {tuple(it): n for n, it in enumerate(prog["order"])}
    for i, c in enumerate(prog["classes"]):
        init = c["init"]
        if init is None or not init["kw"] or not init["body"] or i in inner:
            continue
        s = init["body"][-1]
        if s[0] != "call" or s[1][0] not in ("func", "class", "meth") or attr_host(s, i) is not None:
            continue
        if set(s[3]) & {t[2] for t in init["body"] if t[0] == "pg"} or rng.random() < 0.5:
            continue
        hosts = [i]
        for h in (py_mro(prog, i, cache) or [i])[1:]:
            if s[1][0] == "meth" or pos[("f" if s[1][0] == "func" else "c", s[1][1])] < pos[("c", h)]:
                hosts.append(h)
        host = rng.choice(hosts) if rng.random() < 0.6 else i
        if len(s) > 4:
            s[4] = dict(s[4] or {}, attr=host)
        else:
            s.append({"attr": host})


def all_fns(prog):
    fns = list(prog["funcs"])
    for c in prog["classes"]:
        fns += ([c["init"]] if c["init"] is not None else []) + [f for _, f in c["meths"]]
    return fns


def kwonlyfy(rng, prog):
    """Declare a suffix of the parameters of some callables keyword-only (def f(a, *, b, c=1, **kwargs))."""
    for fn in all_fns(prog):
        if fn["params"] and rng.random() < 0.3:
            k = rng.randrange(len(fn["params"]))
            fn["params"] = [p[:3] + [i >= k] for i, p in enumerate(fn["params"])]


def afterfy(rng, prog):
    """Write the last k hard-coded keywords of some forwarding calls after the ** unpacking."""
    for fn in all_fns(prog):
        for s in fn["body"]:
            if s[0] == "call" and s[3] and rng.random() < 0.3:
                k = rng.randint(1, len(s[3]))
                if len(s) > 4:
                    s[4] = dict(s[4] or {}, after=k)
                else:
                    s.append({"after": k})


def condify(rng, prog):
    """Put some statements under a conditional on a module-level constant (documented: the resolver follows only the live
    branch of `if GLOBAL:` / `if not GLOBAL:`); the dead branch reads a key the live program may or may not know."""
    pool = ["zz", "zy"] + OPT[:4]
    for fn in all_fns(prog):
        if not fn["kw"]:
            continue
        for s in fn["body"]:
            if rng.random() < 0.35 and "attr" not in extras(s):
                set_extra(s, "cond", [rng.randrange(6), rng.random() < 0.6, rng.choice(pool)])
                prog["cond"] = True


def vaify(rng, prog):
    """Declare *args in some signatures (where the bare * would stand, or after the last parameter) and forward it
    (`f(*args, a=0, **kwargs)`). Only in programs whose calls pass no positional argument: with keyword-only instantiation
    *args is then always empty and the program means the same to the interpreter (Spec.call knows no *args)."""
    fns = all_fns(prog)
    if any(s[0] == "call" and s[2] for fn in fns for s in fn["body"]):
        return
    for fn in fns:
        if rng.random() < 0.35:
            fn["va"] = True
            for s in fn["body"]:
                if s[0] == "call" and "attr" not in extras(s) and rng.random() < 0.6:
                    set_extra(s, "star", True)


def exoticfy(rng, prog):
    """kwargs.pop/get defaults that are not constants: [] and {} (evaluated by the resolver) and another expression
    (UnknownDefault; objects of that class are never merged, so at most one per key and program)."""
    unknown = set()
    for fn in all_fns(prog):
        for s in fn["body"]:
            if s[0] == "pg" and rng.random() < 0.3:
                k = rng.choice([3, 3, 4, 4, 5])
                if k == 5:
                    if s[2] in unknown:
                        continue
                    unknown.add(s[2])
                s[3], s[4] = k, 0


def has_superof(prog):
    return any(s[0] == "call" and s[1][0] == "superof" for c in prog["classes"] if c["init"] for s in c["init"]["body"])


def runnable(prog, target):
    """Some keyword set makes the real interpreter accept the call (the program itself is not broken)."""
    ns = {}
    try:
        exec(compile(render(prog), "<c13>", "exec"), ns)
    except Exception:
        return False
    cls = ns["C%d" % target]
    req = [n for n in universe(prog) if n in REQ]
    for k in range(len(req) + 1):
        for s in itertools.combinations(req, k):
            try:
                obj = cls(**{n: 0 for n in s})
                for a in sorted(a for a in dir(obj) if a[0] == "a" and a[1:].isdigit()):
                    if hasattr(obj, "_kw" + a[1:]):
                        getattr(obj, a)()   # the consuming method of the attribute form
                return True
            except TypeError:
                pass
            except Exception:
                return False
    return False


def mk_case(rng, prog, target):
    case = {"prog": prog, "target": target, "masks": [rng.getrandbits(14) for _ in range(4)]}
    # four programs in ten are written to TWO source files: a library with the first items and a module with the rest;
    # the split point is anywhere that leaves the target class in the second file
    order = prog["order"]
    pos = order.index(["c", target])
    if has_superof(prog):
        pass   # two-argument super: one module only (the name is looked up in the module of the class being resolved)
    elif "lib" in prog and prog["lib"] <= pos:
        if rng.random() < 0.8:
            case["split"] = prog["lib"]
    elif pos >= 1 and rng.random() < 0.4:
        case["split"] = rng.randint(1, pos)
    # history: in half of the cases one to three OTHER callables of the program (functions, classes) are resolved first in
    # the same process, in a random order; the model is a function of the program alone, so the answer for the target
    # must be the stand-alone one
    others = ["f%d" % i for i in range(len(prog["funcs"]))] + ["C%d" % i for i in range(len(prog["classes"])) if i != target]
    if others and rng.random() < (0.8 if "lib" in prog else 0.5):
        case["before"] = rng.sample(others, rng.randint(1, min(4 if "lib" in prog else 3, len(others))))
    # ... and when the target has subclasses in the program, in half of those cases one of them is resolved LAST before the
    # target (whatever the resolution of a subclass leaves behind -- MRO position, caches -- meets its own base class)
    cache = {}
    desc = [i for i in range(len(prog["classes"])) if i != target and target in (py_mro(prog, i, cache) or [])]
    if desc and rng.random() < (0.7 if "lib" in prog else 0.5):
        d = "C%d" % rng.choice(desc)
        case["before"] = [b for b in case.get("before", []) if b != d][:3] + [d]
    return case


def fixed_cases():
    """The shapes named in DESIGN 5.13 / known findings, always run first."""
    A = {"bases": [], "init": {"params": [["a", 0, [0, 0]], ["b", 0, [0, 1]]], "kw": False, "body": []}, "meths": []}

    def sub(body, params=()):
        return {"bases": [0], "init": {"params": list(params), "kw": True, "body": body}, "meths": []}
    progs = [
        [A, sub([["pg", False, "n", 0, 3], ["call", ["super"], 0, []]])],           # get then forward
        [A, sub([["pg", True, "n", 0, 3], ["call", ["super"], 0, []]])],            # pop then forward
        [A, sub([["call", ["super"], 0, []], ["pg", True, "n", 0, 3]])],            # forward then pop
        [A, sub([["call", ["super"], 1, []]]), {"bases": [1], "init": None, "meths": []}],  # inherited init, positional
        [A, sub([["pg", True, "a", 0, 3], ["call", ["super"], 0, ["a"]]])],         # pop key also hard-coded
        [A, sub([["call", ["super"], 0, ["a"]]], [["c", 2, [2, 1]]])],              # hard-coded not offered
    ]
    cases = []
    for cl in progs:
        prog = {"funcs": [], "classes": cl, "order": [["c", i] for i in range(len(cl))]}
        cases.append({"prog": prog, "target": len(cl) - 1, "masks": [5, 3, 6, 7]})
    # self.m resolved on the defining class although the instance's class overrides it
    M = {"bases": [], "init": {"params": [], "kw": True, "body": [["call", ["meth", 0], 0, []]]},
         "meths": [[0, {"params": [["p", 0, [0, 2]]], "kw": False, "body": []}]]}
    M2 = {"bases": [0], "init": {"params": [], "kw": True, "body": [["call", ["super"], 0, []]]},
          "meths": [[0, {"params": [["q", 0, [0, 3]]], "kw": False, "body": []}]]}
    cases.append({"prog": {"funcs": [], "classes": [M, M2], "order": [["c", 0], ["c", 1]]}, "target": 1, "masks": [1, 2, 3, 0]})
    # group_parameters meets a tuple origin at the head of a callee's list: AttributeError, assumptions resolver answers
    Z0 = {"bases": [], "init": {"params": [["z", 0, [0, 1]]], "kw": False, "body": []}, "meths": []}
    Z1 = {"bases": [0], "init": {"params": [], "kw": True, "body": [["pg", True, "z", 0, 3], ["call", ["super"], 0, []]]}, "meths": []}
    Z2 = {"bases": [], "init": {"params": [], "kw": True, "body": [["pg", True, "q", 0, 0], ["call", ["class", 1], 0, []]]}, "meths": []}
    cases.append({"prog": {"funcs": [], "classes": [Z0, Z1, Z2], "order": [["c", 0], ["c", 1], ["c", 2]]}, "target": 2, "masks": [1, 2, 3, 0]})
    # get key hard-coded at a call whose callee swallows it in **kwargs: offered, but passing it clashes
    S0 = {"bases": [], "init": {"params": [], "kw": True, "body": [["pg", False, "b", 0, 3], ["call", ["meth", 0], 0, ["b"]]]},
          "meths": [[0, {"params": [], "kw": True, "body": []}]]}
    cases.append({"prog": {"funcs": [], "classes": [S0], "order": [["c", 0]]}, "target": 0, "masks": [1, 2, 3, 0]})
    # a class without __init__ in the middle of a super() chain whose next __init__ passes a positional argument
    I1 = sub([["call", ["super"], 1, []]])
    I2 = {"bases": [1], "init": None, "meths": []}
    I3 = {"bases": [2], "init": {"params": [["c", 0, [0, 2]]], "kw": True, "body": [["call", ["super"], 0, []]]}, "meths": []}
    cases.append({"prog": {"funcs": [], "classes": [A, I1, I2, I3], "order": [["c", i] for i in range(4)]}, "target": 3, "masks": [1, 2, 3, 0]})
    # diamond whose first base inherits __init__ from the root while the second base, later in the MRO, has its own
    R = {"bases": [], "init": {"params": [["a", 0, [0, 0]]], "kw": False, "body": []}, "meths": []}
    Pl = {"bases": [0], "init": None, "meths": []}
    Sc = {"bases": [0], "init": {"params": [["s", 1, [1, 1]], ["b", 1, [1, 0]]], "kw": True, "body": [["call", ["super"], 0, []]]}, "meths": []}
    Lf = {"bases": [1, 2], "init": {"params": [["t", 2, [2, 1]]], "kw": True, "body": [["call", ["super"], 0, []]]}, "meths": []}
    cases.append({"prog": {"funcs": [], "classes": [R, Pl, Sc, Lf], "order": [["c", i] for i in range(4)]}, "target": 3, "masks": [1, 2, 3, 0]})
    # programs split over two source files (the split point counts top-level items): inherited code in the second file's
    # classes refers to names that exist only in the library's globals
    F0 = {"params": [["p", 0, [0, 1]], ["q", 2, [2, 0]]], "kw": False, "body": []}
    V = {"bases": [], "init": {"params": [["a", 0, [0, 0]]], "kw": True, "body": [["call", ["func", 0], 0, []]]}, "meths": []}
    cases.append({"prog": {"funcs": [F0], "classes": [V, {"bases": [0], "init": None, "meths": []}],
                           "order": [["f", 0], ["c", 0], ["c", 1]]}, "target": 1, "masks": [1, 2, 3, 0], "split": 2})
    W = {"bases": [], "init": {"params": [["c", 0, [0, 3]], ["r", 1, [1, 0]]], "kw": False, "body": []}, "meths": []}
    K = {"bases": [], "init": {"params": [["e", 1, [1, 1]]], "kw": True, "body": [["call", ["meth", 0], 0, []]]},
         "meths": [[0, {"params": [["b", 0, [0, 1]]], "kw": True, "body": [["call", ["class", 0], 0, ["r"]]]}]]}
    H = {"bases": [1], "init": {"params": [["h", 0, [0, 2]]], "kw": True, "body": [["call", ["super"], 0, []]]}, "meths": []}
    cases.append({"prog": {"funcs": [], "classes": [W, K, H], "order": [["c", 0], ["c", 1], ["c", 2]]},
                  "target": 2, "masks": [1, 2, 3, 0], "split": 2})
    # history: a function that forwards to f0 and afterwards reads one of f0's names with another default is resolved
    # first; the class that forwards to the same f0 must still be offered f0's own defaults
    G0 = {"params": [["t", 0, [0, 1]], ["u", 2, [2, 0]]], "kw": False, "body": []}
    G1 = {"params": [["p", 0, [0, 2]]], "kw": True, "body": [["call", ["func", 0], 0, []], ["pg", False, "t", 0, 3]]}
    GC = {"bases": [], "init": {"params": [["r", 0, [0, 2]]], "kw": True, "body": [["call", ["func", 0], 0, []]]}, "meths": []}
    cases.append({"prog": {"funcs": [G0, G1], "classes": [GC], "order": [["f", 0], ["f", 1], ["c", 0]]},
                  "target": 0, "masks": [1, 2, 3, 0], "before": ["f1"]})
    # history: a subclass that overrides m0 is resolved first; the base class, whose __init__ calls self.m0, must still be
    # offered its own m0's parameters (nothing of the subclass's MRO may be left behind)
    B0 = {"bases": [], "init": {"params": [["a", 0, [0, 0]]], "kw": True, "body": [["call", ["meth", 0], 0, []]]},
          "meths": [[0, {"params": [["p", 0, [0, 1]]], "kw": False, "body": []}]]}
    B1 = {"bases": [0], "init": {"params": [["b", 0, [0, 0]]], "kw": True, "body": [["call", ["super"], 0, []]]},
          "meths": [[0, {"params": [["q", 0, [0, 2]]], "kw": False, "body": []}]]}
    cases.append({"prog": {"funcs": [], "classes": [B0, B1], "order": [["c", 0], ["c", 1]]},
                  "target": 0, "masks": [1, 2, 3, 0], "before": ["C1"]})
    return cases


KNOWN_REPLAYS = {"get-then-forward": 0, "inherited-init-positional": 3, "pop-hardcoded": 4, "method-override": 6,
                 "cond-origin-crash": 7}


def generate(rng, tier):
    cases = fixed_cases()
    want = 900 if tier == "quick" else 6000
    tries = 0
    while len(cases) < want and tries < want * 20:
        tries += 1
        prog = gen_prog(rng)
        if rng.random() < 0.3:
            superofy(rng, prog)
        if rng.random() < 0.3:
            attrify(rng, prog)
        if rng.random() < 0.4:
            kwonlyfy(rng, prog)
        if rng.random() < 0.5:
            afterfy(rng, prog)
        if rng.random() < 0.3:
            condify(rng, prog)
        if rng.random() < 0.35:
            vaify(rng, prog)
        if rng.random() < 0.3:
            exoticfy(rng, prog)
        n = len(prog["classes"])
        targets = [n - 1] + ([rng.randrange(n)] if n > 1 and rng.random() < 0.45 else [])
        if n > 1 and rng.random() < (0.6 if "lib" in prog else 0.3):
            # a class that has subclasses in the program (resolved after one of them in half of the cases, see mk_case)
            based = sorted({b for c in prog["classes"] for b in c["bases"]})
            if based:
                targets.append(rng.choice(based))
        for t in dict.fromkeys(targets):
            if runnable(prog, t):
                cases.append(mk_case(rng, prog, t))
    return cases


def observe(cases):
    payloads = [{"sources": sources(c), "target": "C%d" % c["target"], "universe": universe(c["prog"]),
                 "masks": c["masks"], "before": c.get("before", [])} for c in cases]
    k = max(1, min(16, len(cases) // 25))  # few cases (shrinking, replays): few interpreter start-ups
    res = run_impl_parallel("c13_kwargs.py", [{"cases": payloads[i::k]} for i in range(k)])
    out = [None] * len(cases)
    for i, r in enumerate(res):
        out[i::k] = r
    # cases with a history: the stand-alone answer of the implementation for the same target, from pristine processes
    hist = [i for i, c in enumerate(cases) if c.get("before")]
    if hist:
        light = [dict(payloads[i], before=[], light=True) for i in hist]
        k2 = max(1, min(8, len(light) // 40))
        res2 = run_impl_parallel("c13_kwargs.py", [{"cases": light[j::k2]} for j in range(k2)])
        alone = [None] * len(light)
        for j, r in enumerate(res2):
            alone[j::k2] = r
        for i, a in zip(hist, alone):
            out[i]["alone"] = a["offered"]
    return out


def forwards(prog, target):
    c = prog["classes"][target]
    init = c["init"]
    if init is None:
        return True
    return any(s[0] == "call" for s in init["body"])


def nontrivial_key(case, obs):
    if not forwards(case["prog"], case["target"]):
        return None
    return "\n#----\n".join(sources(case)) + "#%d" % case["target"] + "<" + ",".join(case.get("before", []))


def category(case, obs):
    prog = case["prog"]
    depth = len(obs["mro"])
    multi = any(len(c["bases"]) > 1 for c in prog["classes"])
    outs = sorted({o for _, o in obs["trials"]})
    return "mro %d/%s/offered %d/%s" % (min(depth, 6), "multi" if multi else "single", min(len(obs["offered"]), 8),
                                        "+".join(o[:3] for o in outs))


def describe(case, obs):
    src = sources(case)
    return {"source": src[0] if len(src) == 1 else "# ---- file lib.py\n%s\n# ---- file app.py ({LIB} = lib)\n%s" % tuple(src),
            "target": "C%d" % case["target"], "resolved_before_in_the_same_process": case.get("before", []),
            "offered_by_get_signature_parameters": [[p["name"], p["ann"], p["default"]] for p in obs["offered"]],
            "offered_stand_alone_in_a_pristine_process": [[p["name"], p["ann"], p["default"]] for p in obs.get("alone", obs["offered"])],
            "add_class_arguments": obs["parser"], "mro": obs["mro"],
            "calls": [[" ".join(s), o] for s, o in obs["trials"]]}


def _variants_fn(fn):
    for i in range(len(fn["body"])):
        yield dict(fn, body=fn["body"][:i] + fn["body"][i + 1:])
    for i in range(len(fn["params"])):
        yield dict(fn, params=fn["params"][:i] + fn["params"][i + 1:])
    for i, s in enumerate(fn["body"]):
        if s[0] == "call":
            if s[2]:
                yield dict(fn, body=fn["body"][:i] + [[s[0], s[1], 0, s[3]]] + fn["body"][i + 1:])
            for j in range(len(s[3])):
                yield dict(fn, body=fn["body"][:i] + [[s[0], s[1], s[2], s[3][:j] + s[3][j + 1:]]] + fn["body"][i + 1:])


SHRINK_BUDGET_S = 75   # total wall time spent shrinking in one run of the check (all violations together)
_SHRINK_T0 = None


def shrink(case):
    """Smaller programs that still fail FOR A REASON THAT IS NOT A LISTED FINDING: the framework keeps any candidate
    whose spec fails, which would let the shrinker drift from a new failure into a known one (e.g. get-then-forward);
    so the candidates are judged here first and the ones explained by a listed class are dropped."""
    import sys
    import time
    from tie import framework as fw
    global _SHRINK_T0
    if _SHRINK_T0 is None:
        _SHRINK_T0 = time.time()
    if time.time() - _SHRINK_T0 > SHRINK_BUDGET_S:   # the unshrunk failing input is reported as it is
        return
    cands = [c for c in _shrink(case) if runnable(c["prog"], c["target"])][:40]
    if not cands:
        return
    known = fw.load_known_findings(PROP)
    obs = observe(cands)
    _, bad_in, bad_out = fw.judge_cases(sys.modules[__name__], cands, obs, tag="h")
    keep = set(bad_in) | {i for i, k in bad_out if FINDING_CLASSES.get(k) not in known}
    for i, c in enumerate(cands):
        if i in keep:
            yield c


def search(rng, tier, broken):
    """Failing-input search after a broken proof / tie: ONE fresh quick-sized batch, judged once (bounded, <= ~60 s)."""
    import sys
    from tie import framework as fw
    cases = generate(rng, "quick")
    obs = observe(cases)
    bad_model, bad_in, bad_out = fw.judge_cases(sys.modules[__name__], cases, obs, tag="x")
    known = fw.load_known_findings(PROP)
    bad = sorted(set(bad_in) | {i for i, k in bad_out if FINDING_CLASSES.get(k) not in known}) or sorted(bad_model)
    if not bad:
        return None
    i = bad[0]
    return {"case": cases[i], "observed": obs[i], "explain": describe(cases[i], obs[i])}


def _shrink(case):
    import copy
    prog = case["prog"]
    before = case.get("before", [])
    for i in range(len(before)):
        yield dict(case, before=before[:i] + before[i + 1:])
    if case.get("split"):
        yield dict(case, split=0)
    for i, f in enumerate(prog["funcs"]):
        for v in _variants_fn(f):
            p = copy.deepcopy(prog)
            p["funcs"][i] = v
            yield dict(case, prog=p)
    for i, c in enumerate(prog["classes"]):
        if c["init"] is not None:
            for v in _variants_fn(c["init"]):
                p = copy.deepcopy(prog)
                p["classes"][i]["init"] = v
                yield dict(case, prog=p)
        for j, (m, f) in enumerate(c["meths"]):
            p = copy.deepcopy(prog)
            del p["classes"][i]["meths"][j]
            if all(not (s[0] == "call" and s[1] == ["meth", m]) for cc in p["classes"] if cc["init"] for s in cc["init"]["body"]):
                yield dict(case, prog=p)
        if len(c["bases"]) > 1:
            for j in range(len(c["bases"])):
                p = copy.deepcopy(prog)
                del p["classes"][i]["bases"][j]
                yield dict(case, prog=p)


META = {
    "level_text": "Proved in Rocq for every program of a DSL of Python sources (class hierarchies of any depth and width with C3 "
                  "linearisation, own or inherited __init__, functions, methods; bodies of kwargs.pop/get and one forwarding call "
                  "super().__init__ / super(C, self).__init__ (own or non-immediate class) / f / C / self.m with positional and "
                  "hard-coded keyword arguments; parameters may be declared keyword-only), by induction on the call-chain "
                  "fuel, relating two executable semantics: the resolver's algorithm (coq/Model/Kwargs.v, written in the shape of "
                  "_parameter_resolvers.py, bugs included; coq/Model/C13KwargsFx.v with the four repairs that /repo now has) and "
                  "CPython's keyword binding (coq/Spec/KwargsSpec.v), under ONE executable hypothesis that the judge evaluates on every "
                  "generated program (klass_top = 0; for the repaired resolver the wider klass_top_inh = 0, which admits classes that "
                  "inherit __init__ from any depth -- C13_inherited_guard_widens). "
                  "Soundness -- C13_resolver_sound(_frame), C13_resolver_sound_repaired, C13_resolver_sound_inherited_init: calling the "
                  "class with any duplicate-free set of offered names is never refused (no unexpected keyword, no multiple values, no "
                  "object.__init__ leftovers). "
                  "Completeness -- C13_resolver_complete(_frame), C13_resolver_complete_repaired: every keyword that anything receives "
                  "in any call of the class (a declared parameter not bound positionally, a kwargs.pop/get anywhere on the call chain, "
                  "a parameter of a callee reached through **kwargs), whatever the keyword set and the outcome, is a name the resolver "
                  "offers: no reachable parameter is missing (C13_bindings_are_passed_keywords: such a keyword is one that was passed; "
                  "C13_complete_diamond_tight: on the diamond the received names are exactly the offered ones). "
                  "C13_hardcoded_not_offered (no hypothesis): a name hard-coded at the forwarding call and accepted by the callee is "
                  "offered only if the callable declares it itself. C13_keeps_type_and_default_declared / _forwarded (no hypothesis): "
                  "declared parameters come first with their annotation/default/kind, a forwarding-only body offers the callee's records "
                  "unchanged; C13_inherited_init_offers_frame: a class that inherits __init__ is offered what the inherited __init__ "
                  "offers at its own MRO position. Five *_refuted theorems exhibit, by evaluation, programs on which the unguarded "
                  "statement is false of the faithful (unrepaired) model; C13_fx_conservative + C13_repairs_preserve_guarded + "
                  "C13_repairs_close_witnesses relate the repaired model to it.",
    "level_note": "Partial. NOT proved, judged per generated program inside Coq by Spec.exact_b on the observed answer: "
                  "type/default for bodies that mix pop/get with forwarding (group_parameters), and everything outside the hypothesis "
                  "(methods overridden below the class whose __init__ calls them, a class instantiated inside a body that itself "
                  "inherits __init__, hard-coded names the callee does not accept, the listed finding get-then-forward). "
                  "Both semantics are hand-written and tied only by the correspondence run: each generated program is written to a "
                  "real source file (or two modules), resolved with get_signature_parameters and add_class_arguments -- in half of the "
                  "cases after other callables of the program were resolved in the same process -- and really instantiated with up "
                  "to 40 keyword sets; Coq checks that the model reproduces the offered list (name, annotation, default, kind, "
                  "tuple origin), that the model's C3 gives type.mro() and that Spec.call reproduces every observed outcome. "
                  "Rendering only (same DSL term, different source text; no theorem speaks about it): the attribute form "
                  "self._kw = kwargs, keywords after the ** unpacking, conditionals on module-level constants (live branch only), "
                  "*args declared and forwarded where it stays empty, [] / {} / non-literal pop/get defaults are ordinary default kinds. "
                  "Bodies with several forwarding uses (conditional parameters across calls), conditionals on non-constants, positional "
                  "overflow into *args, stubs/pydantic/attrs resolvers, the assumptions resolver (unreachable for DSL programs since "
                  "the cond-origin-crash repair) and class-instance defaults are not modelled. "
                  "The statement is per program; history is correspondence-only: other callables of the program are resolved first "
                  "in the same process and the answer must equal both the model's and the one a pristine process gives "
                  "(no theorem speaks about process state).",
    "technique": "Rocq proof by induction on call-chain fuel over a program DSL with two executable semantics (resolver model, CPython "
                 "keyword binding with receiver bindings): soundness and completeness + differential correspondence against the real "
                 "resolver, parser and interpreter, judged in Coq",
}

"""C05 — the same setting through every input channel: real parsers (all channels x parser modes) vs
Model/C05Channels.v vs Spec/C05Spec.v; JSON scalars vs the regenerated YAML resolver tables."""
import json
import math
import re
import sys

from tie import framework as fw
from tie.framework import g_bool, g_list, g_pair, g_str, g_Z, run_impl_parallel

PROP = "C05"
IMPORTS = ("From JV Require Import Lib.Base Lib.Regex Model.TyVal Model.Scalar Model.Ty Model.TyLoader Model.C05History "
           "Model.C05Channels Model.C05Plain Spec.C05Spec Corr.C05Judge.")
MODES = ["yaml", "json", "jsonnet", "omegaconf"]
EXHAUSTIVE = {"quick": False, "thorough": False}
RULE = ("one case = one logical setting for one key: a type hint from the grammar str/int/float/bool/None/Any/Literal/Enum/"
        "Optional/Union/List/Dict[str|int,.]/Tuple/Tuple[.,...]/Set (depth <= 3, seeded), a JSON-like value (85% built to fit "
        "the type, else arbitrary; ints up to 10^25, floats incl. exponent forms, ~90 look-alike strings: true/null/1e3/.5/"
        "1_000/0x1F/[1, 2]/{a/a: b/leading blanks/...), a key path (1-3 components, underscore names, Namespace clash names "
        "items/values), the option declared with hyphens or underscores, env_prefix in {'APP','my-app',True,False}. The "
        "setting is rendered as text (a string as it is, anything else as JSON) and as three documents (JSON nested, JSON "
        "dotted keys, YAML block) and pushed through: --key=TEXT, --key TEXT, PREFIX_KEY=TEXT via parse_env and via "
        "os.environ+parse_args(env=True), parse_object (nested and dotted), and per document parse_string, parse_path, "
        "--cfg FILE, --cfg=STRING, PREFIX_CFG=STRING, default_config_files — all of them under parser_mode yaml, a reduced "
        "set (argv, env, object, parse_string, --cfg FILE) under json / jsonnet / omegaconf (quick: yaml + one or all other "
        "modes per case; thorough: all four). Every look-alike string is run at str, Optional[str], List[str] and "
        "Dict[str,str]. 30% of the cases run five yaml-mode channels once more AFTER another parser's parse_args was rejected "
        "while applying a --cfg value (the key itself set by an accepted option before). History family  (60 quick / 300 "
        "thorough): a parser with dataclass, List[dataclass], Dict[str,dataclass], Optional[dataclass] and subclass-typed "
        "keys — types whose parsing consults the previous value of the key; settings with missing fields / without "
        "class_path through parse_object, parse_string, parse_path, --cfg string, --cfg file and dotted options of fresh "
        "parsers, first in a clean context, then after an earlier parse_args of another parser: 1-4 accepted options followed "
        "by a rejected --cfg (wrong type, unparsable, unknown class; string or file), an accepted --cfg, accepted-then-"
        "rejected, a rejected option, options after it; each case runs in its own contextvars.copy_context(). "
        "Dict[str, T] settings with identifier keys are also given entry by entry on the command line (--key.k=TEXT ..., "
        "both forms); the look-alike strings now include values with = : # , (app=web, a=b=c, URL query strings, base64 "
        "padding, k=v,x=y). Sub-command family (50 quick / 150 thorough): a parser with 2-3 sub-commands, one top-level key and 1-3 keys of the "
        "chosen sub-command (not necessarily the first) with types from a tame set (scalars, Optional, List, Dict, Tuple, Set, "
        "Enum; values every channel accepts); dotted options, parse_object, parse_env(MAPPING) with the variables absent from "
        "os.environ, os.environ + parse_args(env=True), parse_string, parse_path, --cfg FILE/STRING, PREFIX_CFG, "
        "default_config_files; every leaf key judged as an ordinary setting (Group). Float settings are rendered by repr or "
        "(20%) as another JSON number literal (1e5, 2E3, -3e2, 1.5E+3, 12e-1). "
        "Directed: the empty string / a blank at str, Optional[str], List[str] under every key shape; leaves named like "
        "Namespace attributes (values, keys, pop, items, get, update) below 0-2 branches with float<-int, Set, Tuple, Enum, "
        "Tuple[float, ...], List[float] settings. nargs/choices family (92 quick / 502 thorough): one option declared with a plain "
        "callable type (pos = int(x) > 0, up = str.upper), no type, or a type hint (int, float, str, Optional[int], List[int]) x "
        "nargs in {None, ?, *, +, 1, 2, 3} x choices (45%); the values follow the option string as separate tokens (and --k=V "
        "for one value), the environment variable holds the JSON list or the bare single value, parse_object / the documents "
        "the list; 15% value counts the nargs pattern refuses, values outside the choices, texts the callable refuses; every "
        "channel incl. both environment forms, PREFIX_CFG and default_config_files, yaml + one other mode. History family: the "
        "dataclass group is also given as one command-line value (--opt=JSON). Six directed Dict[str, str] settings of enable_path "
        "options whose entries name readable files of the working directory. "
        "distinct = distinct (type, value, key, prefix, spelling, modes) resp. (settings, earlier call); non-trivial = >= 8 "
        "channel runs")
TRUSTED = [
    "Coq 8.16.1 kernel + vm_compute",
    "tie/impl/c05_channels.py (builds the real parser, runs every channel, canonicalises stored values: sets sorted, floats by "
    "repr, exceptions to ok/rejected(ArgumentError)/crash) and the Gallina printer in tie/props/c05.py",
    "the renderer of a setting into text / JSON / YAML-block documents (tie/props/c05.py json_text, yaml_block)",
    "Model/Ty.v check_type (hand-written model of ActionTypeHint._check_type / adapt_typehints, owned by C02) and the channel "
    "pipeline Model/C05Channels.v, tied by per-case agreement evaluated inside Coq for parser_mode yaml",
    "tie/scalar_tables.py + tie/translate_regex.py (resolver tables regenerated from the live PyYAML loader class)",
    "PyYAML / json / jsonnet / OmegaConf document parsers: what they make of a document enters the model as an observed "
    "oracle (plain scalars are recomputed by Model/Scalar.v and must coincide)",
    "argparse's splitting of argv into option and value",
]
ASSUMPTIONS = [
    "keys are declared with add_argument('--a.b.c', type=T) and default None (nargs / choices / plain callable types: the "
    "nargs-choices family); no links, class types or paths outside the history family",
    "nargs-choices family: the callables are pos and up of tie/impl/c05_channels.py, modelled by Model/C05Plain.v elem on the "
    "generated texts ([+-]digits and ASCII words: Python's int() also takes blanks, underscores and non-ASCII digits, not "
    "generated); choices hold values of the element type only (Python's == across int/float/bool is not modelled); the "
    "logical value of a list-valued option is always a list (a bare scalar, a str or a dict given to the config channels "
    "for nargs * + N is not generated; '?' without a value stores const and is not a setting); several tokens after the "
    "option string never start with '-'",
    "floats within binary64 range with <= 15 significant digits (decimal model of Model/TyVal.v); no NaN/inf settings; integers beyond 2^53 only for types without a float position (float(int) rounds there)",
    "the model is compared with the observations of parser_mode yaml and omegaconf (the latter through what the OmegaConf-based "
    "loader answered, errors classified by the implementation's own list of loader exceptions); json / jsonnet observations "
    "are judged against the specification (agreement with all other channels) only",
    "a string is 'unambiguous text' only at a str position; strings below Any, non-strings where str/Any could take the text, "
    "and ${...} strings under omegaconf are outside the property's quantifier (class 5: nothing demanded)",
    "dict settings are generated with sorted keys (jsonnet re-renders objects sorted); sets only of int or str",
    "history family: the dataclass / subclass types are opaque to the model — a channel's answer after an earlier call is "
    "predicted from its clean-context answer and the state of previous_config computed by Model/C05History.v; other process "
    "state (parser-object state is C09's) is excluded by using a fresh parser per call",
    "sub-command family: the sub-command is named explicitly in every channel (choosing it is C17's); a key of a sub-command is "
    "modelled by the same per-key pipeline as a top-level key (the extra type-check passes of the sub-parser are absorbed by "
    "the fixed-point guard; the family keeps to types whose check is idempotent)",
    "entry-by-entry command line: only for a top-level Dict[str, T] hint, starting from the default None, option spelled with "
    "its destination name (below an option declared with hyphens jsonargparse recognises only --my_key.k, not --my-key.k: "
    "seen, not triaged); nested keys below class-typed options (init_args) are not generated",
    "the text '--' is not used as a value (argparse removes it) and bare NoneType is not used as a type hint",
]
FINDING_CLASSES = {1: "none-unchecked", 3: "literal-eq-channels", 4: "jsonnet-numbers", 8: "nargs-count-unchecked"}  # 9 (typed-choices-raw-argv) repaired: /repo 1307907   # 2 (clash-key-unadapted) and 7 (nested-item-no-string-fallback) repaired
# When fixes/C05-clash-key-unadapted.patch is applied in /repo:  JUDGE = "judge_fixed"  and drop class 2 above.
JUDGE = "judge_fixed"   # /repo 0aaec05 (clash-key-unadapted repaired)


# ---------------------------------------------------------------------------------------------------------------------
# values (tagged JSON), texts, documents
# ---------------------------------------------------------------------------------------------------------------------
def untag(v):
    if isinstance(v, dict):
        if "f" in v:
            return float(v["f"])
        if "l" in v:
            return [untag(x) for x in v["l"]]
        if "d" in v:
            return {k: untag(x) for k, x in v["d"]}
        if "i" in v:
            return int(v["i"])
        raise ValueError(v)
    return v


def json_text(v):
    """the JSON rendering of a tagged value (floats by repr, like json.dumps)"""
    if isinstance(v, dict):
        if "f" in v:
            return v["f"]
        if "i" in v:
            return v["i"]
        if "l" in v:
            return "[" + ", ".join(json_text(x) for x in v["l"]) + "]"
        if "d" in v:
            return "{" + ", ".join(json.dumps(k) + ": " + json_text(x) for k, x in v["d"]) + "}"
    return json.dumps(v)


def top_text(v):
    """what one types after `--key=` / puts into the environment variable: a string as it is, anything else as JSON"""
    return v if isinstance(v, str) else json_text(v)


def yaml_block(key, v):
    """block-style YAML document for key path -> value; leaves in JSON flow form (valid YAML), top-level non-empty
    list / dict values in block form"""
    lines = []
    ind = ""
    for k in key[:-1]:
        lines.append("%s%s:" % (ind, k))
        ind += "  "
    k = key[-1]
    if isinstance(v, dict) and v.get("l"):
        lines.append("%s%s:" % (ind, k))
        for x in v["l"]:
            lines.append("%s- %s" % (ind, json_text(x)))
    elif isinstance(v, dict) and v.get("d"):
        lines.append("%s%s:" % (ind, k))
        for kk, x in v["d"]:
            lines.append("%s  %s: %s" % (ind, json.dumps(kk), json_text(x)))
    else:
        lines.append("%s%s: %s" % (ind, k, json_text(v)))
    return "\n".join(lines) + "\n"


def make_docs(key, v):
    nested = json_text(v)
    for k in reversed(key):
        nested = "{%s: %s}" % (json.dumps(k), nested)
    docs = {"json_nested": nested, "yaml_block": yaml_block(key, v)}
    if len(key) > 1:
        docs["json_dotted"] = "{%s: %s}" % (json.dumps(".".join(key)), json_text(v))
    return docs


# ---------------------------------------------------------------------------------------------------------------------
# generation
# ---------------------------------------------------------------------------------------------------------------------
LOOKALIKES = ["true", "false", "null", "True", "NULL", "yes", "no", "on", "off", "~", "1", "-1", "0", "007", "1.5", "1e3", "1E3",
              "1e+3", ".5", "5.", "1_000", "0x1F", "0o17", "0b11", "1:30", ".inf", "-.inf", ".nan", "nan", "inf", "-",
              "-x", "+1", "=", "<<", "a: b", "a:", "[1, 2]", "[a", "{a: 1}", '{"a": 1}', "{a", "a, b", "a b", " lead", "trail ",
              "", " ", "'q'", '"q"', "a#b", "a #b", "#c", "@x", "`y", "%z", "&a", "*a", "!t", "|", ">", "?", "? a", "? x", "{? : 1}", "[? a]", "{?}", "? [a]", "- a", "-a",
              "a\nb", "tab\tx", "été", "☃", "2024-01-01", "12:30:00", "1+1", "${x}", "${oc.env:HOME}", "$x",
              "std.thisFile", "a.b", "a=b", "app=web", "a=b=c", "http://h/q?a=1&b=2", "dGVzdA==", "k=v,x=y", "=x", "x=", "a:b", "x#y",
              "p, q", "key: a=b", "notes.txt", "./data.yaml", "x,y", "None", "none", "NaN", "Infinity", "0.1", "-0", "-0.0", "1 2"]
WORDS = ["a", "b", "abc", "x_y", "k1", "Hello", "zed"]
KEYS = [["k"], ["my_key"], ["g", "k"], ["g", "my_key"], ["a", "b", "c"], ["grp_x", "sub", "leaf_key"], ["items"], ["g", "values"]]
PREFIXES = ["APP", "my-app", True, False]
ENUM_MEMBERS = [["a", "b"], ["red", "green", "blue"], ["null", "x"], ["1", "on"], ["A", "a"]]


def gen_int(rng):
    r = rng.random()
    if r < 0.3:
        return rng.choice([0, 1, -1, 2, 7, 10, -10, 255])
    if r < 0.8:
        return rng.randint(-1000, 1000)
    if r < 0.9:
        return rng.randint(-10 ** 12, 10 ** 12)
    return rng.choice([2 ** 63, -2 ** 63 - 1, 10 ** 25, 2 ** 53 + 1])


def gen_float(rng):
    r = rng.random()
    if r < 0.25:
        return rng.choice([0.5, 1.0, -1.0, 0.0, 2.5, 0.1, 100.0, 1e3, 1e-3, 1e16, 1e22, 1.5e300, 1e-7, -0.0, 123456.789])
    if r < 0.7:
        return round(rng.uniform(-1000, 1000), rng.randint(0, 6))
    if r < 0.85:
        return float(rng.randint(-10 ** 6, 10 ** 6))
    return float("%de%d" % (rng.randint(1, 999), rng.randint(-30, 30)))


def tag_float(x):
    return {"f": repr(x)}


def gen_float_tag(rng):
    """a float setting; its JSON rendering is Python's repr, or (20%) another literal JSON allows for a number: exponent
    with e or E, with or without a sign, with or without a fraction (1e5, 2E3, -3e2, 1.5E+3, 12e-1, 0e0)"""
    if rng.random() < 0.8:
        return tag_float(gen_float(rng))
    mant = str(rng.choice([0, 1, 2, 3, 7, 12, 25, 104]))
    if rng.random() < 0.4:
        mant += "." + rng.choice(["0", "5", "25", "125"])
    lit = "%s%s%s%s%d" % (rng.choice(["", "", "-"]), mant, rng.choice("eE"), rng.choice(["", "", "+", "-"]), rng.randint(0, 12))
    return {"f": lit}


def gen_str(rng, plain=False):
    r = rng.random()
    if plain or r < 0.4:
        return rng.choice(WORDS)
    if r < 0.85:
        return rng.choice(LOOKALIKES)
    n = rng.randint(1, 6)
    return "".join(rng.choice("ab1_-.:,[]{}\"' #e+") for _ in range(n))


def gen_type(rng, depth):
    """-> type tree"""
    r = rng.random()
    if depth <= 0 or r < 0.42:
        return [rng.choice(["str", "int", "float", "bool", "int", "float", "str", "any", "enum", "lit"])]
    k = rng.choice(["opt", "opt", "union", "list", "list", "dict", "dict", "tuple", "tuplevar", "set"])
    if k == "opt":
        t = gen_type(rng, depth - 1)
        if t[0] in ("none", "union"):
            t = ["int"]
        return ["union", [t, ["none"]] if rng.random() < 0.7 else [["none"], t]]
    if k == "union":
        n = rng.randint(2, 3)
        ts = []
        for _ in range(n):
            t = gen_type(rng, depth - 1)
            if t[0] != "union" and t not in ts:
                ts.append(t)
        if len(ts) < 2:
            ts = [["int"], ["str"]] if rng.random() < 0.5 else [["bool"], ["float"]]
        return ["union", ts]
    if k == "list":
        return ["list", gen_type(rng, depth - 1)]
    if k == "dict":
        return ["dict", rng.random() < 0.2, gen_type(rng, depth - 1)]
    if k == "tuple":
        return ["tuple", [gen_type(rng, depth - 1) for _ in range(rng.randint(1, 3))]]
    if k == "tuplevar":
        return ["tuplevar", gen_type(rng, depth - 1)]
    return ["set", [rng.choice(["int", "str", "int"])]]   # element order of other sets is hash order: not compared


def finish_type(rng, t):
    """fill in literal / enum payloads"""
    k = t[0]
    if k == "enum":
        return ["enum", rng.choice(ENUM_MEMBERS)]
    if k == "lit":
        return ["lit", rng.choice([[1, 2], ["a", "b"], [1, "a"], [True, "x"], [None, 3], ["null", "1"], [0, False], ["a", 2, None]])]
    if k == "union":
        ts = [finish_type(rng, x) for x in t[1]]
        if any(x[0] == "enum" for x in ts) and ["none"] in ts:
            # add_argument(type=Union[None, <Enum>]) crashes while building the help text (nothing to do with parsing)
            ts = [x for x in ts if x != ["none"]] + [["none"]]
        return ["union", ts]
    if k in ("list", "tuplevar", "set"):
        return [k, finish_type(rng, t[1])]
    if k == "dict":
        return ["dict", t[1], finish_type(rng, t[2])]
    if k == "tuple":
        return ["tuple", [finish_type(rng, x) for x in t[1]]]
    return t


def gen_value(rng, t, fit):
    """a tagged JSON-like value; with probability `fit` one that the type is meant to accept"""
    if rng.random() > fit:
        return gen_any_value(rng, 2)
    k = t[0]
    if k == "str":
        return gen_str(rng)
    if k == "int":
        return {"i": str(gen_int(rng))}
    if k == "float":
        return gen_float_tag(rng) if rng.random() < 0.85 else {"i": str(gen_int(rng))}
    if k == "bool":
        return rng.random() < 0.5
    if k == "none":
        return None
    if k == "any":
        return gen_any_value(rng, 2)
    if k == "lit":
        x = rng.choice(t[1])
        return {"i": str(x)} if isinstance(x, int) and not isinstance(x, bool) else x
    if k == "enum":
        return rng.choice(t[1])
    if k == "union":
        return gen_value(rng, rng.choice(t[1]), fit)
    if k in ("list", "tuplevar", "set"):
        n = rng.choice([0, 1, 1, 2, 2, 3])
        xs = [gen_value(rng, t[1], fit) for _ in range(n)]
        return {"l": xs}
    if k == "tuple":
        return {"l": [gen_value(rng, x, fit) for x in t[1]]}
    if k == "dict":
        n = rng.choice([0, 1, 2, 2, 3])
        ks = []
        for _ in range(n):
            kk = str(rng.randint(-3, 20)) if t[1] else gen_str(rng, plain=rng.random() < 0.7)
            if kk not in ks:
                ks.append(kk)
        return {"d": [[kk, gen_value(rng, t[2], fit)] for kk in sorted(ks)]}   # jsonnet re-renders objects with sorted keys
    raise ValueError(t)


def gen_any_value(rng, depth):
    r = rng.random()
    if depth <= 0 or r < 0.6:
        c = rng.randrange(6)
        if c == 0:
            return None
        if c == 1:
            return rng.random() < 0.5
        if c == 2:
            return {"i": str(gen_int(rng))}
        if c == 3:
            return gen_float_tag(rng)
        return gen_str(rng)
    if r < 0.8:
        return {"l": [gen_any_value(rng, depth - 1) for _ in range(rng.randint(0, 3))]}
    ks = []
    for _ in range(rng.randint(0, 3)):
        kk = gen_str(rng, plain=rng.random() < 0.7)
        if kk not in ks:
            ks.append(kk)
    return {"d": [[kk, gen_any_value(rng, depth - 1)] for kk in sorted(ks)]}


def clamp_ints(v):
    """integers a float position converts exactly (|z| <= 2^53): beyond that float(z) rounds, outside the decimal float model"""
    if isinstance(v, dict):
        if "i" in v and abs(int(v["i"])) > 2 ** 53:
            return {"i": str(int(v["i"]) % 1000003)}
        if "l" in v:
            return {"l": [clamp_ints(x) for x in v["l"]]}
        if "d" in v:
            return {"d": [[k, clamp_ints(x)] for k, x in v["d"]]}
    return v


def finite(v):
    if isinstance(v, dict):
        if "f" in v:
            return math.isfinite(float(v["f"]))
        if "l" in v:
            return all(finite(x) for x in v["l"])
        if "d" in v:
            return all(finite(x) for _, x in v["d"])
    return True


def strings_in(v):
    if isinstance(v, str):
        yield v
    elif isinstance(v, dict):
        for x in v.get("l", []):
            yield from strings_in(x)
        for k, x in v.get("d", []):
            yield k
            yield from strings_in(x)


FILE_NAMES = {"notes.txt", "./data.yaml", "data.yaml"}
CLASH = {"items", "values", "keys", "get", "pop", "update", "clone"}
CLASH_KEYS = [["g", "values"], ["plot", "keys"], ["x", "pop"], ["g", "items"], ["a", "b", "get"], ["grp_x", "update"], ["values"]]
CLASH_SETTINGS = [(["float"], {"i": "1"}), (["set", ["int"]], {"l": [{"i": "3"}, {"i": "1"}]}),
                  (["tuple", [["int"], ["str"]]], {"l": [{"i": "2"}, "a"]}), (["enum", ["a", "b"]], "b"),
                  (["tuplevar", ["float"]], {"l": [{"i": "1"}, {"f": "2.5"}]}), (["list", ["float"]], {"l": [{"i": "4"}]})]


def make_case(rng, t, v, modes=None, key=None):
    key = key or rng.choice(KEYS)
    if isinstance(v, dict) and "d" in v and CLASH & set(key):
        key = ["g", "k"]   # a dict under a key without action is turned into a Namespace: not a leaf setting any more
    modes = list(modes or MODES)
    if "omegaconf" in modes and any("${" in x for x in strings_in(v)):
        modes.remove("omegaconf")   # ${...} is OmegaConf's interpolation syntax, not a plain string there
    items = None
    if t[0] == "dict" and t[1] is False and isinstance(v, dict) and v.get("d") and \
            all(re.fullmatch(r"[A-Za-z_][A-Za-z0-9_]*", k) for k, _ in v["d"]) and not CLASH & {k for k, _ in v["d"]}:
        items = [[k, top_text(x)] for k, x in v["d"]]
    docs_extra = {}
    mixed = len(key) >= 2 and rng.random() < 0.5
    if mixed:
        inner = json_text(v)
        for k in reversed(key[1:]):
            inner = "{%s: %s}" % (json.dumps(k), inner)
        docs_extra["json_mixed"] = "{%s: %s, %s: 4}" % (json.dumps(key[0]), inner, json.dumps(key[0] + ".zz.deep"))
    # declared with enable_path=True (as CLI / sub_configs do): half of the entry-wise settings, and every one with an entry
    # whose text names a readable file of the runner's working directory
    enable_path = bool(items) and (rng.random() < 0.5 or any(x in FILE_NAMES for _, x in items))
    return {"mixed": mixed, "enable_path": enable_path, "docs_extra": docs_extra, "items": items, "ty": t, "key": key, "hyphen": rng.random() < 0.3 and any("_" in k for k in key), "prefix": rng.choice(PREFIXES),
            "val": v, "text": top_text(v), "docs": dict(make_docs(key, v), **docs_extra), "modes": modes}


def known_cases(rng):
    """one minimal input per listed finding (also written to replays/known/)"""
    big = {"i": "9007199254740993"}
    return {
        "clash-key-unadapted": make_case(rng, ["float"], {"i": "1"}, modes=["yaml"], key=["values"]),
        "none-unchecked": make_case(rng, ["int"], None, modes=["yaml"], key=["k"]),
        "literal-eq-channels": make_case(rng, ["lit", [1, 2]], True, modes=["yaml"], key=["k"]),
        "jsonnet-numbers": make_case(rng, ["list", ["int"]], {"l": [big]}, modes=["yaml", "jsonnet"], key=["k"]),
        "nested-item-no-string-fallback": make_case(rng, ["dict", False, ["str"]], {"d": [["k", "null"]]}, modes=["yaml"], key=["labels"]),
    }


# ---- history family (keys whose parsing consults the previous value of the key) ---------------------------------------
H_OPT = [{"name": "adam"}, {"lr": 3}, {"lr": 2, "name": "x"}, {}]
H_OPTS = [[{"name": "adam"}], [{"lr": 2}, {"name": "b"}], [], [{"lr": 7, "name": "z"}], [{}, {"name": "c"}]]
H_OMAP = [{"a": {"name": "adam"}}, {"a": {"lr": 2}, "b": {}}]
H_OOPT = [{"name": "q"}, None, {"lr": 9}]
H_CAL = [{"init_args": {"firstweekday": 2}}, {"class_path": "calendar.TextCalendar"},
         {"class_path": "calendar.HTMLCalendar", "init_args": {"firstweekday": 4}},
         {"class_path": "TextCalendar", "init_args": {"firstweekday": 1}}, {"init_args": {"firstweekday": 0}}]
P_OPTS = ['--opts=[{"lr": 5}]', '--opts=[{"lr": 5, "name": "p"}, {"lr": 6}]', "--cal=calendar.TextCalendar",
          '--cal={"class_path": "calendar.HTMLCalendar", "init_args": {"firstweekday": 6}}', "--opt.lr=8",
          '--omap={"a": {"lr": 6}}', '--oopt={"lr": 4}', "--steps=5"]
P_BAD_CFG = ['{"steps": "not-an-int"}', "steps: [1, 2]\n", '{"opts": [{"lr": "x"}]}', "{a: [", '{"cal": {"class_path": "calendar.Nope"}}',
             '{"opt": {"lr": []}}']
P_OK_CFG = ['{"steps": 4}', '{"opts": [{"lr": 9}]}', '{"cal": {"class_path": "calendar.TextCalendar"}}']   # JSON: accepted under every mode


def gen_hist(rng, mode):
    """settings + the argv of another parser's earlier parse_args call (accepted options, then mostly a --cfg whose value
    is rejected; also accepted --cfg values, a rejected option, and nothing after the rejected --cfg)"""
    s = {}
    if rng.random() < 0.5:
        s["opt"] = rng.choice(H_OPT)
    if rng.random() < 0.75:
        s["opts"] = rng.choice(H_OPTS)
    if rng.random() < 0.3:
        s["omap"] = rng.choice(H_OMAP)
    if rng.random() < 0.3:
        s["oopt"] = rng.choice(H_OOPT)
    if rng.random() < 0.75:
        s["cal"] = rng.choice(H_CAL)
    if rng.random() < 0.6 or not s:
        s["steps"] = rng.randint(0, 9)
    s = {k: v for k, v in s.items() if not (k == "opt" and v == {})}
    poison = [["opt", o] for o in rng.sample(P_OPTS, rng.randint(1, 4))]
    seen = set()
    poison = [p for p in poison if not (p[1].split("=")[0].split(".")[0] in seen or seen.add(p[1].split("=")[0].split(".")[0]))]
    r = rng.random()
    if r < 0.7:
        poison.append([rng.choice(["cfg", "cfgfile"]), rng.choice(P_BAD_CFG), False])
    elif r < 0.85:
        poison.append([rng.choice(["cfg", "cfgfile"]), rng.choice(P_OK_CFG), True])
        if rng.random() < 0.5:
            poison.append([rng.choice(["cfg", "cfgfile"]), rng.choice(P_BAD_CFG), False])
    else:
        poison.append(["badopt", "--steps=many"])
    if rng.random() < 0.2:
        poison.append(["opt", "--steps=6"])
    return {"kind": "hist", "mode": mode, "poison_mode": rng.choice(MODES[:2]), "settings": s, "poison": poison}


# ---- sub-command family ------------------------------------------------------------------------------------------------------
TAME = [["int"], ["float"], ["bool"], ["str"], ["list", ["int"]], ["list", ["str"]], ["list", ["float"]], ["union", [["int"], ["none"]]],
        ["dict", False, ["int"]], ["tuple", [["int"], ["str"]]], ["enum", ["a", "b"]], ["set", ["int"]], ["tuplevar", ["float"]]]


def tame_value(rng, t):
    """a value the type accepts through every channel: plain words for strings, no None"""
    k = t[0]
    if k == "str":
        return rng.choice(WORDS)
    if k == "int":
        return {"i": str(rng.randint(-1000, 1000))}
    if k == "float":
        return gen_float_tag(rng) if rng.random() < 0.8 else {"i": str(rng.randint(-50, 50))}
    if k == "bool":
        return rng.random() < 0.5
    if k == "enum":
        return rng.choice(t[1])
    if k == "union":
        return tame_value(rng, t[1][0])
    if k in ("list", "set", "tuplevar"):
        return {"l": [tame_value(rng, t[1]) for _ in range(rng.choice([0, 1, 2, 3]))]}
    if k == "tuple":
        return {"l": [tame_value(rng, x) for x in t[1]]}
    if k == "dict":
        return {"d": [[kk, tame_value(rng, t[2])] for kk in sorted(rng.sample(WORDS, rng.randint(0, 3)))]}
    raise ValueError(t)


def gen_sub(rng, modes):
    """a parser with sub-commands: one top-level key and 1-3 keys of the chosen sub-command (not necessarily the first)"""
    def leaf(name):
        t = rng.choice(TAME)
        v = tame_value(rng, t)
        return {"name": name, "ty": t, "val": v, "text": top_text(v)}

    subs = rng.choice([["fit", "test"], ["train", "eval", "predict"], ["a", "b_c"]])
    chosen = rng.choice(subs)
    leaves = [leaf(n) for n in rng.sample(["lr", "tags", "num_items", "my_opt", "depth"], rng.randint(1, 3))]
    top = leaf("top")
    inner = ", ".join("%s: %s" % (json.dumps(l["name"]), json_text(l["val"])) for l in leaves)
    doc = '{"top": %s, "subcommand": %s, %s: {%s}}' % (json_text(top["val"]), json.dumps(chosen), json.dumps(chosen), inner)
    return {"kind": "sub", "prefix": rng.choice(PREFIXES), "modes": modes, "subs": subs, "chosen": chosen, "top": top,
            "leaves": leaves, "doc": doc}


# ---- options with nargs / choices / a plain callable type ---------------------------------------------------------------
P_WORDS = ["a", "b", "abc", "xy", "k1", "Hello", "zed", "c"]
P_NARGS = [None, None, "?", "*", "+", "+", 1, 2, 3]


def gen_plain(rng, modes):
    """one option declared with (plain callable | type hint | no type) x nargs x choices and one setting for it"""
    pf = rng.choice(["pos", "pos", "up", "up", "none", ["hint", ["int"]], ["hint", ["float"]], ["hint", ["str"]],
                     ["hint", ["union", [["int"], ["none"]]]], ["hint", ["list", ["int"]]]])
    nargs = rng.choice(P_NARGS)
    islist = nargs in ("*", "+") or isinstance(nargs, int)
    if not islist:
        n = 1
    elif isinstance(nargs, int):
        n = nargs if rng.random() < 0.85 else rng.choice([k for k in (1, 2, 3, 4) if k != nargs])   # else: a count the pattern refuses
    elif nargs == "+":
        n = rng.choice([1, 1, 2, 3]) if rng.random() < 0.9 else 0
    else:
        n = rng.choice([0, 1, 2, 3])
    kind = pf if isinstance(pf, str) else pf[1][0]

    def one():
        if kind == "pos":
            r = rng.random()
            return {"i": str(rng.randint(1, 40))} if r < 0.85 else {"i": str(rng.randint(-5, 0))} if r < 0.93 else rng.choice(P_WORDS)
        if kind in ("up", "none", "str"):
            return rng.choice(P_WORDS)
        if kind == "float":
            return gen_float_tag(rng) if rng.random() < 0.6 else {"i": str(rng.randint(0, 50))}
        if kind == "list":
            return {"l": [{"i": str(rng.randint(0, 9))} for _ in range(rng.randint(0, 3))]}
        return {"i": str(rng.randint(-20, 40))} if rng.random() < 0.9 else rng.choice(P_WORDS)   # int, Optional[int]

    vals = [one() for _ in range(n)]
    toks = [top_text(v) for v in vals]
    if len(toks) != 1:
        # several values follow the option string only when none of them looks like an option
        vals = [({"i": str(abs(int(v["i"])))} if isinstance(v, dict) and "i" in v else v) for v in vals]
        vals = [({"f": v["f"].lstrip("-")} if isinstance(v, dict) and "f" in v else v) for v in vals]
        toks = [top_text(v) for v in vals]
    choices = None
    if rng.random() < 0.45 and kind not in ("float", "list"):
        if kind in ("pos", "int", "union"):
            pool = [{"i": str(k)} for k in (1, 2, 3, 5, 8, 13, 21, 34)]
        elif kind == "up":
            pool = [w.upper() for w in P_WORDS]
        else:
            pool = list(P_WORDS)
        choices = rng.sample(pool, rng.randint(2, 5))
        if rng.random() < 0.75:     # mostly settings among the choices
            for v in vals:
                c = v.upper() if kind == "up" and isinstance(v, str) else v
                if c not in choices and isinstance(c, str) == isinstance(choices[0], str):
                    choices.append(c)
        if kind in ("int", "union") and rng.random() < 0.8:
            choices = None          # type hint + non-string choices: the listed finding, kept rare
    if islist:
        envtext = "[" + ", ".join(json_text(v) for v in vals) + "]"
        if len(vals) == 1 and rng.random() < 0.5 and kind != "list":
            envtext = toks[0]       # a single value may be given bare
    else:
        envtext = toks[0]
    return {"kind": "plain", "pf": pf, "nargs": nargs, "choices": choices, "vals": vals, "toks": toks, "envtext": envtext,
            "key": rng.choice(["k", "my_key", "g.k", "g.sub.num_k"]), "prefix": rng.choice(PREFIXES), "modes": modes}


def known_plain():
    return {
        "nargs-count-unchecked": {"kind": "plain", "pf": "pos", "nargs": 2, "choices": None, "vals": [{"i": "5"}], "toks": ["5"],
                                  "envtext": "[5]", "key": "k", "prefix": "APP", "modes": ["yaml"]},
        "typed-choices-raw-argv": {"kind": "plain", "pf": ["hint", ["int"]], "nargs": None, "choices": [{"i": "1"}, {"i": "2"}, {"i": "3"}],
                                   "vals": [{"i": "2"}], "toks": ["2"], "envtext": "2", "key": "k", "prefix": "APP", "modes": ["yaml"]},
    }


def generate(rng, tier):
    ensure_judge()
    cases = list(known_cases(rng).values())
    cases.append(make_case(rng, ["any"], {"l": [{"f": "19974.0"}, False]}, modes=["yaml", "jsonnet"], key=["g", "k"]))
    cases.append(make_case(rng, ["set", ["int"]], {"l": [{"i": "3"}, {"i": "1"}]}, key=["items"]))
    cases.append(make_case(rng, ["enum", ["a", "b"]], "a", key=["g", "values"]))
    n = 220 if tier == "quick" else 2000
    # every look-alike string at a str-typed position, and at the scalar types
    for s in LOOKALIKES + WORDS:
        cases.append(make_case(rng, ["str"], s))
    for s in LOOKALIKES:
        for t in (["union", [["str"], ["none"]]], ["list", ["str"]], ["dict", False, ["str"]]):
            v = s if t[0] == "union" else ({"l": [s, "a"]} if t[0] == "list" else {"d": [["k", s]]})
            cases.append(make_case(rng, t, v, modes=["yaml", rng.choice(MODES[1:])] if tier == "quick" else None))
    # texts PyYAML reads as a mapping / sequence (some of which the OmegaConf loader refuses: ?, {? : 1}): at a str position,
    # as a Dict[str, str] entry (whole value and entry by entry) and under Any, with an omegaconf-mode parser next to yaml
    for s in LOOKALIKES:
        if any(ch in s for ch in "?{[:") and "${" not in s:
            for t, v in ((["dict", False, ["str"]], {"d": [["k", s]]}), (["str"], s), (["any"], s)):
                cases.append(make_case(rng, t, v, modes=["yaml", "omegaconf"]))
    # the empty string (and a blank) at str-typed positions under every key shape, so that every channel variant
    # (both environment forms, every document form, every prefix) carries it in a good number of cases
    for key in KEYS:
        for t, v in ((["str"], ""), (["union", [["str"], ["none"]]], ""), (["str"], " "), (["list", ["str"]], {"l": ["", "a"]})):
            cases.append(make_case(rng, t, v, key=key, modes=["yaml", rng.choice(MODES[1:])] if tier == "quick" else None))
    # leaves named like Namespace attributes below one or two branches, with types whose adaptation changes the value
    for key in CLASH_KEYS:
        for t, v in CLASH_SETTINGS:
            cases.append(make_case(rng, t, v, key=key, modes=["yaml", rng.choice(MODES[1:])] if tier == "quick" else None))
    for _ in range(n):
        t = finish_type(rng, gen_type(rng, rng.choice([0, 1, 1, 2, 2, 3])))
        v = gen_value(rng, t, 0.85)
        if not finite(v):
            continue
        if '"float"' in json.dumps(t):
            v = clamp_ints(v)
        c = make_case(rng, t, v, modes=None if tier == "thorough" or rng.random() < 0.35 else ["yaml", rng.choice(MODES[1:])])
        if tier == "thorough" and rng.random() < 0.25:
            c["full"] = True   # every channel variant under every mode, not only under yaml
        if rng.random() < 0.3:
            c["after"] = rng.choice(['{"other": "not-an-int"}', "other: [1]\n", "{a: ["])
        cases.append(c)
    for _ in range(40 if tier == "quick" else 300):
        cases.append(gen_hist(rng, rng.choice(MODES)))
    cases += list(known_plain().values())
    for _ in range(90 if tier == "quick" else 500):
        cases.append(gen_plain(rng, list(MODES) if tier == "thorough" and rng.random() < 0.3 else ["yaml", rng.choice(MODES[1:])]))
    for _ in range(35 if tier == "quick" else 150):
        cases.append(gen_sub(rng, list(MODES) if tier == "thorough" and rng.random() < 0.3 else ["yaml", rng.choice(MODES[1:])]))
    # entries of an enable_path option whose text names a readable file of the runner's working directory (appended last:
    # the cases above do not depend on them)
    for fn in sorted(FILE_NAMES):
        for key in (["labels"], ["g", "k"]):
            cases.append(make_case(rng, ["dict", False, ["str"]], {"d": [["doc", fn], ["n", "x"]]}, key=key, modes=["yaml", rng.choice(MODES[1:])]))
    return cases


# ---------------------------------------------------------------------------------------------------------------------
# observation
# ---------------------------------------------------------------------------------------------------------------------
_LAST = {}   # the main run's cases and observations, for search(): a broken tie is located without running anything again


def observe(cases):
    if not cases:
        return []
    n = min(fw.JOBS, len(cases))
    res = run_impl_parallel("c05_channels.py", [{"cases": cases[k::n]} for k in range(n)], timeout=2700)
    out = [None] * len(cases)
    for k, r in enumerate(res):
        for i, o in zip(range(k, len(cases), n), r):
            if "error" in o:
                raise fw.ImplCrash("c05 runner: %s on %r" % (o["error"], cases[i]))
            out[i] = o
    if len(cases) >= len(_LAST.get("cases", [])):
        _LAST["cases"], _LAST["obs"] = list(cases), list(out)
    return out


# ---------------------------------------------------------------------------------------------------------------------
# translation (shared resolver tables) and Gallina printing
# ---------------------------------------------------------------------------------------------------------------------
def translate():
    from tie import scalar_tables

    info, _ = scalar_tables.regenerate()
    return info


def g_float(rep):
    from decimal import Decimal

    if rep == "nan":
        return "(VFloat FNan)"
    if rep in ("inf", "-inf"):
        return "(VFloat (FInf %s))" % g_bool(rep.startswith("-"))
    sign, digits, exp = Decimal(rep).as_tuple()
    m = int("".join(map(str, digits)))
    if m == 0:
        return "(VFloat (FFin 0 0))"
    while m % 10 == 0:
        m //= 10
        exp += 1
    return "(VFloat (FFin %s %s))" % (g_Z(-m if sign else m), g_Z(exp))


def g_val(v):
    if v is None:
        return "VNone"
    if isinstance(v, bool):
        return "(VBool %s)" % g_bool(v)
    if isinstance(v, str):
        return "(VStr %s)" % g_str(v)
    if "i" in v:
        return "(VInt %s)" % g_Z(int(v["i"]))
    if "f" in v:
        return g_float(v["f"])
    if "l" in v:
        return "(VList %s)" % g_list([g_val(x) for x in v["l"]], "val")
    if "t" in v:
        return "(VTuple %s)" % g_list([g_val(x) for x in v["t"]], "val")
    if "s" in v:
        return "(VSet %s)" % g_list([g_val(x) for x in v["s"]], "val")
    if "d" in v:
        return "(VDict %s)" % g_list([g_pair(g_val(k), g_val(x)) for k, x in v["d"]], "(val * val)")
    if "e" in v:
        return "(VEnum %s %s)" % (g_str(v["e"][0]), g_str(v["e"][1]))
    if "o" in v:
        return "(VOpaque %s %s)" % (g_str(v["o"][0]), g_str(v["o"][1][:40]))
    raise ValueError(v)


def g_lit(x):
    if x is None:
        return "LNone"
    if isinstance(x, bool):
        return "(LBool %s)" % g_bool(x)
    if isinstance(x, int):
        return "(LInt %s)" % g_Z(x)
    return "(LStr %s)" % g_str(x)


def g_ty(t):
    k = t[0]
    simple = {"str": "TStr", "int": "TInt", "float": "TFloat", "bool": "TBool", "none": "TNone", "any": "TAny"}
    if k in simple:
        return simple[k]
    if k == "lit":
        return "(TLit %s)" % g_list([g_lit(x) for x in t[1]], "lit")
    if k == "enum":
        return "(TEnum %s %s)" % (g_str("E"), g_list([g_str(m) for m in t[1]], "str"))
    if k == "union":
        return "(TUnion %s)" % g_list([g_ty(x) for x in t[1]], "ty")
    if k == "list":
        return "(TList %s)" % g_ty(t[1])
    if k == "dict":
        return "(TDict %s %s)" % (g_bool(t[1]), g_ty(t[2]))
    if k == "tuple":
        return "(TTuple %s)" % g_list([g_ty(x) for x in t[1]], "ty")
    if k == "tuplevar":
        return "(TTupleVar %s)" % g_ty(t[1])
    if k == "set":
        return "(TSet %s)" % g_ty(t[1])
    raise ValueError(t)


def g_lres(a):
    if a[0] == "val":
        return "(LVal %s)" % g_val(a[1])
    if a[0] == "yamlerr":
        return "LYamlErr"
    return "LValErr"


def g_obs(o):
    if o[0] == "ok":
        return "(Accepted %s)" % g_val(o[1])
    if o[0] == "rejected":
        return "Rejected"
    return "Crashed"


CHANNELS = {"object_mixed": "ChObject", "argv_eq": "ChArgv", "argv_sp": "ChArgv", "argv_nested_eq": "ChArgv", "argv_nested_sp": "ChArgv", "env": "ChEnv", "env_args": "ChEnv", "object_nested": "ChObject",
            "object_dotted": "ChObject", "string": "ChDoc", "path": "ChDoc", "cfgfile": "ChDoc", "cfgstr": "ChDoc",
            "default_config": "ChDoc", "cfgenv": "ChCfgEnv"}


def observations(obs):
    """[(mode, channel constructor, loaded answer or None, outcome)] without repetitions"""
    out, seen = [], set()
    for name, oc in obs["chan"].items():
        mode, rest = name.split("/", 1)
        if rest == "poison":
            continue   # the rejected call of the other parser: not a channel of this setting
        ch, _, doc = rest.partition(":")
        ch = ch.replace("@after", "")
        loaded = obs["loaded"].get(mode + "/" + doc) if doc else None
        nested = ch.startswith("argv_nested")
        item = (mode, CHANNELS[ch], json.dumps(loaded), json.dumps(oc), nested) if mode in ("yaml", "omegaconf") else \
               ("", CHANNELS[ch], json.dumps(loaded), json.dumps(oc), nested)
        if item not in seen:
            seen.add(item)
            out.append((mode, CHANNELS[ch], loaded, oc, nested))
    return out


def json_num_class(text):
    """1 / 2 / 0: Python's json module reads the text (as it stands, no surrounding blanks) as an int / a float / neither"""
    def no_const(_):
        raise ValueError

    try:
        x = json.loads(text, parse_constant=no_const)
    except ValueError:
        return 0
    if text != text.strip() or isinstance(x, bool):
        return 0
    return 1 if isinstance(x, int) else 2 if isinstance(x, float) else 0


def term_hist(case, obs):
    script = []
    for item in case["poison"]:
        script.append("POpt" if item[0] == "opt" else "PBadOpt" if item[0] == "badopt" else "(PCfg %s)" % g_bool(item[2]))
    hobs = ["{| h_clean := %s; h_after := %s |}" % (g_obs(c), g_obs(a)) for c, a in obs["hist"].values()]
    return ("History {| h_script := %s; h_rejected := %s; h_obs := %s |}"
            % (g_list(script, "pitem"), g_bool(obs["poison"] == "rejected"), g_list(hobs, "hob")))


def sub_leaves(case):
    return [dict(case["top"], key="top")] + [dict(l, key=case["chosen"] + "." + l["name"]) for l in case["leaves"]]


def g_nargs(na):
    return {None: "NOne", "?": "NOpt", "*": "NStar", "+": "NPlus"}.get(na) if not isinstance(na, int) else "(NNum %d)" % na


def term_plain(case, obs):
    pf = case["pf"]
    gpf = {"none": "PfNone", "pos": "PfPos", "up": "PfUp"}.get(pf) if isinstance(pf, str) else "(PfHint %s)" % g_ty(pf[1])
    islist = case["nargs"] in ("*", "+") or isinstance(case["nargs"], int)
    val = {"l": case["vals"]} if islist else case["vals"][0]
    obl = ["{| o_yaml := %s; o_oc := false; o_chan := %s; o_loaded := %s; o_nested := false; o_obs := %s |}"
           % (g_bool(m == "yaml"), ch, "None" if ld is None else "(Some %s)" % g_lres(ld), g_obs(oc))
           for m, ch, ld, oc, _ in observations(obs)]
    oracle = [g_pair(g_str(s), g_lres(a)) for s, a in obs["oracle"]]
    return ("Plain {| p_fun := %s; p_nargs := %s; p_choices := %s; p_toks := %s; p_text := %s; p_val := %s; p_oracle := %s; p_obs := %s |}"
            % (gpf, g_nargs(case["nargs"]), g_list([g_val(c) for c in case["choices"] or []], "val"),
               g_list([g_str(t) for t in case["toks"]], "str"), g_str(case["envtext"]), g_val(val),
               g_list(oracle, "(str * lres)"), g_list(obl, "ob")))


def term(case, obs):
    if case.get("kind") == "hist":
        return term_hist(case, obs)
    if case.get("kind") == "plain":
        return term_plain(case, obs)
    if case.get("kind") == "sub":
        return "Group %s" % g_list([term_setting(l, o) for l, o in zip(sub_leaves(case), obs["leaves"])], "case")
    return "Setting (%s)" % term_setting(case, obs)


def term_setting(case, obs):
    has_oc = bool(obs.get("oracle_oc"))
    obl = ["{| o_yaml := %s; o_oc := %s; o_chan := %s; o_loaded := %s; o_nested := %s; o_obs := %s |}"
           % (g_bool(m == "yaml"), g_bool(m == "omegaconf" and has_oc), ch, "None" if ld is None else "(Some %s)" % g_lres(ld),
              g_bool(nd), g_obs(oc))
           for m, ch, ld, oc, nd in observations(obs)]
    oracle_oc = [g_pair(g_str(s), g_lres(a)) for s, a in obs.get("oracle_oc", [])]
    items = g_list([g_pair(g_str(k), g_str(t)) for k, t in (case.get("items") or [])], "(str * str)")
    oracle = [g_pair(g_str(s), g_lres(a)) for s, a in obs["oracle"]]
    return ("{| c_ty := %s; c_val := %s; c_text := %s; c_clash := %s; c_jsonnet := %s; c_items := %s; c_json_num := %d%%N; c_oracle := %s; c_oracle_oc := %s; c_obs := %s |}"
            % (g_ty(case["ty"]), g_val(case["val"]), g_str(case["text"]), g_bool(obs["clash"]),
               g_bool(any(n.startswith("jsonnet/") for n in obs["chan"])), items, json_num_class(case["text"]), g_list(oracle, "(str * lres)"), g_list(oracle_oc, "(str * lres)"),
               g_list(obl, "ob")))


# ---------------------------------------------------------------------------------------------------------------------
# evidence helpers
# ---------------------------------------------------------------------------------------------------------------------
def nontrivial_key(case, obs):
    if case.get("kind") in ("hist", "sub", "plain"):
        return json.dumps(case, sort_keys=True)
    if len(obs["chan"]) < 8:
        return None
    return json.dumps([case["ty"], case["val"], case["key"], case["prefix"], case["hyphen"], case["modes"]], sort_keys=True)


def vkind(v):
    if v is None:
        return "null"
    if isinstance(v, bool):
        return "bool"
    if isinstance(v, str):
        return "str"
    return {"i": "int", "f": "float", "l": "list", "d": "dict"}[next(iter(v))]


def category(case, obs):
    if case.get("kind") == "plain":
        kinds = {o[0] for o in obs["chan"].values()}
        outs = {json.dumps(o) for o in obs["chan"].values()}
        how = "all accept" if kinds == {"ok"} and len(outs) == 1 else "all reject" if kinds == {"rejected"} else "channels differ"
        return "nargs/choices: %s nargs=%s%s, %d values / %s" % (case["pf"] if isinstance(case["pf"], str) else "hint " + case["pf"][1][0],
                                                                 case["nargs"], " choices" if case["choices"] else "", len(case["vals"]), how)
    if case.get("kind") == "sub":
        outs = {json.dumps(o) for l in obs["leaves"] for o in l["chan"].values()}
        same = all(len({json.dumps(o) for o in l["chan"].values()}) == 1 for l in obs["leaves"])
        return "sub-commands: %d of %d chosen, %d keys / %s" % (case["subs"].index(case["chosen"]) + 1, len(case["subs"]),
                                                                len(case["leaves"]) + 1, "channels agree" if same else "channels differ")
    if case.get("kind") == "hist":
        same = all(c == a for c, a in obs["hist"].values())
        return "history: %d-item earlier call %s / %s" % (len(case["poison"]), obs["poison"], "same answers after" if same else "answers changed")
    outs = {json.dumps(o) for o in obs["chan"].values()}
    kinds = {o[0] for o in obs["chan"].values()}
    how = "all accept" if kinds == {"ok"} and len(outs) == 1 else "all reject" if kinds == {"rejected"} else "channels differ"
    return "%s <- %s / %d-part key / %s" % (case["ty"][0], vkind(case["val"]), len(case["key"]), how)


def describe(case, obs):
    if case.get("kind") == "plain":
        groups = {}
        for name, oc in obs["chan"].items():
            groups.setdefault(json.dumps(oc), []).append(name)
        return {"option": "add_argument('--%s', type=%s, nargs=%r, choices=%s)" % (
                    case["key"], {"pos": "pos (int(x) > 0)", "up": "up (str.upper)", "none": "None"}.get(case["pf"]) if isinstance(case["pf"], str)
                    else case["pf"][1], case["nargs"], None if case["choices"] is None else [untag(c) for c in case["choices"]]),
                "env_prefix": case["prefix"], "environment variable": obs.get("envvar"),
                "values following the option string": case["toks"], "text in the environment variable": case["envtext"],
                "value given to parse_object / written into the documents": [untag(v) for v in case["vals"]],
                "outcome -> channels (mode/channel[:document])": {k: sorted(v) for k, v in groups.items()}}
    if case.get("kind") == "sub":
        per = {}
        for l in obs["leaves"]:
            groups = {}
            for name, oc in l["chan"].items():
                groups.setdefault(json.dumps(oc), []).append(name)
            per[l["key"]] = {k: sorted(v) for k, v in groups.items()}
        return {"parser": "--cfg, --top: %s, sub-commands %s; %s has %s" % (case["top"]["ty"], case["subs"], case["chosen"],
                                                                          {l["name"]: l["ty"] for l in case["leaves"]}),
                "env_prefix": case["prefix"], "settings document": case["doc"],
                "environment mapping (given to parse_env; set in os.environ for parse_args(env=True))": obs.get("envmap"),
                "key -> outcome -> channels (mode/channel)": per}
    if case.get("kind") == "hist":
        return {"parser": "opt: dataclass(lr: int = 1, name: str = 'sgd'), opts: List[it], omap: Dict[str, it], oopt: Optional[it], "
                          "cal: calendar.Calendar (subclass type), steps: int = 3, cfg: ActionConfigFile; a fresh parser per call",
                "parser_mode": case["mode"], "settings": case["settings"],
                "earlier parse_args call on another parser (mode %s)" % case.get("poison_mode"): obs.get("poison_argv"),
                "that call was": obs["poison"],
                "channel -> [answer in a clean state, answer after that call]": obs["hist"]}
    groups = {}
    for name, oc in obs["chan"].items():
        groups.setdefault(json.dumps(oc), []).append(name)
    return {"type": case["ty"], "key": ".".join(case["key"]), "option declared with hyphens": case["hyphen"], "env_prefix": case["prefix"],
            "environment variable": obs.get("envvar"), "setting": case["val"], "text on argv / in the environment": case["text"],
            "documents": case["docs"], "key has a Namespace clash-name component": obs.get("clash"),
            "outcome -> channels (mode/channel[:document])": {k: sorted(v) for k, v in groups.items()},
            "document loaders answered": obs["loaded"]}


def shrink(case):
    if case.get("kind") == "plain":
        if len(case["modes"]) > 1:
            for m in case["modes"]:
                yield dict(case, modes=[m])
        if case["key"] != "k":
            yield dict(case, key="k")
        if case["prefix"] != "APP":
            yield dict(case, prefix="APP")
        return
    if case.get("kind") == "sub":
        if len(case["modes"]) > 1:
            for m in case["modes"]:
                yield dict(case, modes=[m])
        for i in range(len(case["leaves"])):
            if len(case["leaves"]) > 1:
                ls = case["leaves"][:i] + case["leaves"][i + 1:]
                inner = ", ".join("%s: %s" % (json.dumps(l["name"]), json_text(l["val"])) for l in ls)
                yield dict(case, leaves=ls, doc='{"top": %s, "subcommand": %s, %s: {%s}}' % (
                    json_text(case["top"]["val"]), json.dumps(case["chosen"]), json.dumps(case["chosen"]), inner))
        return
    if case.get("kind") == "hist":
        for i in range(len(case["poison"])):
            yield dict(case, poison=case["poison"][:i] + case["poison"][i + 1:])
        for k in case["settings"]:
            if len(case["settings"]) > 1:
                yield dict(case, settings={a: b for a, b in case["settings"].items() if a != k})
        return

    def redo(c):
        c = dict(c)
        c["text"] = top_text(c["val"])
        c["docs"] = make_docs(c["key"], c["val"])
        if c.get("mixed") and len(c["key"]) >= 2:
            inner = json_text(c["val"])
            for k in reversed(c["key"][1:]):
                inner = "{%s: %s}" % (json.dumps(k), inner)
            c["docs"]["json_mixed"] = "{%s: %s, %s: 4}" % (json.dumps(c["key"][0]), inner, json.dumps(c["key"][0] + ".zz.deep"))
        else:
            c["mixed"] = False
        if c.get("items"):
            c["items"] = [[k, top_text(x)] for k, x in c["val"].get("d", [])] or None
        return c

    if len(case["modes"]) > 1:
        for m in case["modes"]:
            yield dict(case, modes=[m])
        yield dict(case, modes=["yaml"] + [m for m in case["modes"] if m != "yaml"][:1])
    if case["hyphen"]:
        yield dict(case, hyphen=False)
    if case["prefix"] != "APP":
        yield dict(case, prefix="APP")
    if len(case["key"]) > 1:
        yield redo(dict(case, key=case["key"][-1:]))
    if case["key"] not in (["k"], ["items"]) and len(case["key"]) == 1:
        yield redo(dict(case, key=["k"]))
    v = case["val"]
    if isinstance(v, dict) and v.get("l"):
        for i in range(len(v["l"])):
            yield redo(dict(case, val={"l": v["l"][:i] + v["l"][i + 1:]}))
    if isinstance(v, dict) and v.get("d"):
        for i in range(len(v["d"])):
            yield redo(dict(case, val={"d": v["d"][:i] + v["d"][i + 1:]}))


META = {
    "level_text": "Six theorems (coq/Properties/C05.v, closed under the global context). C05_plain_channels_agree (round 6): "
                  "for options declared with nargs (? * + N), choices and / or a plain callable type — ANY element function, "
                  "choices, nargs pattern, tokens after the option string, environment text, loader and value: if the pattern "
                  "admits the number of tokens, the check reads tokens and loaded environment text as the value, argparse's raw-"
                  "string choice test agrees with the test of the adapted values (type hints), the check is a fixed point and "
                  "None only where admitted (plain_guard, evaluated per case), then environment, object / document and config-"
                  "via-environment store what the command line stores or all reject (model of _check_value_key's type and "
                  "choices blocks, _load_env_vars' list loading, argparse's value collection; Model/C05Plain.v); witnesses "
                  "C05_nargs_count_refuted, C05_typed_choices_refuted for the two premises. C05_history_independent: after any "
                  "history of parse_args calls (accepted, rejected by an option, rejected while a --cfg value is applied) the "
                  "previous_config ContextVar that parse_string / parse_path read is what it was before, so an earlier call "
                  "cannot make those two channels answer differently from the others (model of previous_config_context with "
                  "its try/finally; without it a counter-example is proved). C05_channels_agree: for ANY type check, "
                  "type hint, text and value — if the check takes the text for what it takes the value for, leaves its own "
                  "result alone and None is only given where admitted (guard, the same Gallina function the run evaluates per "
                  "case), then environment, object / config-document and config-via-environment channels store exactly what the "
                  "command line stores, or all reject (model of the four code paths: action call + validate, _load_env_vars, "
                  "_apply_actions under lenient_check, twice for a config named in the environment). "
                  "C05_str_position_all_channels: for every string and every loader all channels store the string itself at a "
                  "str position. C05_scalar_text_is_object: for int/float/bool/None positions, every loader, every text and every "
                  "non-string value the loader reads it as, the guard holds. C05_json_scalars_in_yaml: every JSON integer / "
                  "JSON fraction-or-exponent number is resolved by the regenerated YAML loader table to int / float (verified "
                  "regex inclusion), true/false/null to the literals. Three _refuted witnesses (None unchecked, clash-named "
                  "keys unadapted, Literal ==). Correspondence: the real parser through up to 24 channel variants x 4 parser "
                  "modes per setting; model agreement, guard class and agreement of all channels computed inside Coq.",
    "level_note": "Proved for all inputs: the channel pipeline (any type; since round 6 also any nargs / choices / callable), "
                  "str positions, scalar positions, JSON-number tags. That plain_guard holds for the two callables of the run "
                  "is exercised by the correspondence only. "
                  "Only exercised by the correspondence: that the guard holds for container / Union / Literal / Enum / Any types "
                  "(text read as the loaded object, fixed point — the latter is property C10), construction of the number from a "
                  "resolved scalar, document syntax (PyYAML/json/jsonnet/OmegaConf are external: their answer for each document "
                  "is an observed input of the model), dotted vs nested spelling, env-var naming, hyphen/underscore option "
                  "names, and all non-yaml parser modes (judged against the spec, not the model). Trusted: Coq kernel/VM, the "
                  "C02-owned model of _check_type, the harness. No axioms.",
    "technique": "Rocq proof of the channel pipeline by refinement to one type-check function + case analysis on the pinned "
                 "_check_type for str/scalar positions + verified regex-inclusion certificate on regenerated resolver tables; "
                 "correspondence over every channel x parser mode evaluated in Coq",
}


# ---------------------------------------------------------------------------------------------------------------------
# when a proof or the tie broke: look for a concrete failing input
# ---------------------------------------------------------------------------------------------------------------------
def ensure_judge():
    """The judge does not depend on the theorems; when the proofs no longer build (make stops, possibly leaving the judge
    behind a regenerated table) build it on its own so that the correspondence can still find the failing input."""
    import os

    def mtime(p):
        p = os.path.join(fw.COQ, p)
        return os.path.getmtime(p) if os.path.exists(p) else 0

    if mtime("Corr/C05Judge.vo") < max(mtime("Gen/C01Resolvers.vo"), mtime("Model/TyLoader.vo"), mtime("Corr/C05Judge.v")) \
            or mtime("Properties/C05.vo") < mtime("Gen/C01Resolvers.vo"):
        fw.build(["Corr/C05Judge.vo"])


def checker_witnesses():
    """counter-examples of the verified inclusion checker: JSON numbers the loader table does not resolve to int / float"""
    import os
    import re as _re
    import shutil
    import subprocess
    import tempfile

    d = tempfile.mkdtemp(prefix="jv_c05w_")
    try:
        with open(os.path.join(d, "w.v"), "w") as f:
            f.write("From JV Require Import Lib.Base Lib.Regex Model.Scalar Model.C05Channels Gen.C01Resolvers.\n"
                    "Eval vm_compute in (witness 4000 (And json_int_re (Not (tag_re loader_table TgInt)))).\n"
                    "Eval vm_compute in (witness 4000 (And json_float_re (Not (tag_re loader_table TgFloat)))).\n")
        p = subprocess.run("cd %s && timeout 300 coqc -Q %s JV w.v" % (d, fw.COQ), shell=True, stdout=subprocess.PIPE,
                           stderr=subprocess.STDOUT, timeout=400)
        out = p.stdout.decode(errors="replace")
        res = []
        for m in _re.finditer(r"=\s*Some\s*\[([0-9;\s%N]*)\]", out):
            res.append("".join(chr(int(x.replace("%N", ""))) for x in m.group(1).split(";") if x.strip()))
        return res
    finally:
        shutil.rmtree(d, ignore_errors=True)


def first_bad(cases, obs, tag):
    bm, bi, bo = fw.judge_cases(sys.modules[__name__], cases, obs, tag=tag)
    known = fw.load_known_findings(PROP)
    bad = sorted(set(bi) | {i for i, k in bo if FINDING_CLASSES.get(k) not in known}) or sorted(set(bm))
    if not bad:
        return None
    i = bad[0]
    return {"case": cases[i], "observed": obs[i], "explain": describe(cases[i], obs[i])}


def search(rng, tier, broken):
    ensure_judge()
    if _LAST.get("cases"):
        # the run that found the tie broken has the input already: judge its cases once more (no implementation run) and
        # hand out a spec failure if there is one, else the first case on which model and implementation differ
        try:
            hit = first_bad(_LAST["cases"], _LAST["obs"], "y")
            if hit:
                return hit
        except Exception:
            pass
    texts = []
    try:
        texts = checker_witnesses()
    except Exception:
        pass
    texts += ["1e+16", "1e-07", "1e5", "2E5", "-3e2", "0e0", "1.5e300", "12", "-7", "0", "0.5", "-0.25", "1.0e2", "1E+2", "12e-1"]
    cases = []
    for w in texts:
        try:
            x = json.loads(w)
        except ValueError:
            continue
        v = {"f": w} if isinstance(x, float) else {"i": w}
        for t in (["float"], ["int"], ["list", ["float"]], ["any"]):
            vv = {"l": [v]} if t[0] == "list" else v
            cases.append(make_case(rng, t, vv, key=["k"], modes=["yaml", "json", "omegaconf"]))
    cases += generate(rng, "quick")[:300]
    obs = observe(cases)
    bm, bi, bo = fw.judge_cases(sys.modules[__name__], cases, obs, tag="x")
    known = fw.load_known_findings(PROP)
    bad = sorted(set(bi) | {i for i, k in bo if FINDING_CLASSES.get(k) not in known} | set(bm))
    if not bad:
        return None
    i = bad[0]
    return {"case": cases[i], "observed": obs[i], "explain": describe(cases[i], obs[i])}

"""C20 — restricted and registered scalar types: jsonargparse.typing vs Model/C20Restricted.v,
Model/C20Registered.v vs Spec/C20RestrictedSpec.v (judge: Corr/C20Judge.v)."""
import ast
import itertools
import json
import os
from decimal import Decimal

from tie import framework
from tie.framework import TieBroken, g_bool, g_list, g_N, g_opt, g_str, g_Z, run_impl_parallel

PROP = "C20"
IMPORTS = ("From JV Require Import Lib.Base Lib.C20Text Lib.C20Regex Model.C20Base Model.C20Restricted "
           "Model.C20Registered Model.C20NumRegistry Model.C20RegisterType Corr.C20Judge.\nLocal Open Scope Z_scope.")
RULE = ("restricted numbers: every restriction list of 1 or 2 comparisons over {>,>=,<,<=,==,!=} x 2 reference values x "
        "{int,float} x {and,or} (thorough: plus seeded 3-comparison lists), each with candidates around the bounds, "
        "integral/non-integral floats, bools, numeric strings (signs, blanks, underscores, exponents, inf/nan), junk, "
        "None and lists, float-based types with references at 2^53 / 2^60 / 10^22 and INTEGER inputs that float() must round "
        "(2^53+1, 2^53+3, 2^60+129, 10^23, the OverflowError boundary), called directly as T(v) and through parse_args / parse_object; every generated type is created from a "
        "caller-owned list object that is changed after the creation (append / clear / replace / drop+insert, optionally "
        "followed by the creation of the next type from the same list), from a bare pair, or under its automatic name "
        "(name=None); 3-comparison lists in every tier; registry histories of number types: two calls of "
        "restricted_number_type with references of their own (permuted lists, 1 vs 1.0 spellings of a reference, another "
        "reference / operator / join / base type, a repeated comparison, references that are not of the base type, an unknown "
        "symbol; same name or another) x values around the references; the six predefined types by name; "
        "restricted strings: the predefined and generated regexes x strings incl. prefixes and trailing newlines, the regex "
        "handed over as text or as a compiled Pattern, with flags IGNORECASE / DOTALL / VERBOSE / MULTILINE (and (?i)) and "
        "strings whose match depends on the flag; registry histories: one pattern text registered twice with equal or "
        "different flags under one name or two; "
        "Decimals up to 70 significant digits, also under a lowered / raised decimal context precision; "
        "registered types: ranges/timedeltas/Decimals/secrets/complex/UUID/bytes/bytearray/pathlib values incl. extremes, "
        "serialised and read back through dump->parse_string, argv, a config file and a JSON dump, handed to "
        "parse_object as already typed values, and parsed repeatedly (same and fresh parser) with the value handed out "
        "modified in place between the parses when it is mutable, dumped under an Any-typed argument and dumped / read back "
        "inside Optional[T], List[T] and Dict[str, T] (string, json, config file, parse_object), plus the deserializers on "
        "mutated texts; secrets: equality / hash / len of the value read back against an equal and a different secret of the "
        "same length, dumps under Any and inside containers; register_type histories: for every built-in registered type and "
        "a class nobody registered, one call with the same pair / the defaults / another serializer / another deserializer / "
        "fail_already_registered=False / a uniqueness key (table restored afterwards). A case is non-trivial unless it is a plain in-range int; distinct = distinct "
        "(case, observation)")
TRUSTED = [
    "Coq 8.16.1 kernel + vm_compute",
    "tie/impl/c20_run.py (observation of the real jsonargparse.typing) and the Gallina printer in tie/props/c20.py",
    "translators of _operators1/_operators2, of the regexes (incl. the two timedelta patterns) and of the module-level "
    "register_type calls (tie/props/c20.py translate), fail-closed; regex translation exercised per run against Python re",
    "hand-written models coq/Model/C20Restricted.v, C20Registered.v, tied by per-case agreement evaluated inside Coq",
    "Python builtins int()/float() on text, str(timedelta), float(Decimal)/Decimal(float), complex, uuid, base64, pathlib, "
    "PyYAML/json scalar quoting (exercised by the correspondence only)",
]
ASSUMPTIONS = [
    "floats are modelled as fixed-point multiples of 10^-6 (|x| < 10^9), where Python's double comparisons are exact; "
    "generators stay inside that domain",
    "IGNORECASE is modelled for ASCII letters: patterns with non-ASCII characters under IGNORECASE fail closed and candidate "
    "strings avoid the non-ASCII characters that case-fold to ASCII (U+017F, U+212A, U+0130, U+0131); scoped inline flags, "
    "re.ASCII / re.LOCALE and anchors elsewhere than at the two ends of a pattern are not modelled (fail closed)",
    "text contains no non-ASCII decimal digits (Python's int()/float()/\\d accept them; the model's \\d is ASCII)",
    "an int handed to a float-based type is converted as Python does (nearest double, ties to even, OverflowError from "
    "2^1024 - 2^970 on: Lib/C20Text.float_of_int, shared by model and spec as a Python primitive and tied per case); numeric "
    "STRINGS and float literals beyond the fixed-point domain (|x| >= 10^9 with a fraction, or more than 15 digits) are not "
    "modelled and not generated; floats beyond it are integer-valued doubles written with all their digits",
    "number-type registry: Python's sorted() on (symbol, reference) pairs is modelled as an insertion sort under the tuple "
    "order (strings by code point, then references numerically); only 'the result is a permutation, equal up to == for equal "
    "inputs' is used; base_type / join outside {int, float} / {'and', 'or'} are typed away (ValueError in the code, not generated); "
    "the names already in jsonargparse.typing's globals() are not modelled (histories use names of their own)",
    "Decimal: float() and repr() are external functions; only the result of float() being a binary double is used "
    "(plus, for the pre-fix guard only, exactness on binary doubles of at most 15 digits); decimals are finite",
]
EXHAUSTIVE = {"quick": False, "thorough": False}
# class 1 is only computed when the source registers Decimal with `float` again (the defect repaired by /repo 5683186,
# listed `fixed:`): a revert is therefore reported as VIOLATION
FINDING_CLASSES = {1: "decimal-via-float", 2: "string-type-key-ignores-flags"}

OPS = [">", ">=", "<", "<=", "==", "!="]
OPNAMES = {"gt": "OpGt", "ge": "OpGe", "lt": "OpLt", "le": "OpLe", "eq": "OpEq", "ne": "OpNe"}

# the documented meaning of the predefined types (docstrings of jsonargparse.typing)
PREDEFINED = {
    "PositiveInt": ("int", "and", [(">", {"i": "0"})]),
    "NonNegativeInt": ("int", "and", [(">=", {"i": "0"})]),
    "PositiveFloat": ("float", "and", [(">", {"i": "0"})]),
    "NonNegativeFloat": ("float", "and", [(">=", {"i": "0"})]),
    "ClosedUnitInterval": ("float", "and", [(">=", {"i": "0"}), ("<=", {"i": "1"})]),
    "OpenUnitInterval": ("float", "and", [(">", {"i": "0"}), ("<", {"i": "1"})]),
}
PREDEFINED_STR = {"NotEmptyStr": r"^.*[^ ].*$", "Email": r"^[^@ ]+@[^@ ]+\.[^@ ]+$"}


class OutOfDomain(Exception):
    pass


# ------------------------------------------------------------------------------------------------
# translators (fail closed)
# ------------------------------------------------------------------------------------------------
def _typing_ast():
    path = os.path.join(framework.REPO, "jsonargparse", "typing.py")
    try:
        return ast.parse(open(path).read()), path
    except (OSError, SyntaxError) as e:
        raise TieBroken("cannot parse %s: %s" % (path, e))


def translate_operators(tree):
    ops1 = ops2 = None
    for node in tree.body:
        if isinstance(node, ast.Assign) and len(node.targets) == 1 and isinstance(node.targets[0], ast.Name):
            if node.targets[0].id == "_operators1":
                ops1 = node.value
            if node.targets[0].id == "_operators2":
                ops2 = node.value
    if not isinstance(ops1, ast.Dict):
        raise TieBroken("_operators1 is not a dict display")
    rows = []
    for k, v in zip(ops1.keys, ops1.values):
        if not (isinstance(k, ast.Attribute) and isinstance(k.value, ast.Name) and k.value.id == "operator"
                and k.attr in OPNAMES):
            raise TieBroken("_operators1 key outside operator.{gt,ge,lt,le,eq,ne}: %s" % ast.dump(k))
        if not (isinstance(v, ast.Constant) and isinstance(v.value, str)):
            raise TieBroken("_operators1 value is not a string literal: %s" % ast.dump(v))
        rows.append((OPNAMES[k.attr], v.value))
    want = ast.dump(ast.parse("{v: k for k, v in _operators1.items()}", mode="eval").body)
    if ops2 is None or ast.dump(ops2) != want:
        raise TieBroken("_operators2 is not the inversion `{v: k for k, v in _operators1.items()}`")
    # `import operator` must be the stdlib module
    if not any(isinstance(n, ast.Import) and any(a.name == "operator" and a.asname is None for a in n.names) for n in tree.body):
        raise TieBroken("`import operator` not found")
    body = "; ".join("(%s, %s)" % (o, g_str(s)) for o, s in rows)
    text = ("(* generated by tie/props/c20.py from jsonargparse/typing.py (_operators1); do not edit *)\n"
            "From JV Require Import Lib.Base Model.C20Base.\n"
            "Definition operators1 : list (opfn * str) :=\n  [%s].\n" % body)
    return text, rows


# --- regexes: sre parse tree -> Lib/C20Regex.rx ---------------------------------------------------
# Flags of a compiled pattern are resolved here: VERBOSE by the sre parser (layout and comments are gone from the
# tree), DOTALL (`.` = any character), IGNORECASE (literals and class ranges closed under ASCII case; non-ASCII
# pattern characters fail closed), MULTILINE (a final `$` holds before any newline: p_multi). Scoped inline flags,
# ASCII/LOCALE and anchors elsewhere than at the two ends fail closed.
_RX = {"icase": False, "dotall": False}
FLAG_BITS = {"I": 2, "M": 8, "S": 16, "X": 64}


def _close_case(ranges):
    out = list(ranges)
    for lo, hi in ranges:
        if hi >= 128:
            raise TieBroken("IGNORECASE with a non-ASCII pattern character is not modelled")
        a, b = max(lo, 65), min(hi, 90)
        if a <= b:
            out.append((a + 32, b + 32))
        a, b = max(lo, 97), min(hi, 122)
        if a <= b:
            out.append((a - 32, b - 32))
    return out


def _cls_items(items):
    """-> (negated, [(lo, hi)])"""
    import re._constants as C  # type: ignore

    neg, ranges = False, []
    for op, av in items:
        if op is C.NEGATE:
            neg = True
        elif op is C.LITERAL:
            ranges.append((av, av))
        elif op is C.RANGE:
            ranges.append((av[0], av[1]))
        elif op is C.CATEGORY and av is C.CATEGORY_DIGIT:
            ranges.append((48, 57))  # ASCII digits (see ASSUMPTIONS)
        else:
            raise TieBroken("regex class item not supported: %s %s" % (op, av))
    return neg, ranges


def _g_cls(neg, ranges):
    if _RX["icase"]:
        ranges = _close_case(ranges)
    return "(RCls %s %s)" % (g_list(["(%s, %s)" % (g_N(a), g_N(b)) for a, b in ranges], "(N * N)"), g_bool(neg))


def _rx_seq(items):
    if not items:
        return "REps"
    out = items[-1]
    for it in reversed(items[:-1]):
        out = "(RCat %s %s)" % (it, out)
    return out


def _rx_node(op, av):
    import re._constants as C  # type: ignore

    if op is C.LITERAL:
        return _g_cls(False, [(av, av)])
    if op is C.NOT_LITERAL:
        return _g_cls(True, [(av, av)])
    if op is C.ANY:
        return "(RCls %s true)" % g_list([], "(N * N)") if _RX["dotall"] else _g_cls(True, [(10, 10)])
    if op is C.IN:
        return _g_cls(*_cls_items(av))
    if op is C.MAX_REPEAT:
        lo, hi, sub = av
        r = _rx_seq([_rx_node(*x) for x in sub])
        if hi is C.MAXREPEAT:
            parts = [r] * lo + ["(RStar %s)" % r]
        else:
            if hi > 8:
                raise TieBroken("regex repeat bound too large")
            opt = "(RAlt REps %s)" % r
            parts = [r] * lo + [opt] * (hi - lo)
        return _rx_seq(parts)
    if op is C.SUBPATTERN:
        _, add, dele, sub = av
        if add or dele:
            raise TieBroken("regex inline flags not supported")
        return _rx_seq([_rx_node(*x) for x in sub])
    if op is C.BRANCH:
        alts = [_rx_seq([_rx_node(*x) for x in b]) for b in av[1]]
        out = alts[-1]
        for a in reversed(alts[:-1]):
            out = "(RAlt %s %s)" % (a, out)
        return out
    raise TieBroken("regex construct not supported: %s" % (op,))


def translate_regex(pattern, flags=""):
    """pattern (+ flag letters of a compiled pattern, from I M S X) -> Gallina `pat` ({| p_body; p_end; p_multi |});
    `^` at the start is implied by re.match, `$` only at the very end. Anything else fails closed."""
    import re._constants as C  # type: ignore
    import re._parser as P  # type: ignore

    bits = 0
    for f in flags:
        if f not in FLAG_BITS:
            raise TieBroken("regex flag not modelled: " + f)
        bits |= FLAG_BITS[f]
    try:
        parsed = P.parse(pattern, bits)
        tree = list(parsed)
        bits = parsed.state.flags  # global inline flags such as (?i) included
    except Exception as e:
        raise TieBroken("regex does not parse: %r: %s" % (pattern, e))
    if bits & ~(2 | 8 | 16 | 64 | 32):  # anything but I M S X and the default UNICODE
        raise TieBroken("regex flags not modelled: %#x" % bits)
    if tree and tree[0][0] is C.AT and tree[0][1] is C.AT_BEGINNING:
        tree = tree[1:]
    end = False
    if tree and tree[-1][0] is C.AT and tree[-1][1] is C.AT_END:
        end, tree = True, tree[:-1]
    _RX["icase"], _RX["dotall"] = bool(bits & 2), bool(bits & 16)
    try:
        body = _rx_seq([_rx_node(*x) for x in tree])
    finally:
        _RX["icase"] = _RX["dotall"] = False
    return "{| p_body := %s; p_end := %s; p_multi := %s |}" % (body, g_bool(end), g_bool(end and bool(bits & 8)))


def _string_constants(tree):
    """name -> regex string for `NAME = restricted_string_type("NAME", r"...")` and re.compile assignments."""
    res = {}
    for node in ast.walk(tree):
        if isinstance(node, ast.Assign) and len(node.targets) == 1 and isinstance(node.targets[0], ast.Name):
            v = node.value
            if isinstance(v, ast.Call) and isinstance(v.func, ast.Name) and v.func.id == "restricted_string_type":
                if len(v.args) >= 2 and isinstance(v.args[1], ast.Constant):
                    res[node.targets[0].id] = v.args[1].value
            if (isinstance(v, ast.Call) and isinstance(v.func, ast.Attribute) and v.func.attr == "compile"
                    and isinstance(v.func.value, ast.Name) and v.func.value.id == "re" and v.args
                    and isinstance(v.args[0], ast.Constant)):
                res[node.targets[0].id] = v.args[0].value
    return res


REGEX_NAMES = ["NotEmptyStr", "Email", "re_range_stop", "re_range_start_stop", "re_range_start_stop_step"]


def _timedelta_patterns(tree):
    """The two patterns timedelta_deserializer hands to re.match: `pattern = r"..."` and, under
    `if "day" in value:`, `pattern = r"..." + pattern`. Anything else fails closed."""
    fn = [n for n in tree.body if isinstance(n, ast.FunctionDef) and n.name == "timedelta_deserializer"]
    if len(fn) != 1:
        raise TieBroken("timedelta_deserializer not found")
    hms = days = None
    uses_match = False
    for node in ast.walk(fn[0]):
        if isinstance(node, ast.Assign) and len(node.targets) == 1 and isinstance(node.targets[0], ast.Name) \
                and node.targets[0].id == "pattern":
            v = node.value
            if isinstance(v, ast.Constant) and isinstance(v.value, str):
                if hms is not None:
                    raise TieBroken("timedelta_deserializer: more than one plain pattern")
                hms = v.value
            elif (isinstance(v, ast.BinOp) and isinstance(v.op, ast.Add) and isinstance(v.left, ast.Constant)
                  and isinstance(v.left.value, str) and isinstance(v.right, ast.Name) and v.right.id == "pattern"):
                if days is not None:
                    raise TieBroken("timedelta_deserializer: more than one days pattern")
                days = v.left.value
            else:
                raise TieBroken("timedelta_deserializer: pattern built in an unknown way: " + ast.dump(v))
        if isinstance(node, ast.Call) and isinstance(node.func, ast.Attribute) and isinstance(node.func.value, ast.Name) \
                and node.func.value.id == "re":
            if node.func.attr != "match" or len(node.args) != 2 or node.keywords:
                raise TieBroken("timedelta_deserializer does not use re.match(pattern, value)")
            uses_match = True
    if hms is None or days is None or not uses_match:
        raise TieBroken("timedelta_deserializer: patterns not found")
    return hms, days + hms


# --- the registry: register_type / register_type_on_first_use calls at module level -------------------
SER_NAMES = {"str": "SerStr", "float": "SerFloat", "decimal_serializer": "SerDecimal", "bytes_serializer": "SerBytes",
             "range_serializer": "SerRange"}
DES_NAMES = {"str": "DesStr", "decimal_deserializer": "DesDecimal", "timedelta_deserializer": "DesTimedelta",
             "bytes_deserializer": "DesBytes", "bytearray_deserializer": "DesBytearray", "range_deserializer": "DesRange"}


def _default_catches_overflow(tree):
    """register_type's default deserializer_exceptions: must list ValueError, TypeError and AttributeError (the model
    turns those into a rejection); -> whether an OverflowError (an ArithmeticError) is caught as well."""
    fn = [n for n in tree.body if isinstance(n, ast.FunctionDef) and n.name == "register_type"]
    if len(fn) != 1:
        raise TieBroken("register_type not found")
    a = fn[0].args
    params = a.posonlyargs + a.args
    defaults = dict(zip([p.arg for p in params][len(params) - len(a.defaults):], a.defaults))
    d = defaults.get("deserializer_exceptions")
    if d is None:
        raise TieBroken("register_type: no default for deserializer_exceptions")
    elts = d.elts if isinstance(d, ast.Tuple) else [d]
    if not all(isinstance(e, ast.Name) for e in elts):
        raise TieBroken("register_type: deserializer_exceptions default is not a tuple of names")
    names = {e.id for e in elts}
    if not ({"ValueError", "TypeError", "AttributeError"} <= names or names & {"Exception", "BaseException"}):
        raise TieBroken("register_type: default deserializer_exceptions no longer lists ValueError/TypeError/AttributeError")
    # RegisteredType.deserializer must still be the try/except over self.deserializer_exceptions
    cls = [n for n in tree.body if isinstance(n, ast.ClassDef) and n.name == "RegisteredType"]
    meth = [m for c in cls for m in c.body if isinstance(m, ast.FunctionDef) and m.name == "deserializer"]
    if len(meth) != 1 or not any(isinstance(h, ast.ExceptHandler) and h.type is not None
                                 and ast.unparse(h.type) == "self.deserializer_exceptions" for h in ast.walk(meth[0])):
        raise TieBroken("RegisteredType.deserializer no longer catches self.deserializer_exceptions")
    return bool(names & {"ArithmeticError", "OverflowError", "Exception", "BaseException"})


def _string_key_has_flags(tree):
    """register_key of restricted_string_type: (expression, str) -> False, (expression, regex.flags, str) -> True;
    `expression` must be "matching " + regex.pattern. Anything else fails closed."""
    fn = [n for n in tree.body if isinstance(n, ast.FunctionDef) and n.name == "restricted_string_type"]
    if len(fn) != 1:
        raise TieBroken("restricted_string_type not found")
    expr = [n for n in ast.walk(fn[0]) if isinstance(n, ast.Assign) and len(n.targets) == 1
            and isinstance(n.targets[0], ast.Name) and n.targets[0].id == "expression"]
    if len(expr) != 1 or ast.unparse(expr[0].value) != "'matching ' + regex.pattern":
        raise TieBroken("restricted_string_type: `expression` is not \"matching \" + regex.pattern")
    keys = [k.value for n in ast.walk(fn[0]) if isinstance(n, ast.Call) for k in n.keywords if k.arg == "register_key"]
    if len(keys) != 1:
        raise TieBroken("restricted_string_type: register_key not found")
    shape = ast.unparse(keys[0])
    if shape == "(expression, str)":
        return False
    if shape == "(expression, regex.flags, str)":
        return True
    raise TieBroken("restricted_string_type: register_key of an unknown shape: " + shape)


def translate_registry(tree):
    rows = []

    def one(call, subst):
        if not call.args:
            raise TieBroken("registration without a type: " + ast.unparse(call))
        pos = list(call.args)
        kw = {k.arg: k.value for k in call.keywords}
        if None in kw:
            raise TieBroken("registration with **kwargs: " + ast.unparse(call))
        if "deserializer_exceptions" in kw or len(pos) > 3:
            raise TieBroken("registration with its own deserializer_exceptions (the model uses the default): "
                            + ast.unparse(call)[:120])
        t = pos[0]
        tname = t.value if isinstance(t, ast.Constant) and isinstance(t.value, str) else ast.unparse(subst.get(
            t.id, t) if isinstance(t, ast.Name) else t)
        ser = pos[1] if len(pos) > 1 else kw.get("serializer")
        des = pos[2] if len(pos) > 2 else kw.get("deserializer")

        def name(x):
            if x is None or (isinstance(x, ast.Constant) and x.value is None):
                return None
            if isinstance(x, ast.Name):
                return ast.unparse(subst.get(x.id, x))
            return ast.unparse(x)

        sn, dn = name(ser), name(des)
        g_ser = "SerStr" if sn is None else SER_NAMES.get(sn, "(SerOther %s)" % g_str(sn))
        g_des = "DesClass" if dn is None or dn == tname else DES_NAMES.get(dn, "(DesOther %s)" % g_str(dn))
        rows.append((tname, g_ser, g_des))

    def is_reg(n):
        return (isinstance(n, ast.Expr) and isinstance(n.value, ast.Call) and isinstance(n.value.func, ast.Name)
                and n.value.func.id in ("register_type", "register_type_on_first_use"))

    for node in tree.body:
        if is_reg(node):
            one(node.value, {})
        elif isinstance(node, ast.For) and any(is_reg(b) for b in node.body):
            if not (isinstance(node.target, ast.Name) and isinstance(node.iter, (ast.List, ast.Tuple)) and not node.orelse
                    and all(is_reg(b) for b in node.body)):
                raise TieBroken("registration loop of an unknown shape: " + ast.unparse(node)[:120])
            for elt in node.iter.elts:
                for b in node.body:
                    one(b.value, {node.target.id: elt})
        elif isinstance(node, (ast.If, ast.Try, ast.With, ast.While)):
            for sub in ast.walk(node):
                if is_reg(sub) and not any(isinstance(a, ast.Constant) and isinstance(a.value, str) and
                                           a.value.startswith("pydantic") for a in sub.value.args[:1]):
                    raise TieBroken("conditional registration: " + ast.unparse(sub)[:120])
    body = ";\n   ".join("(%s, (%s, %s))" % (g_str(t), s, d) for t, s, d in rows)
    text = ("(* generated by tie/props/c20.py from jsonargparse/typing.py (module-level register_type /\n"
            "   register_type_on_first_use calls, in order); do not edit *)\n"
            "From JV Require Import Lib.Base Model.C20Base.\n"
            "Definition registry : list (str * (serfn * desfn)) :=\n  [%s].\n" % body)
    return text, rows


def translate():
    tree, path = _typing_ast()
    text, rows = translate_operators(tree)
    gen = os.path.join(framework.COQ, "Gen")
    os.makedirs(gen, exist_ok=True)
    _write_if_changed(os.path.join(gen, "C20Operators.v"), text)
    consts = _string_constants(tree)
    lines = ["(* generated by tie/props/c20.py from jsonargparse/typing.py; do not edit *)",
             "From JV Require Import Lib.Base Lib.C20Regex.", ""]
    pats = {}
    for name in REGEX_NAMES:
        if name not in consts:
            raise TieBroken("regex constant %s not found in %s" % (name, path))
        pats[name] = consts[name]
        lines.append("Definition rx_%s : pat := %s." % (name, translate_regex(consts[name])))
    pats["td_hms"], pats["td_days"] = _timedelta_patterns(tree)
    for name in ("td_hms", "td_days"):
        lines.append("Definition rx_%s : pat := %s." % (name, translate_regex(pats[name])))
    _write_if_changed(os.path.join(gen, "C20Regexes.v"), "\n".join(lines) + "\n")
    rtext, rrows = translate_registry(tree)
    rtext += "Definition string_key_has_flags : bool := %s.\n" % g_bool(_string_key_has_flags(tree))
    rtext += "Definition deserializer_catches_overflow : bool := %s.\n" % g_bool(_default_catches_overflow(tree))
    _write_if_changed(os.path.join(gen, "C20Registry.v"), rtext)
    # build the judge on its own first: it does not depend on Proofs/, so the correspondence can still
    # look for a failing input when a proof about the regenerated tables no longer compiles
    framework.build(["Corr/C20Judge.vo"])
    return {"Gen/C20Operators.v": {"rows": rows}, "Gen/C20Regexes.v": pats, "Gen/C20Registry.v": {"rows": rrows}}


def _write_if_changed(path, text):
    try:
        if open(path).read() == text:
            return
    except OSError:
        pass
    with open(path, "w") as f:
        f.write(text)


# ------------------------------------------------------------------------------------------------
# generation
# ------------------------------------------------------------------------------------------------
def pvi(n):
    return {"i": str(n)}


def pvf(s):
    return {"f": s}


def pvs(s):
    return {"s": s}


def num_candidates(base, refs):
    c = []
    for r in refs:
        ri = int(Decimal(r))
        for d in (-1, 0, 1):
            c.append(pvi(ri + d))
        c += [pvf("%d.0" % ri), pvf("%d.5" % ri), pvf(str(Decimal(r) + Decimal("0.000001"))),
              pvf(str(Decimal(r) - Decimal("0.000001"))), pvs(str(ri)), pvs(" %d " % ri), pvs("%d.0" % ri),
              pvs("+%d" % (ri + 1)), pvs("%d.5" % ri), pvs("\t%d\n" % (ri - 1)), pvs("%de0" % ri), pvs("%d_0" % (ri + 1)),
              pvs("%d." % ri), pvs("0%d" % (ri + 1))]
        if Decimal(r) != ri:
            c += [pvf(r), pvs(r)]
    c += [{"b": True}, {"b": False}, pvf("inf"), pvf("-inf"), pvf("nan"), pvs("inf"), pvs("-Infinity"), pvs("nan"),
          pvs("NaN"), pvs("abc"), pvs(""), pvs(" "), pvs("--1"), pvs("1-"), pvs("0x5"), pvs("1_"), pvs("_1"), pvs("1__0"),
          pvs("1e1"), pvs("1E-1"), pvs("1e"), pvs(".5"), pvs("."), pvs("- 1"), pvs("1 0"), pvs("5e-1"), pvs("1_0.5_0"),
          pvs("1._5"), pvs("infx"), pvs(" 5 "), pvs("5é"), {"none": 1}, {"other": "list"},
          {"other": "dict"}, pvi(10 ** 15), pvi(-(10 ** 15)), pvs("9" * 14), pvf("1000000.0")]
    if base == "int":
        c += [pvi(10 ** 40), pvi(-(10 ** 40)), pvs(str(10 ** 40)), pvs("-" + "9" * 30)]
    return c


def num_types(rng, tier):
    types = []
    for base in ("int", "float"):
        refs = [pvi(0), pvi(5)] if base == "int" else [pvi(0), pvf("1.5")]
        singles = [(op, r) for op in OPS for r in refs]
        for s in singles:
            types.append((base, "and", [s]))
            types.append((base, "or", [s]))
        for a in singles:
            for b in singles:
                for join in ("and", "or"):
                    types.append((base, join, [a, b]))
        if base == "int":
            types.append((base, "and", [(">", pvf("2.0"))]))
        types.append((base, "or", []))
        types.append((base, "and", []))
        n3 = 40 if tier == "quick" else 1500   # the quantifier says 1-3 comparisons: some in every tier
        refs3 = refs + ([pvi(-3)] if base == "int" else [pvf("-0.25"), pvf("inf")])
        for _ in range(n3):
            types.append((base, rng.choice(["and", "or"]), [(rng.choice(OPS), rng.choice(refs3)) for _ in range(3)]))
    return types


AFTER_KINDS = ["none", "append", "clear", "set0", "pop_append", "tuple"]


def after_for(base, join, restr):
    """What the caller does with the restriction list object AFTER the type was created from it (a function of
    the type, so that a type has one history wherever it occurs): nothing / append a comparison / clear / replace
    the first / drop the last and put one in front; "tuple": the single comparison is passed as a bare pair.
    The comparison brought in flips the outcome of the join for every finite value, so a type that kept the
    caller's list instead of its own copy answers differently. "rebuild": the next type is created from the list."""
    h = len(restr) * 7 + sum(ord(c) for s_, _ in restr for c in s_) + sum(len(ref_text(r)) for _, r in restr)
    h += (3 if join == "or" else 0) + (1 if base == "float" else 0)
    kind = AFTER_KINDS[h % len(AFTER_KINDS)]
    if kind == "tuple" and len(restr) != 1:
        kind = "append"
    if kind == "clear" and not restr:
        kind = "append"
    cmp = [">", pvi(-1000000)] if join == "or" else ["<", pvi(-1000000)]
    return {"kind": kind, "cmp": cmp, "rebuild": (h // len(AFTER_KINDS)) % 2 == 0}


def ref_text(r):
    return r["i"] if "i" in r else r["f"]


def gen_num(rng, tier):
    cases = []
    for base, join, restr in num_types(rng, tier):
        refs = sorted({ref_text(r) for _, r in restr if ref_text(r) not in ("inf",)}) or ["0"]
        cands = num_candidates(base, refs)
        must = cands[:3 * len(refs)] if len(restr) else cands[:2]
        rest = [c for c in cands if c not in must]
        k = 9 if tier == "quick" else 30
        pick = must + rng.sample(rest, min(k, len(rest)))
        for v in pick:
            cases.append({"kind": "num", "base": base, "join": join, "restr": [[s, r] for s, r in restr], "value": v,
                          "after": after_for(base, join, restr)})
    for name, (base, join, restr) in PREDEFINED.items():
        for v in num_candidates(base, ["0", "1"]):
            cases.append({"kind": "num", "predefined": name, "base": base, "join": join,
                          "restr": [[s, r] for s, r in restr], "value": v})
    return cases


ARGV_TEXTS = ["3", "5", " 5", "5 ", "5.0", "5.5", "true", "null", "[5]", "{}", "abc", "", "0x5", "1e1", "-1", "+5", "5_0",
              "inf", "nan", "0.5", "1.5", "-0.000001", '"5"', "'5'", "05", "5e0", "Null", " null "]
OBJ_VALUES = [pvi(5), pvi(0), pvi(-1), pvf("5.0"), pvf("5.5"), pvf("0.5"), {"b": True}, pvs("5"), pvs("5.0"), pvs("null"),
              pvs("abc"), {"other": "list"}, {"other": "dict"}, pvf("inf"), pvf("nan"), pvs(" 1 ")]


# float-based types with references at the scale where doubles are sparse (2^53 and beyond) and INTEGER inputs that
# float() has to round: the comparison is made on float(v), the value stored is float(v)
P53 = 2 ** 53
BIG_REFS = [pvf("%d.0" % P53), pvf("-%d.0" % P53), pvf("%d.0" % 2 ** 60), pvf("%d.0" % (P53 + 2)), pvi(P53), pvf("%d.0" % 10 ** 22)]
BIG_INTS = [P53 - 1, P53, P53 + 1, P53 + 2, P53 + 3, P53 + 5, 2 * P53 + 2, 2 * P53 + 6, 2 ** 60 - 1, 2 ** 60 + 1, 2 ** 60 + 128,
            2 ** 60 + 129, 2 ** 63 + 1, 10 ** 17 + 1, 10 ** 22, 10 ** 22 + 1, 10 ** 23, 2 ** 1023, 2 ** 1024 - 2 ** 970 - 1,
            2 ** 1024 - 2 ** 970, 2 ** 1024, 10 ** 400, 5, 0]
BIG_FLOATS = ["%d.0" % P53, "%d.0" % (P53 + 2), "%d.0" % 2 ** 60, "%d.0" % (2 ** 60 + 256), "%d.0" % 10 ** 22, "1.5", "inf"]


def big_types(rng, tier):
    types = []
    for op in OPS:
        for ref in BIG_REFS:
            types.append(("float", "and", [(op, ref)]))
    pairs = [(a, b) for a in OPS for b in OPS]
    for a, b in (pairs if tier != "quick" else rng.sample(pairs, 10)):
        types.append(("float", rng.choice(["and", "or"]), [(a, BIG_REFS[0]), (b, rng.choice(BIG_REFS[1:]))]))
    for op in (">", "<=", "=="):
        types.append(("int", "and", [(op, pvi(P53))]))      # int-based: no rounding at all
    return types


def gen_big(rng, tier):
    cases = []
    for base, join, restr in big_types(rng, tier):
        vals = [pvi(s * z) for z in BIG_INTS for s in (1, -1)] + [pvf(f) for f in BIG_FLOATS] + [pvf("-" + f) for f in BIG_FLOATS[:5]]
        if tier == "quick":
            # always: the first int float() rounds, its negative, and an int float() cannot hold at all
            keep = [pvi(P53 + 1), pvi(-(P53 + 1)), pvi(10 ** 400)]
            vals = keep + rng.sample([v for v in vals if v not in keep], 21)
        for v in vals:
            if base == "int" and "f" in v and v["f"] not in ("1.5", "inf"):
                pass
            cases.append({"kind": "num", "base": base, "join": join, "restr": [[s, r] for s, r in restr], "value": v,
                          "after": after_for(base, join, restr)})
        for v in rng.sample(vals, 6):
            if "i" in v and abs(int(v["i"])) >= 2 ** 1024 - 2 ** 970:
                continue  # what an OverflowError inside the parser becomes is C03's business
            cases.append({"kind": "numparse", "channel": "object", "base": base, "join": join,
                          "restr": [[s, r] for s, r in restr], "value": v, "after": after_for(base, join, restr)})
    return cases


def gen_numparse(rng, tier):
    cases = []
    types = num_types(rng, "quick")
    sample = rng.sample(types, 60 if tier == "quick" else 400)
    sample += [(b, j, r) for b, j, r in PREDEFINED.values()]
    for base, join, restr in sample:
        texts = rng.sample(ARGV_TEXTS, 10 if tier == "quick" else len(ARGV_TEXTS))
        for t in texts:
            cases.append({"kind": "numparse", "channel": "argv", "base": base, "join": join,
                          "restr": [[s, r] for s, r in restr], "value": pvs(t), "after": after_for(base, join, restr)})
        for v in rng.sample(OBJ_VALUES, 6 if tier == "quick" else len(OBJ_VALUES)):
            cases.append({"kind": "numparse", "channel": "object", "base": base, "join": join,
                          "restr": [[s, r] for s, r in restr], "value": v, "after": after_for(base, join, restr)})
    return cases


def gen_ranges(rng, tier):
    vals = [-(10 ** 30), -17, -2, -1, 0, 1, 2, 5, 10, 99, 100, 2 ** 63, 10 ** 30]
    cases = []
    fixed = [(0, 5, 1), (0, 0, 1), (1, 5, 1), (5, 1, 1), (0, 10, 2), (10, 0, -1), (0, 5, -1), (0, -5, 1), (3, 3, -7),
             (0, 1, 10 ** 30), (-1, -10, -3), (0, 7, 3), (0, 9, 3), (1, 0, 1), (-5, 5, 1), (0, 10 ** 30, 1)]
    for a, b, c in fixed:
        cases.append({"kind": "range", "start": str(a), "stop": str(b), "step": str(c)})
    for _ in range(250 if tier == "quick" else 6000):
        a, b = rng.choice(vals), rng.choice(vals)
        c = rng.choice([1, 1, -1, 2, -2, 3, 7, -7, 10 ** 20, -(10 ** 20)])
        if rng.random() < 0.3:
            a, b = rng.randint(-50, 50), rng.randint(-50, 50)
        cases.append({"kind": "range", "start": str(a), "stop": str(b), "step": str(c)})
    texts = ["range(5)", "range(1,5)", "range( 1 , 5 )", " range(5) ", "range(5)\n", "range(5\n)", "range(5\n\n)", "range(-0)",
             "range(+5)", "range(1, 2, 0)", "range(1,,2)", "range()", "range(1,2,3,4)", "Range(5)", "range(5", "range 5",
             "range(5.0)", "range(1_0)", "range(1, 2, 3)", "range(- 5)", "range(--5)", "range(5-)", "range(1 2)", "range(1,2,)",
             "range(,1)", "xrange(5)", "range(5))", "range((5)", "range(0, -3, -1)", "range(\t5)", "range(1,\n2)",
             "range(1\n,2)", "range(-1,-2,-3)", "", "range", "range(a)", "range(1, b)", "5", "range(007)", "range(5)x",
             " range(5) ", "range(1, 2\n)"]
    for t in texts:
        cases.append({"kind": "rangedes", "value": pvs(t)})
    for v in (pvi(5), {"none": 1}, {"other": "list"}, {"b": True}, pvf("1.5")):
        cases.append({"kind": "rangedes", "value": v})
    alphabet = "range(1, 2, -3)\n 5x"
    for _ in range(60 if tier == "quick" else 3000):
        t = list(rng.choice(texts[:20]))
        for _ in range(rng.randint(1, 2)):
            op = rng.random()
            pos = rng.randrange(len(t) + 1)
            if op < 0.4 and t:
                del t[min(pos, len(t) - 1)]
            elif op < 0.8:
                t.insert(pos, rng.choice(alphabet))
            elif t:
                t[min(pos, len(t) - 1)] = rng.choice(alphabet)
        cases.append({"kind": "rangedes", "value": pvs("".join(t))})
    return cases


DAY = 86400 * 10 ** 6


def gen_td(rng, tier):
    totals = [0, 1, -1, 999999, -999999, 10 ** 6, -(10 ** 6), DAY - 1, DAY, -DAY, DAY + 1, -DAY - 1, 2 * DAY, -2 * DAY,
              3600 * 10 ** 6, 59 * 10 ** 6 + 5, 999999999 * DAY + DAY - 1, -999999999 * DAY, 36000 * 10 ** 6, 100000,
              60 * 10 ** 6, 3599 * 10 ** 6 + 999999, 10 * DAY + 500000, -10 * DAY + 1, 7 * DAY]
    for _ in range(350 if tier == "quick" else 8000):
        k = rng.random()
        if k < 0.3:
            totals.append(rng.randint(-2 * DAY, 2 * DAY))
        elif k < 0.5:
            totals.append(rng.randint(-5, 5) * DAY + rng.choice([0, 1, 10 ** 6, 3600 * 10 ** 6, 60 * 10 ** 6]) * rng.randint(0, 23))
        elif k < 0.8:
            totals.append(rng.randint(-999999999, 999999999) * DAY + rng.randint(0, DAY - 1))
        else:
            totals.append(rng.randint(-100, 100) * DAY + rng.randint(0, 86399) * 10 ** 6)
    cases = [{"kind": "td", "total": str(t)} for t in totals]
    texts = ["1:02:03", "1:2:3", "01:02:03.5", "1:02:03abc", "1 day, 1:02:03", "2 days, 0:00:00", "1 dayss, 0:00:00",
             "-1 day, 23:59:59.999999", "1 day 0:00:00", "day", "1 day, x", "1:02", "1:02:", ":1:2", "1:02:03.4.5", "1:02:03+",
             "1-2 days, 0:00:00", "--1 day, 0:00:00", "1000000000 days, 0:00:00", "1:99:99", "0:00:60", "1.5:00:00",
             "-1 days, 0:00:00", "1 days, 0:00:00", "3 day, 0:00:00", "1 day,0:00:00", "1 day,  0:00:00", " 1:02:03", "1:02:03 ",
             "x1:02:03", "1:02:03.", "1:02:03.000001", "1:02:03.0000010", "0:00:00", "0:0:0", "24:00:00", "100:00:00",
             "1 day, 24:00:00", "- day, 0:00:00", "1-, 0:00:00", "-999999999 days, 0:00:00", "999999999 days, 23:59:59.999999",
             "999999999 days, 24:00:00", "today 1:02:03", "1 day", "days, 1:02:03", "1 day, 1:02:03 and a day", "1:02:3.5e1",
             "1:02:03+4", "1:02:03..", "5 Days, 1:02:03", "5 daysdays, 1:02:03", "1:02:03\n", "1\n:02:03", "",
             "0:00:99999999999999999", "1:-2:03", "+1:02:03", "-0 days, 1:02:03", "007 days, 01:02:03"]
    for t in texts:
        cases.append({"kind": "tddes", "value": pvs(t)})
    for v in (pvi(3600), {"none": 1}, {"other": "list"}, pvf("1.5"), {"b": True}):
        cases.append({"kind": "tddes", "value": v})
    alphabet = "0123456789:. ,-+days"
    for _ in range(80 if tier == "quick" else 4000):
        t = list(rng.choice(texts[:9] + ["-1 day, 23:59:59.999999", "2 days, 3:04:05.678901"]))
        for _ in range(rng.randint(1, 2)):
            op = rng.random()
            pos = rng.randrange(len(t) + 1)
            if op < 0.4 and t:
                del t[min(pos, len(t) - 1)]
            elif op < 0.8:
                t.insert(pos, rng.choice(alphabet))
            elif t:
                t[min(pos, len(t) - 1)] = rng.choice(alphabet)
        s = "".join(t)
        # keep inside the modelled float domain: at most 6 fractional digits in the seconds field
        import re as _re

        if _re.search(r"\.\d{7,}", s) or _re.search(r"\d{16,}", s):
            continue
        cases.append({"kind": "tddes", "value": pvs(s)})
    return cases


def gen_secret(rng, tier):
    secrets = ["hunter2", "pass word", "s3cr3t!", "null", "true", "12345", "a: b", "- x", "{x}", "[1]", "#hash", "'quoted'",
               '"dq"', "multi\nline", "ümläut", "x" * 80, "1e3", "0x10", "yes", "~", "%TAG", "@at", "`tick`", "***a"]
    for _ in range(10 if tier == "quick" else 200):
        secrets.append("".join(rng.choice("abcXYZ019 :-_#'\"{}[]") for _ in range(rng.randint(4, 16))).strip() or "abcd")
    return [{"kind": "secret", "secret": s} for s in secrets if len(s.strip()) >= 3 and s == s.strip() and not s.startswith("-")]


def gen_decimal(rng, tier):
    pairs = [(1, -1), (5, -1), (25, -2), (3, 0), (1, 2), (125, -3), (-75, -2), (1, -3), (123456789012345678, -3), (0, 0),
             (1, 0), (-1, 0), (15, -1), (3, -1), (7, -1), (1, -2), (314159, -5), (2, -1), (4, -1), (6, -1), (8, -1),
             (9007199254740993, 0), (9007199254740992, 0), (1, 20), (1, 23), (12345678901234567890, 0), (1, -10),
             (5, -10), (9765625, -10), (931322574615478515625, -30), (1, 300), (1, -300), (1, 400), (-1, 309), (1, -400), (17976931348623158, 292),
             (9007199254740993, -3), (30000000000000004, -17), (1, -1), (2, -1), (3, -1), (100, -3), (1000, -1), (-5, 3), (5, -324), (17976931348623157, 292),
             (10000000000000001, -16), (1000000000000001, -15), (33, -2), (5, -2), (375, -3), (999999999999999, -3)]
    # high precision: more significant digits than the default context (28), than a raised and a lowered one
    high = [(31415926535897932384626433832795, -31), (int("9" * 50), 0), (int("123456789" * 5), -20), (10 ** 28 + 1, 0),
            (10 ** 28 + 1, -28), (-(10 ** 40 + 7), -45), (int("1" + "0" * 30 + "1"), 5), (12345678, -3), (123456, 0),
            (1234567, -7), (100000000000000000000000000001, -1), (271828182845904523536028747135266249775724709369995, -50)]
    for _ in range(150 if tier == "quick" else 5000):
        k = rng.random()
        if k < 0.35:
            e = rng.randint(0, 12)
            pairs.append((rng.choice([1, -1]) * rng.randint(1, 4000) * 5 ** e, -e))  # dyadic
        elif k < 0.6:
            pairs.append((rng.randint(-10 ** 6, 10 ** 6), -rng.randint(0, 8)))
        elif k < 0.8:
            pairs.append((rng.randint(-10 ** 25, 10 ** 25), rng.randint(-30, 10)))
        else:
            n = rng.randint(26, 70)
            high.append((rng.choice([1, -1]) * rng.randint(10 ** (n - 1), 10 ** n), rng.randint(-n - 10, 10)))
    cases = [{"kind": "decimal", "mant": str(m), "exp": e} for m, e in pairs]
    # the same under other ambient context precisions (getcontext().prec as the program may have set it)
    for i, (m, e) in enumerate(high):
        cases.append({"kind": "decimal", "mant": str(m), "exp": e})
        cases.append({"kind": "decimal", "mant": str(m), "exp": e, "prec": [5, 9, 40][i % 3]})
    for i, (m, e) in enumerate(pairs[:60]):
        cases.append({"kind": "decimal", "mant": str(m), "exp": e, "prec": [3, 6, 50][i % 3]})
    return cases


def gen_builtin(rng, tier):
    cases = []
    parts = ["0", "-0.0", "1", "-1.5", "1e10", "1e-5", "inf", "-inf", "0.1", "3.14", "1e300", "5e-324", "123456789.125"]
    for re_ in parts:
        for im in parts:
            cases.append({"kind": "builtin", "type": "complex", "re": re_, "im": im})
    n = 60 if tier == "quick" else 3000
    for i in [0, 1, 2 ** 128 - 1, 2 ** 64, 0x12345678123456781234567812345678] + [rng.getrandbits(128) for _ in range(n)]:
        cases.append({"kind": "builtin", "type": "uuid", "int": str(i)})
    import base64

    blobs = [b"", b"\x00", b"\xff" * 3, b"hello", bytes(range(256))]
    for s in ("null", "true", "1234", "1e10", "yes0", "0x10", "1_00", "Null", "+123", "off0", "TRUE", "~~~~", "1.50", ".inf"):
        try:
            blobs.append(base64.b64decode(s, validate=True))
        except Exception:
            pass
    for _ in range(n):
        blobs.append(bytes(rng.getrandbits(8) for _ in range(rng.randint(1, 24))))
    for b in blobs:
        cases.append({"kind": "builtin", "type": "bytes", "hex": b.hex()})
        cases.append({"kind": "builtin", "type": "bytearray", "hex": b.hex()})
    paths = ["a/b", ".", "/", "1", "a b", "~", "null", "true", "-", "..", "a/../b", "/tmp/x.yaml", "1e3", "0x1", "x:y", "a#b",
             "[x]", "{x}", "ü/ä", "a//b", "./a", "a/", "1.5", "yes", "'q'", "*", "&a", "!t", "%p", "@x", "a: b", "?", "~:", "null:",
             "1:", "a:", "?x", "- a", "#c", "x #c", "|", ">", "a\tb", "key: [1, 2]", "{a: 1}", "[1, 2]", "null", "~"]
    for p in paths:
        cases.append({"kind": "builtin", "type": "path", "path": p})
        cases.append({"kind": "builtin", "type": "posixpath", "path": p})
    return cases


RSTR_REGEXES = [r"^.*[^ ].*$", r"^[^@ ]+@[^@ ]+\.[^@ ]+$", r"^[a-c]+$", r"[a-c]+", r"^a(b|cd)*e$", r"^ab?c{2,3}$", r"^\d+(,\d+)*$",
                r"^[^a]b.c$", r"a*", r"^(a|ab)(c|bcd)$", r"x$", r"^$"]
RSTR_STRINGS = ["", " ", "  ", "a", " a ", "a\n", "\n", "a\nb", "a@b.c", "a@b.c\n", "a@b", "@b.c", "a@@b.c", "a @b.c", "a@b.c d",
                "a@b.c.d", "a@b..c", "abc", "abcx", "xabc", "abd", "ae", "abe", "acde", "abcdcdbe", "abce", "ac", "acc", "abcc",
                "abccc", "abcccc", "1", "1,2", "1,,2", "1,2,", "12,345", "bb.c", "ab.c", "bbxc", "bb\nc", "aaa", "b", "abcd",
                "abbcd", "ac\n", "x", "x\n", "xx", "x\n\n", "ax", "é", "a@b.é", "abc\n", "abcbcd"]


# regexes handed over as COMPILED patterns carrying flags (flag letters as in re: I, M, S, X), with strings whose
# match depends on the flag; every pattern text is used with one flag set only (the registry key of a restricted
# string type is the pattern text)
RSTR_FLAGGED = [
    (r"^0x[0-9a-f]+$", "I", ["0xbeef", "0XBEEF", "0Xbeef", "0xBEEF\n", "0xg", "x0xbeef", "0XBEEF\n\n", "0X"]),
    (r"^a.c$", "S", ["abc", "a\nc", "a\nc\n", "ac", "a\n\nc", "A\nc"]),
    (r"^ [a-z]+ - \d+ $  # word-number", "X", ["abc-12", "abc - 12", " abc-12", "abc-12\n", "abc-12  # word-number", "ABC-12", "-12"]),
    (r"^ok$", "M", ["ok", "ok\n", "ok\nmore", "ok\n\n", "okay", "no\nok", "ok\rx", "OK\nmore"]),
    (r"^[^a-c]x$", "I", ["dx", "Ax", "ax", "DX", "dX", "\nx", "Cx"]),
    (r"[A-C]+z", "I", ["abz", "ABZ", "abZ", "dz", "aBcZ!", "z"]),
    (r"^a.*b$", "MS", ["ab", "a\nb", "a\nb\nc", "a\nc", "a\n\nb\n", "A\nb"]),
    (r"^a.*b$  # dot and newline", "XS", ["ab", "a\nb", "a\nb\n", "a\nb\n\n", "a b"]),
    (r"^ [0-9a-f]{2} ( : [0-9a-f]{2} )* $", "IX", ["0A:ff", "0a : ff", "0A:FF\n", "0A:F", "0A:FG", "0a"]),
    (r"^x[ ]y$", "X", ["x y", "xy", "x  y"]),
    (r"(?i)^q+$", "", ["q", "QQ", "qQ\n", "qr"]),
    (r"^line$", "MI", ["LINE", "Line\nnext", "liner", "line\n"]),
    (r"^é.z$", "S", ["é\nz", "éaz", "e\nz"]),
]


def rstr_compiled(rx):
    """whether a flag-less pattern text is handed over as a compiled Pattern (a function of the text)"""
    return sum(map(ord, rx)) % 2 == 0


# registry histories: one pattern text registered twice, with flag sets that may differ, under one name or two
# (every history has its own text: `()` repeated before the end keeps the language and makes the text unique)
RSTR_HIST = [
    (r"^0x[0-9a-f]+%s$", ["", "I"], ["0xbeef", "0XBEEF", "0xBEEF\n", "zz"]),
    (r"^a.c%s$", ["", "S"], ["abc", "a\nc", "ac"]),
    (r"^ok%s$", ["", "M", "I"], ["ok", "ok\nmore", "OK", "okay"]),
]


def gen_rstrhist(rng, tier):
    cases, n = [], 0
    for rx, flagsets, strings in RSTR_HIST:
        for f1 in flagsets:
            for f2 in flagsets:
                for same in (True, False):
                    n += 1
                    text = rx % ("()" * n)
                    for s in strings:
                        cases.append({"kind": "rstrhist", "regex": text, "flags1": f1, "flags2": f2, "same_name": same,
                                      "value": pvs(s)})
    return cases


def gen_rstr(rng, tier):
    cases = []
    for rx in RSTR_REGEXES:
        comp = rstr_compiled(rx)
        for s in RSTR_STRINGS:
            cases.append({"kind": "rstr", "regex": rx, "flags": "", "compiled": comp, "value": pvs(s)})
        for v in (pvi(5), {"none": 1}, {"other": "list"}, {"b": True}):
            cases.append({"kind": "rstr", "regex": rx, "flags": "", "compiled": comp, "value": v})
    for name, rx in PREDEFINED_STR.items():
        for s in RSTR_STRINGS:
            cases.append({"kind": "rstr", "predefined": name, "regex": rx, "value": pvs(s)})
    for rx, flags, strings in RSTR_FLAGGED:
        for s in strings + (RSTR_STRINGS if tier != "quick" else RSTR_STRINGS[::3]):
            cases.append({"kind": "rstr", "regex": rx, "flags": flags, "compiled": True, "value": pvs(s)})
    return cases


# registry histories of restricted NUMBER types: two calls of restricted_number_type; every history has references of
# its own (R = 1000 + 10 * index), so the registry of the process holds neither key before
def numhist_shapes(R):
    i, f = (lambda n: pvi(n)), (lambda n: pvf("%d.0" % n))
    a, b = [">=", i(R)], ["<", i(R + 3)]

    def t(base, join, restr):
        return {"base": base, "join": join, "restr": restr}

    return [
        ("permuted", t("int", "and", [a, b]), t("int", "and", [b, a])),
        ("permuted-or", t("float", "or", [["<", i(R)], [">", i(R + 3)]]), t("float", "or", [[">", i(R + 3)], ["<", i(R)]])),
        ("spelling-float", t("float", "and", [[">", i(R)]]), t("float", "and", [[">", f(R)]])),
        ("spelling-int", t("int", "and", [["<=", f(R)]]), t("int", "and", [["<=", i(R)]])),
        ("permuted-spelling-3", t("float", "or", [[">", i(R + 3)], ["==", i(R + 1)], ["<", i(R)]]),
         t("float", "or", [["==", f(R + 1)], ["<", f(R)], [">", i(R + 3)]])),
        ("same-op-refs-swapped", t("int", "or", [["==", i(R + 3)], ["==", i(R)]]), t("int", "or", [["==", i(R)], ["==", i(R + 3)]])),
        ("negative-refs-swapped", t("int", "and", [[">", i(-R)], [">", i(-R - 3)]]), t("int", "and", [[">", i(-R - 3)], [">", i(-R)]])),
        ("identical", t("float", "and", [["<", pvf("%d.5" % R)]]), t("float", "and", [["<", pvf("%d.5" % R)]])),
        ("other-ref", t("int", "and", [[">", i(R)]]), t("int", "and", [[">", i(R + 1)]])),
        ("other-op", t("int", "and", [[">", i(R)]]), t("int", "and", [[">=", i(R)]])),
        ("other-join", t("float", "and", [a, b]), t("float", "or", [a, b])),
        ("other-base", t("int", "and", [[">", i(R)]]), t("float", "and", [[">", i(R)]])),
        ("repeated-comparison", t("int", "and", [a]), t("int", "and", [a, a])),
        ("one-more", t("int", "and", [a]), t("int", "and", [a, b])),
        ("bad-ref", t("int", "and", [[">", i(R)]]), t("int", "and", [[">", pvf("%d.5" % R)]])),
        ("bad-ref-float", t("float", "and", [[">", i(R)]]), t("float", "and", [[">", i(2 ** 53 + 1)]])),
        ("bad-symbol", t("int", "and", [[">", i(R)]]), t("int", "and", [["=>", i(R)]])),
        ("first-refused", t("int", "and", [[">", pvf("%d.5" % R)]]), t("int", "and", [[">", i(R)]])),
    ]


def gen_numhist(rng, tier):
    cases, h = [], 0
    for same in (True, False):
        for k in range(len(numhist_shapes(0))):
            h += 1
            R = 1000 + 10 * h
            label, t1, t2 = numhist_shapes(R)[k]
            vals = [pvi(R - 1), pvi(R), pvi(R + 1), pvi(R + 2), pvi(R + 3), pvi(R + 4), pvf("%d.5" % R), pvf("%d.0" % (R + 3)),
                    pvs(str(R + 1)), {"b": True}, pvi(-R), pvi(-R - 2), pvi(-R - 4), pvi(0)]
            for v in vals:
                cases.append({"kind": "numhist", "hist": h, "shape": label, "same_name": same, "t1": t1, "t2": t2, "value": v})
    return cases


REG_TYPES = ["complex", "decimal.Decimal", "uuid.UUID", "pathlib.Path", "pathlib.PosixPath", "datetime.timedelta",
             "builtins.bytes", "builtins.bytearray", "range", "SecretStr", "user"]
REG_ACTIONS = ["same", "defaults", "other_ser", "other_des", "force", "force_same", "key"]


def gen_reghist(rng, tier):
    return [{"kind": "reghist", "type": t, "action": a} for t in REG_TYPES for a in REG_ACTIONS]


def generate(rng, tier):
    cases = []
    cases += gen_numhist(rng, tier)
    cases += gen_reghist(rng, tier)
    cases += gen_num(rng, tier)
    cases += gen_numparse(rng, tier)
    cases += gen_big(rng, tier)
    cases += gen_rstr(rng, tier)
    cases += gen_rstrhist(rng, tier)
    cases += gen_ranges(rng, tier)
    cases += gen_td(rng, tier)
    cases += gen_secret(rng, tier)
    cases += gen_decimal(rng, tier)
    cases += gen_builtin(rng, tier)
    return cases


# ------------------------------------------------------------------------------------------------
# observation
# ------------------------------------------------------------------------------------------------
def observe(cases):
    """A runner process that dies (the library cannot even be imported, a hard exit) is an observation too: every
    case it was given is reported as a crash outside the documented channel, so the failing input is kept."""
    from concurrent.futures import ThreadPoolExecutor

    n = min(16, max(1, len(cases) // 20 + 1))
    chunks = [cases[i::n] for i in range(n)]

    def one(ch):
        try:
            return framework.run_impl("c20_run.py", {"cases": ch})
        except framework.ImplCrash as e:
            return [{"crash": "runner process died: " + str(e)[-400:]} for _ in ch]

    with ThreadPoolExecutor(max_workers=getattr(framework, "JOBS", 8)) as ex:
        res = list(ex.map(one, chunks))
    out = [None] * len(cases)
    for k, r in enumerate(res):
        out[k::n] = r
    return out


# ------------------------------------------------------------------------------------------------
# Gallina terms
# ------------------------------------------------------------------------------------------------
def g_fl(s):
    if s == "inf":
        return "(FInf false)"
    if s == "-inf":
        return "(FInf true)"
    if s == "nan":
        return "FNan"
    import decimal

    with decimal.localcontext() as ctx:
        ctx.prec = 400
        d = Decimal(s) * 10 ** 6
        if d != d.to_integral_value():
            raise OutOfDomain(s)
        if abs(d) >= 10 ** 15:
            # beyond the fixed-point domain only integer-valued doubles written with all their digits are modelled
            whole = Decimal(s)
            if whole != whole.to_integral_value() or abs(whole) >= 2 ** 1024 or float(int(whole)) != int(whole) \
                    or int(float(int(whole))) != int(whole):
                raise OutOfDomain(s)
        return "(FFin %s)" % g_Z(int(d))


def g_pv(pv):
    if "i" in pv:
        return "(PInt %s)" % g_Z(int(pv["i"]))
    if "f" in pv:
        return "(PFloat %s)" % g_fl(pv["f"])
    if "b" in pv:
        return "(PBool %s)" % g_bool(pv["b"])
    if "s" in pv:
        return "(PStr %s)" % g_str(pv["s"])
    if "none" in pv:
        return "PNone"
    return "POther"


def g_num(pv):
    if "i" in pv:
        return "(NI %s)" % g_Z(int(pv["i"]))
    return "(NF %s)" % g_fl(pv["f"])


def g_rtype(case):
    restr = g_list(["(%s, %s)" % (g_str(s), g_num(r)) for s, r in case["restr"]], "(str * num)")
    return "{| r_base := %s; r_restr := %s; r_join := %s |}" % (
        "BInt" if case["base"] == "int" else "BFloat", restr, "JAnd" if case["join"] == "and" else "JOr")


def g_range(t):
    return "{| rg_start := %s; rg_stop := %s; rg_step := %s |}" % tuple(g_Z(int(x)) for x in t)


def g_td(back):
    if "ok" in back:
        return "(TdOk %s)" % g_Z(int(back["ok"]))
    return "TdRej" if "rej" in back else "TdOverflow"


BUILTIN_KIND = {"complex": 1, "uuid": 2, "bytes": 3, "bytearray": 4, "path": 5, "posixpath": 6}
PLACEHOLDER = "(CBuiltin 99%N (@nil N) true)"


def term(case, obs):
    if "harness_error" in obs or "crash" in obs:
        return "(CCrash 1%N)"
    k = case["kind"]
    try:
        if k == "num":
            acc = g_opt(g_num(obs["acc"])) if obs["acc"] is not None else "None"
            return "(CNum %s %s %s %s)" % (g_rtype(case), g_pv(case["value"]), acc, g_bool(obs["extras_ok"]))
        if k == "numparse":
            acc = g_opt(g_num(obs["acc"])) if obs["acc"] is not None else "None"
            return "(CNumParse %s %s %s %s)" % (g_rtype(case), g_pv(obs["loaded"]), g_pv(obs["orig"]), acc)
        if k == "rstr":
            acc = g_opt(g_str(obs["acc"])) if obs["acc"] is not None else "None"
            return "(CStr %s %s %s %s)" % (translate_regex(case["regex"], case.get("flags", "")), g_pv(case["value"]), acc,
                                          g_bool(obs.get("extras_ok", True)))
        if k == "rstrhist":
            acc = g_opt(g_str(obs["acc"])) if obs["acc"] is not None else "None"
            return "(CStrHist %s %s %s %s %s %s %s %s)" % (translate_regex(case["regex"], case["flags1"]),
                                                          translate_regex(case["regex"], case["flags2"]),
                                                          g_str(case["flags1"]), g_str(case["flags2"]),
                                                          g_bool(case["same_name"]), g_pv(case["value"]), g_bool(obs["created"]), acc)
        if k == "numhist":
            acc = g_opt(g_num(obs["acc"])) if obs["acc"] is not None else "None"
            return "(CNumHist %s %s %s %s %s %s)" % (g_rtype(case["t1"]), g_rtype(case["t2"]), g_bool(case["same_name"]),
                                                    g_pv(case["value"]), g_bool(obs["created"]), acc)
        if k == "reghist":
            def pair(sn, dn):
                g_ser = "SerStr" if sn is None else SER_NAMES.get(sn, "(SerOther %s)" % g_str(sn))
                g_des = "DesClass" if dn is None else DES_NAMES.get(dn, "(DesOther %s)" % g_str(dn))
                return "(%s, %s)" % (g_ser, g_des)

            after = "None" if obs["after"] is None else g_opt(pair(*obs["after"]))
            return "(CRegHist %s %s %s %s %s %s)" % (g_str(case["type"]), pair(obs["ser"], obs["des"]), g_bool(obs["fail"]),
                                                    g_bool(obs["key"]), g_bool(obs["refused"]), after)
        if k == "range":
            back = g_opt(g_range(obs["back"])) if obs["back"] is not None else "None"
            return "(CRange %s %s %s %s)" % (g_range((case["start"], case["stop"], case["step"])), g_str(obs["ser"]), back,
                                            g_bool(obs["chan_ok"]))
        if k == "rangedes":
            back = g_opt(g_range(obs["back"])) if obs["back"] is not None else "None"
            return "(CRangeDes %s %s)" % (g_pv(case["value"]), back)
        if k == "td":
            return "(CTd %s %s %s %s)" % (g_Z(int(case["total"])), g_str(obs["ser"]), g_td(obs["back"]), g_bool(obs["chan_ok"]))
        if k == "tddes":
            return "(CTdDes %s %s)" % (g_pv(case["value"]), g_td(obs["back"]))
        if k == "secret":
            return "(CSecret %s %s %s %s)" % (g_str(case["secret"]), g_str(obs["ser"]),
                                             g_bool(obs["leaked"]), g_bool(obs["parsed_ok"]))
        if k == "decimal":
            d = "{| d_mant := %s; d_exp := %s |}" % (g_Z(int(case["mant"])), g_Z(case["exp"]))
            y = "None" if obs["dbl"] is None else g_opt("{| y_num := %s; y_exp := %s |}" % (
                g_Z(int(obs["dbl"][0])), g_Z(obs["dbl"][1])))
            t = "None" if obs["text"] is None else g_opt("{| d_mant := %s; d_exp := %s |}" % (
                g_Z(int(obs["text"][0])), g_Z(obs["text"][1])))
            return "(CDecimal %s %s %s %s %s %s)" % (d, y, t, g_bool(obs["ser_float"]),
                                                    g_bool(obs["file_equal"] and obs["json_equal"]),
                                                    g_bool(obs["argv_equal"]))
        if k == "builtin":
            return "(CBuiltin %s %s %s)" % (g_N(BUILTIN_KIND[case["type"]]), g_str(obs["ser"]), g_bool(obs["all_equal"]))
    except OutOfDomain:
        return PLACEHOLDER
    raise ValueError("unknown case kind " + k)


def nontrivial_key(case, obs):
    if case["kind"] == "num" and "i" in case["value"] and abs(int(case["value"]["i"])) < 3 and len(case["restr"]) < 2:
        return None
    core = {k: v for k, v in obs.items() if k in ("acc", "back", "ser", "loaded", "dbl", "all_equal", "leaked", "chan_ok", "created", "refused", "after")}
    return json.dumps([case, core], sort_keys=True)


def category(case, obs):
    k = case["kind"]
    if "harness_error" in obs or "crash" in obs:
        return k + "/crash"
    if k == "numhist":
        return "numhist/%s/%s/%s" % (case["shape"], "same-name" if case["same_name"] else "other-name",
                                     "refused" if not obs.get("created") else "accepted" if obs.get("acc") is not None else "rejected")
    if k == "reghist":
        return "reghist/%s/%s" % (case["action"], "refused" if obs.get("refused") else "let-through")
    if k == "rstrhist":
        return "rstrhist/%s/%s" % ("same-name" if case["same_name"] else "other-name",
                                   "refused" if not obs.get("created") else "accepted" if obs.get("acc") is not None else "rejected")
    if k in ("num", "numparse", "rstr"):
        extra = "" if k == "rstr" else "/%s/%d cmp/%s" % (case["base"], len(case["restr"]), next(iter(case["value"])))
        return "%s%s/%s" % (k if k != "numparse" else "numparse-" + case["channel"], extra,
                             "accepted" if obs.get("acc") is not None else "rejected")
    if k in ("rangedes",):
        return k + ("/accepted" if obs.get("back") else "/rejected")
    if k == "tddes":
        return k + "/" + next(iter(obs["back"]))
    if k == "decimal":
        return "decimal/" + ("lossless" if obs["file_equal"] and obs["argv_equal"] and obs["json_equal"] else "lossy")
    if k == "builtin":
        return "builtin/" + case["type"]
    return k


def describe(case, obs):
    return {"case": case, "observed": obs}


def shrink(case):
    k = case["kind"]
    if k in ("num", "numparse") and len(case.get("restr", [])) > 1 and "predefined" not in case:
        for i in range(len(case["restr"])):
            r2 = case["restr"][:i] + case["restr"][i + 1:]
            yield dict(case, restr=r2, after=after_for(case["base"], case["join"], [(s_, r) for s_, r in r2]))
    if k in ("num", "numparse", "rstr", "rstrhist", "rangedes", "tddes", "numhist") and "s" in case["value"]:
        s = case["value"]["s"]
        for i in range(len(s)):
            yield dict(case, value={"s": s[:i] + s[i + 1:]})
    if k == "range":
        for f in ("start", "stop", "step"):
            v = int(case[f])
            for w in {0, 1, v // 2, -1} - {v}:
                if f != "step" or w != 0:
                    yield dict(case, **{f: str(w)})
    if k == "td":
        t = int(case["total"])
        for w in {0, 1, -1, t // 2, t % DAY, t - t % 10 ** 6} - {t}:
            yield dict(case, total=str(w))


def search(rng, tier, broken):
    """After a broken proof / tie: ONE fresh quick-sized batch (about a minute), whatever the tier; a case that contradicts
    the spec inside the guard (or outside it in a class that is not a listed finding) is the failing input; failing that,
    a case on which model and implementation differ."""
    import sys

    mod = sys.modules[__name__]
    cases = generate(rng, "quick")
    obs = observe(cases)
    bm, bi, bo = framework.judge_cases(mod, cases, obs, tag="f")
    known = framework.load_known_findings(PROP)
    bad = sorted(set(bi) | {i for i, k in bo if FINDING_CLASSES.get(k) not in known}) or sorted(bm)
    if not bad:
        return None
    i = min(bad, key=lambda j: len(json.dumps(cases[j])))
    return {"case": cases[i], "observed": obs[i], "explain": describe(cases[i], obs[i])}


META = {
    "level_text": "Theorems in coq/Properties/C20.v, all over the whole modelled space. Restricted numbers: C20_restricted_exact / "
                  "_reject / _idempotent / _parse — for EVERY restriction list, join and base type and every Python value, T(v) is "
                  "accepted with value b iff v converts to the base type as b (bool never, float to int only when integral, text "
                  "when it is a numeral, an int to float as the nearest double — rounding beyond 2^53 included) and b satisfies the "
                  "comparisons joined by and/or; a second cast changes nothing; the "
                  "parser path (loaded value, retry with the original text) agrees; C20_operator_table: the operator table "
                  "regenerated from jsonargparse/typing.py denotes the six comparisons; C20_number_type_creation / "
                  "C20_number_type_histories (NEW: restricted_number_type's argument checks, its register key "
                  "(tuple(sorted(restrictions)), base_type, join) compared as Python compares tuples — references numerically — "
                  "and extend_base_type / add_type's registry with its name rules: along ANY history of creations a type handed "
                  "back, new or found under an equal key, validates exactly the comparisons stated in that call, by "
                  "permutation-invariance of and/or over the sorted key), C20_number_type_creation_valid. Restricted strings: "
                  "C20_restricted_string_exact (derivative matcher proved sound and complete for the denotational language; "
                  "re.match = prefix match, `$` allows one final newline, under MULTILINE any newline; IGNORECASE / DOTALL / "
                  "VERBOSE are resolved by the translator), C20_string_type_creation (the registry of extend_base_type: inside "
                  "the guard the type handed back accepts exactly what the GIVEN compiled pattern accepts), "
                  "C20_string_type_creation_flags_in_key (the key of the repaired tree, /repo e33ad1a, read from the source: no "
                  "guard is left, along any history of creations), C20_string_type_key_ignores_flags_refuted (regression "
                  "witness: the text-only key). Registered types: C20_registry (the module-level "
                  "register_type calls, regenerated from the source, bind each type to the modelled serializer/deserializer pair), "
                  "C20_registry_stable / C20_register_type_repeat (NEW: register_type as a transition of "
                  "registered_type_handlers — RegisteredType.__eq__ on class, serializer, base deserializer; along any history "
                  "of default-flag calls a registered type keeps its pair, a call let through repeated it); "
                  "C20_range_roundtrip for ALL ranges over Z (empty ones included) and C20_range_regexes (the three patterns of "
                  "the source accept exactly what the model's scanner accepts, for every string); C20_timedelta_roundtrip for ALL "
                  "representable timedeltas (negative, sub-second), C20_timedelta_registered_roundtrip (through "
                  "RegisteredType.deserializer with the default deserializer_exceptions read from the source) and C20_timedelta_regexes (likewise for the two patterns of "
                  "timedelta_deserializer under re.match); C20_secret_never_dumped; Decimal: "
                  "C20_decimal_via_float_refuted (registered with serializer float the file round trip of Decimal('0.1') fails "
                  "whatever float() returns: the defect repaired by /repo 5683186, kept as regression witness), "
                  "C20_decimal_hybrid_roundtrip (the registration of the repaired tree, which C20_registry finds in the source: "
                  "EVERY finite decimal round-trips on every channel) and "
                  "C20_decimal_guarded_roundtrip (either registration inside the judge's guard). Only exercised by the "
                  "correspondence: complex, UUID, bytes, bytearray and pathlib round trips (Python builtins), the yaml/json "
                  "quoting of the serialised texts on the four channels (dump->parse_string, argv, config file, json) plus the "
                  "pass-through of an already typed value, the same values under Any and inside Optional / List / Dict, that a later parse of the same text is not affected by in-place changes "
                  "of the value an earlier parse handed out, that no dump/save/str/repr shows a secret, that a type keeps the "
                  "comparisons stated at its creation when the caller later changes the list object it passed, the automatic "
                  "name of a type created with name=None (not modelled: only that the type validates), equality / hash / len of "
                  "SecretStr.",
    "level_note": "Trusted: Coq kernel/VM; faithfulness of the hand-written models outside the generated cases; the AST translators "
                  "(operator table, regexes, registry; fail closed); Python's int()/float() text grammars (modelled, tied per "
                  "case) and double arithmetic (floats are fixed-point multiples of 10^-6 in the model); float()/repr() of a "
                  "Decimal are external functions (only 'the result is a binary double' is used; for the pre-fix guard their "
                  "exactness on 15-digit binary doubles is a stated hypothesis, float_faithful). No axioms.",
    "technique": "Rocq proofs (reflection of the boolean model against a Prop spec, list/regex induction, Brzozowski derivatives, "
                 "lia with div/mod, registry invariants preserved along histories, Permutation of the insertion-sorted key) + operator table, regexes and registry translated from the source on every run + "
                 "correspondence evaluated inside Coq (model agreement, guard class, spec agreement per case)",
}

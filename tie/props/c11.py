"""C11 — Namespace vs Model/Ns.v vs Spec/NestedDict.v over operation histories."""
import itertools
import os
import sys

from tie import framework as fw
from tie.framework import g_bool, g_list, g_opt, g_pair, g_str, g_Z

PROP = "C11"
IMPORTS = "From JV Require Import Lib.Base Model.Ns Model.NsRun Model.NsGuard Spec.NestedDict Spec.NestedDictRun Gen.C11Clash Corr.C11Judge."
RULE = ("histories of Namespace operations {set, setattr, get, get-default, contains, step-by-step get, del, pop, update(value), "
        "update(ns), update(only_unset), clone, items/keys/values(branches), as_dict + namespace_to_dict, ==/!= against a built "
        "value, Namespace(dict), dict_to_namespace(dict)} starting from an empty namespace; keys of depth 1-3 over ordinary names "
        "and the method-name clashes; scalar/None/list/tuple/dict/namespace values; the dictionaries given to ns[k]=, Namespace(dict) and "
        "dict_to_namespace hold scalars, None, lists, tuples (also holding dicts / lists / tuples), nested dicts and lists of dicts. quick: every history of length <=2 over a "
        "fixed operation alphabet (82 operations), 16 hand-written histories through dicts and Namespaces inside dicts, 400 equality histories [ns[k]=V; (random step); ns == re-ordered or "
        "one-place-perturbed V], 500 histories [ns[k] = rich dictionary; 2-7 operations addressed by paths INTO it, incl. update(value / namespace, only_unset) below the dict], and 1500 seeded random histories of length 3-40 (thorough: also length-3 products and 30000 random); "
        "after EVERY step the output and the whole __dict__ tree are compared with model and spec; the runner also demands of the real class: keys/values = projections of items, "
        "get_sorted_keys = keys by descending depth with the prefix closure, as_flat = flat namespace of items(), get_value_and_parent = ns[k], non-string keys are no members, "
        "clone / namespace_to_dict share no mutable node (also below tuples), dict_to_namespace / update(namespace) leave their argument alone. "
        "non-trivial = history with at least one successful mutation; distinct = distinct (history, observations)")
TRUSTED = [
    "Coq 8.16.1 kernel + vm_compute",
    "tie/impl/c11_ns.py (builds values, reads back __dict__ trees) and the Gallina printer in tie/props/c11.py",
    "translator of dir(Namespace) into coq/Gen/C11Clash.v (the theorems hold for ANY clash set)",
]
ASSUMPTIONS = [
    "user key segments do not start with U+200B; Namespace values are given in stored form (as setattr builds them)",
    "exception classes are not compared (the property speaks of agreement with a nested dictionary, not of error types)",
    "update(namespace, key): every key prefix+item_key the update addresses has segments that do not start with U+200B "
    "(upd_keys_ok; attribute names of the source that contain a dot are read as paths, by the code and by the dictionary alike)",
]
EXHAUSTIVE = {"quick": False, "thorough": False}
FINDING_CLASSES = {1: "path-through-dict"}   # class 1 exists only in the judge of the pre-fix code (`judge`); judge_fixed has classes 0/2/3
# the finding was repaired in /repo (b856eae): the judge compares with the model of the patched code (Model/C11NsFixed.v)
JUDGE = "judge_fixed"
META = {
    "level_text": "Proved in Coq for ALL inputs of the modelled space, about the CURRENT code (after the repair b856eae, model "
                  "coq/Model/C11NsFixed.v; coq/Properties/C11.v, every theorem closed under the global context): "
                  "ns_refines_dict — for ANY clash set and ANY history (unbounded length, key depth and value size) of "
                  "ns[k]=v, setattr, ns[k], get(k,d), k in ns, del, pop, update(value,k,only_unset), update(namespace,k,only_unset) "
                  "(round 6: any source in stored form, Namespaces inside its lists included; only_unset decided per item against the "
                  "current state; a rejected item key stops model and dictionary at the same item, no rollback), clone, "
                  "items/keys/values(branches) and as_dict from the empty Namespace, the Gallina model of "
                  "jsonargparse.Namespace answers every step exactly as an ordered nested dictionary addressed by paths does "
                  "and its stored __dict__ tree, clash marks removed, IS that dictionary after every step; keys the code rejects "
                  "(space, empty segment) are included (both fail, state unchanged); dotted keys THROUGH dict-valued leaves and "
                  "through Namespaces stored inside dicts are included — there is no path-through-dict guard any more. "
                  "Hypothesis (one executable classifier, hist_class_fx = 0): key segments do not start with U+200B (for "
                  "update(namespace): the keys prefix+item_key it addresses) and values "
                  "are in stored form along every path (wf2). update_namespace_refines: the update(namespace) step on its own from any well-formed tree. step_commutes / ns_refines_dict_from: the same per step and from "
                  "any well-formed state; dotted_eq_stepwise: reading s1.s2...sn as one dotted string is reading "
                  "ns[s1][s2]...[sn], any depth, through dicts, no hypothesis on the tree; clash_names_transparent: the "
                  "user-visible behaviour does not depend on the clash set (method-name keys are stored and returned like any "
                  "other); failed_op_changes_nothing; items_agree, as_dict_agrees (no hypothesis), eq_agrees (Python's == on "
                  "stored trees is == on the dictionaries, order-insensitive, for values in stored form at every depth). "
                  "fixed_refines_through_dicts: an older kernel-evaluated product (~37000 histories incl. operations outside the "
                  "proved core) kept as a cross-check. The theorems about the code BEFORE the repair are kept as *_prefix, with "
                  "path_through_dict_refuted (ns['a']={'b':1}; ns['a.b'] raised) as regression witness of the fixed finding.",
    "level_note": "Only exercised by the correspondence (model AND spec agreement demanded per step, judged inside Coq, not "
                  "proved): Namespace(dict), dict_to_namespace, namespace_to_dict (= as_dict, no shared "
                  "branch), == / != as a step of histories (the standalone theorem eq_agrees needs stored form at every depth, which "
                  "the refinement invariant does not carry below lists), step-by-step reading as a step of histories (covered by "
                  "the standalone theorem dotted_eq_stepwise), and the runner-side demands on the real class that have no Gallina counterpart: clone's / "
                  "namespace_to_dict's no-aliasing check, get_sorted_keys / as_flat / get_value_and_parent / keys / values as "
                  "projections of items() resp. ns[k], non-string membership, arguments left unmodified. Not modelled: exception classes, "
                  "aliasing between a stored value and the caller's object, meta keys / strip_meta, "
                  "non-string dict keys. Trusted: Coq kernel + vm_compute; faithfulness of coq/Model/C11NsFixed.v (with the "
                  "shared parts of coq/Model/Ns.v) beyond the tested histories; tie/impl/c11_ns.py and the Gallina printer; "
                  "translator of dir(Namespace) (the theorems hold for any clash set).",
    "technique": "Rocq refinement proof in two layers (Gallina model of the patched Namespace vs path operations on the un-marked "
                 "value tree, by induction on the path uniformly for Namespace and dict parents; the nested-dictionary spec's "
                 "node operations are those value operations; update(namespace) as a fold of membership test + path assignment "
                 "over the source's leaf items, by induction on the item list), step simulation lifted over histories by induction + "
                 "correspondence over exhaustive short and seeded random histories of the real class, verdicts (model agreement "
                 "/ guard class / spec agreement) computed in Coq by vm_compute",
}

NAMES = ["a", "b", "items", "keys", "get", "update", "pop", "clone", "values", "as_dict"]


def translate():
    """dir(Namespace) of the current tree -> coq/Gen/C11Clash.v (fail closed on anything that is not a str set)."""
    code = ("import json,sys\nfrom jsonargparse import _namespace as m\n"
            "assert isinstance(m.clash_names,set) and all(isinstance(x,str) for x in m.clash_names)\n"
            "assert m.clash_mark=='\\u200b'\nassert m.meta_keys=={'__default_config__','__path__','__orig__'}\n"
            "print(json.dumps(sorted(m.clash_names)))")
    import subprocess, json
    p = subprocess.run([fw.PY, "-B", "-c", code], stdout=subprocess.PIPE, stderr=subprocess.PIPE, env=fw.impl_env())
    if p.returncode != 0:
        raise fw.TieBroken("cannot read clash_names / clash_mark from the tree: " + p.stderr.decode()[-500:])
    names = json.loads(p.stdout.decode().strip().splitlines()[-1])
    text = "From JV Require Import Lib.Base.\nDefinition clash_names : list str := [\n" + ";\n".join(fw.g_str(n) for n in names) + "].\n"
    path = os.path.join(fw.COQ, "Gen", "C11Clash.v")
    if not os.path.exists(path) or open(path).read() != text:
        open(path, "w").write(text)
    return {"C11Clash.v": "%d names from dir(Namespace)" % len(names)}


# ---- values ---------------------------------------------------------------------------------
def I(n): return {"i": n}
def S(s): return {"s": s}
NONE = {"n": 0}
def L(*xs): return {"l": list(xs)}
def T(*xs): return {"t": list(xs)}
def D(**kw): return {"d": [[k, v] for k, v in kw.items()]}
def NS(**kw): return {"ns": [[k, v] for k, v in kw.items()]}

VALUES = [
    I(1), S("x"), NONE, L(I(1), I(2)), T(I(1), L(I(2))), D(b=I(1)), D(items=I(1), a=D(b=I(2))),
    NS(b=I(3)), NS(items=I(4), a=NS(keys=I(5))), L(NS(a=I(1)), NS(items=I(2))), NS(), D(),
]
KEYS1 = ["a", "b", "items", "a.b", "a.items", "items.a", "a.b.c", "keys.get.pop", "a.items.b", "b.a"]
BADKEYS = ["a b", "a..b", "", ".a", "a b.c", "a. b", "a.b c.items", "a.", " ", "items..a"]


def alphabet(keys, values):
    ops = []
    for k in keys:
        for v in values:
            ops.append({"op": "set", "k": k, "v": v})
        ops += [{"op": "get", "k": k}, {"op": "contains", "k": k}, {"op": "del", "k": k},
                {"op": "pop", "k": k, "dflt": I(9)}, {"op": "getd", "k": k, "dflt": I(9)}]
        if "." in k:
            ops.append({"op": "getsteps", "k": k})
    return ops


def small_alphabet():
    keys = ["a", "items", "a.b", "a.items", "a.b.c"]
    vals = [I(1), NONE, D(b=I(1), items=I(2)), NS(b=I(3), items=I(4)), L(NS(a=I(1)))]
    ops = alphabet(keys, vals)
    ops += [{"op": "setattr", "k": "items", "v": I(7)}, {"op": "setattr", "k": "a.keys", "v": I(7)}]
    ops += [{"op": "updv", "v": I(5), "k": "a.b", "ou": True}, {"op": "updv", "v": I(5), "k": "a", "ou": False},
            {"op": "updv", "v": I(5), "k": None, "ou": False},
            {"op": "updns", "v": NS(a=NS(b=I(6)), items=I(7)), "k": None, "ou": False},
            {"op": "updns", "v": NS(a=NS(b=I(6)), items=I(7)), "k": None, "ou": True},
            {"op": "updns", "v": NS(b=I(6), keys=NS()), "k": "a", "ou": False},
            {"op": "clone"}, {"op": "items", "br": False}, {"op": "items", "br": True}, {"op": "asdict"},
            {"op": "initdict", "v": D(**{"a.b": I(1), "items": D(x=I(2))})},
            {"op": "set", "k": "a b", "v": I(1)}, {"op": "get", "k": "a..b"}, {"op": "contains", "k": "a b"},
            {"op": "pop", "k": "", "dflt": I(9)},
            {"op": "set", "k": "a b.c", "v": I(1)}, {"op": "initdict", "v": D(**{"b": I(1), "a b": I(2)})},
            {"op": "set", "k": "b", "v": T(L(I(1)), NS(items=I(2)), D(a=L()))}]
    ops += [{"op": "eq", "v": NS()}, {"op": "eq", "v": NS(a=I(1))}, {"op": "eq", "v": NS(a=NS(b=I(1)))},
            {"op": "eq", "v": NS(items=I(1))}, {"op": "eq", "v": NS(a=D(items=I(2), b=I(1)))}, {"op": "eq", "v": D(a=I(1))},
            {"op": "fromdict", "v": D(**{"a.b": I(1), "items": D(x=I(2), keys=L(D(a=I(1)), I(2))), "a": D(items=I(3))})},
            {"op": "fromdict", "v": D(a=D(), b=L(L(D(a=I(1)))), **{"a.b c": I(1)})},
            {"op": "fromdict", "v": D(a=T(I(1), T(I(2), I(3))), items=D(keys=T(D(a=I(1)), L(I(2))), b=T()), b=L(T(I(1), I(2)), D(x=T(I(3)))))}]
    return ops


def random_value(rng, depth=0):
    r = rng.random()
    if depth > 2 or r < 0.35:
        return rng.choice([I(rng.randint(0, 3)), S(rng.choice(["x", "y"])), NONE])
    if r < 0.5:
        return L(*[random_value(rng, depth + 1) for _ in range(rng.randint(0, 2))])
    if r < 0.58:
        return T(*[random_value(rng, depth + 1) for _ in range(rng.randint(0, 2))])
    if r < 0.72:
        return {"d": [[k, random_dict_value(rng, depth + 1)] for k in rng.sample(NAMES, rng.randint(0, 2))]}
    if r < 0.8:
        return L(*[random_ns(rng, depth + 1) for _ in range(rng.randint(1, 2))])
    return random_ns(rng, depth)


def random_dict_value(rng, depth):
    """a value held by a dictionary: scalars, None, lists, TUPLES (also holding dicts / lists / tuples), nested dicts, lists
    holding dicts — every kind of leaf a nested dictionary given to Namespace(dict) / dict_to_namespace / ns[k]= can hold"""
    r = rng.random()
    if depth > 2 or r < 0.45:
        return rng.choice([I(rng.randint(0, 3)), S("x"), NONE, L(I(1)), T(I(1), I(2)), T()])
    if r < 0.6:
        return T(*[random_dict_value(rng, depth + 1) for _ in range(rng.randint(1, 3))])
    if r < 0.7:
        return L(*[random_dict_value(rng, depth + 1) for _ in range(rng.randint(1, 3))])
    return {"d": [[k, random_dict_value(rng, depth + 1)] for k in rng.sample(NAMES, rng.randint(0, 2))]}


def random_ns(rng, depth):
    return {"ns": [[k, random_value(rng, depth + 1)] for k in rng.sample(NAMES, rng.randint(0, 3))]}


def random_key(rng, through_dict_ok=True):
    n = rng.choice([1, 1, 2, 2, 3])
    pool = NAMES if rng.random() < 0.5 else NAMES[:4]
    return ".".join(rng.choice(pool) for _ in range(n))


def random_op(rng):
    r = rng.random()
    k = random_key(rng)
    if r < 0.30:
        return {"op": "set", "k": k, "v": random_value(rng)}
    if r < 0.34:
        return {"op": "setattr", "k": k, "v": random_value(rng)}
    if r < 0.39:
        return {"op": "get", "k": k}
    if r < 0.42:
        return {"op": "getsteps", "k": k}
    if r < 0.47:
        return {"op": "getd", "k": k, "dflt": I(9)}
    if r < 0.55:
        return {"op": "contains", "k": k}
    if r < 0.63:
        return {"op": "del", "k": k}
    if r < 0.71:
        return {"op": "pop", "k": k, "dflt": rng.choice([I(9), NONE])}
    if r < 0.77:
        return {"op": "updv", "v": random_value_non_ns(rng), "k": rng.choice([k, k, None]), "ou": rng.random() < 0.5}
    if r < 0.85:
        return {"op": "updns", "v": random_ns(rng, 0), "k": rng.choice([None, None, random_key(rng)]), "ou": rng.random() < 0.5}
    if r < 0.865:
        return {"op": "eq", "v": rng.choice([random_ns(rng, 0), NS()])}
    if r < 0.88:
        return {"op": "clone"}
    if r < 0.94:
        return {"op": "items", "br": rng.random() < 0.5}
    if r < 0.97:
        return {"op": "asdict"}
    if r < 0.98:
        return {"op": "initdict", "v": {"d": [[rng.choice(BADKEYS) if rng.random() < 0.1 else random_key(rng), random_dict_value(rng, 1)]
                                              for _ in range(rng.randint(0, 3))]}}
    if r < 0.99:
        return {"op": "fromdict", "v": {"d": [[random_key(rng), random_dict_value(rng, 0)] for _ in range(rng.randint(0, 3))]}}
    return {"op": rng.choice(["set", "get", "contains", "del"]), "k": rng.choice(BADKEYS), "v": I(1)}


def random_value_non_ns(rng):
    while True:
        v = random_value(rng)
        if "ns" not in v:
            return v


def permuted(rng, v):
    """the same value with the entries of every Namespace and dict in another order (Python's == must not notice)"""
    (k, x), = v.items()
    if k in ("d", "ns"):
        ents = [[kk, permuted(rng, vv)] for kk, vv in x]
        rng.shuffle(ents)
        return {k: ents}
    if k in ("l", "t"):
        return {k: [permuted(rng, e) for e in x]}
    return v


def perturbed(rng, v):
    """a value that differs from v in exactly one place (a leaf, a missing / extra entry, list order, ns<->dict, list<->tuple)"""
    (k, x), = v.items()
    if k in ("d", "ns") and x and rng.random() < 0.7:
        i = rng.randrange(len(x))
        r = rng.random()
        if r < 0.2:
            return {k: x[:i] + x[i + 1:]}
        if r < 0.3:
            return {k: x + [["y", I(0)]]}
        return {k: x[:i] + [[x[i][0], perturbed(rng, x[i][1])]] + x[i + 1:]}
    if k in ("l", "t") and len(x) > 1 and rng.random() < 0.5:
        return {k: x[1:] + x[:1]} if x[1:] + x[:1] != x else {k: x[1:]}
    if k in ("l", "t") and x and rng.random() < 0.6:
        i = rng.randrange(len(x))
        return {k: x[:i] + [perturbed(rng, x[i])] + x[i + 1:]}
    flip = {"d": "ns", "ns": "d", "l": "t", "t": "l"}
    if k in flip:
        return {flip[k]: x}
    return I(7) if v != I(7) else NONE


def nest(key, v):
    segs = key.split(".")
    for sg in reversed(segs):
        v = {"ns": [[sg, v]]}
    return v


def eq_family(rng, n):
    """[ns[k] = V; (an optional further step); ns == W] with W = V re-ordered (True expected unless the extra step changed
    something) or V changed in one place (False expected)"""
    cases = []
    for _ in range(n):
        k = random_key(rng)
        v = rng.choice([random_ns(rng, 0), random_value(rng), random_ns(rng, 1)])
        hist = [{"op": "set", "k": k, "v": v}]
        r = rng.random()
        w = permuted(rng, v) if r < 0.5 else perturbed(rng, v) if r < 0.9 else v
        if rng.random() < 0.3:
            hist.append(random_op(rng))
        hist.append({"op": "eq", "v": nest(k, w)})
        if rng.random() < 0.3:
            hist += [{"op": "fromdict", "v": {"d": [[random_key(rng), random_dict_value(rng, 0)] for _ in range(rng.randint(1, 3))]}},
                     {"op": "asdict"}, {"op": "items", "br": True}]
        cases.append(hist)
    return cases


def through_dict_family():
    """hand-written histories through dict-valued leaves and through a Namespace stored INSIDE a dict (missing levels are
    created as a dict below a dict, as a Namespace below a Namespace; clash names carry no mark inside a dict)"""
    base = [{"op": "set", "k": "a", "v": D(b=NS(items=I(1)), items=I(2))}]
    tails = [
        [{"op": "set", "k": "a.b.c.d", "v": I(1)}, {"op": "get", "k": "a.b.c"}, {"op": "get", "k": "a.b.c.d"}],
        [{"op": "set", "k": "a.c.items.keys", "v": I(1)}, {"op": "get", "k": "a.c"}, {"op": "contains", "k": "a.c.items.keys"}],
        [{"op": "get", "k": "a.b.items"}, {"op": "del", "k": "a.b.items"}, {"op": "contains", "k": "a.b.items"}, {"op": "get", "k": "a.b"}],
        [{"op": "pop", "k": "a.items", "dflt": I(9)}, {"op": "pop", "k": "a.items", "dflt": I(9)}, {"op": "del", "k": "a.items"}],
        [{"op": "set", "k": "a.b.items", "v": D(x=I(3))}, {"op": "set", "k": "a.b.items.keys", "v": I(4)}, {"op": "get", "k": "a.b.items"}],
        [{"op": "updv", "v": I(5), "k": "a.b.items", "ou": True}, {"op": "updv", "v": I(5), "k": "a.b.keys", "ou": True}, {"op": "get", "k": "a.b"}],
        [{"op": "set", "k": "a.items.x", "v": I(1)}, {"op": "get", "k": "a.items"}, {"op": "set", "k": "a.b.items.x", "v": I(1)}, {"op": "get", "k": "a.b"}],
        [{"op": "getsteps", "k": "a.b.items"}, {"op": "getsteps", "k": "a.items"}, {"op": "getsteps", "k": "a.b.c"}],
    ]
    end = [{"op": "asdict"}, {"op": "items", "br": True}, {"op": "clone"}]
    return [base + t + end for t in tails] + [base + t for t in tails]


def rich_dict(rng, depth):
    """a dictionary with ordinary and method-name keys whose entries are scalars, None, lists, tuples, Namespaces and
    (half of the time, down to depth 3) further dictionaries: something to address with dotted keys"""
    ents = []
    for k in rng.sample(NAMES, rng.randint(1, 3)):
        r = rng.random()
        if depth < 2 and r < 0.5:
            v = rich_dict(rng, depth + 1)
        elif r < 0.6:
            v = random_ns(rng, 1)
        elif r < 0.7:
            v = D()
        else:
            v = rng.choice([I(rng.randint(0, 3)), NONE, S("x"), L(I(1)), T(I(1), L(I(2))), L(), I(0)])
        ents.append([k, v])
    return {"d": ents}


def paths_of(v):
    """the dotted paths below a dict / namespace value"""
    (k, x), = v.items()
    out = []
    if k in ("d", "ns"):
        for kk, vv in x:
            out.append(kk)
            out += [kk + "." + p for p in paths_of(vv)]
    return out


def ns_from_paths(pairs):
    """a Namespace value holding the given (dotted path, value) leaves, common prefixes merged"""
    root = []

    def put(ents, segs, v):
        for e in ents:
            if e[0] == segs[0]:
                if len(segs) == 1:
                    e[1] = v
                elif "ns" in e[1]:
                    put(e[1]["ns"], segs[1:], v)
                else:
                    e[1] = {"ns": []}
                    put(e[1]["ns"], segs[1:], v)
                return
        if len(segs) == 1:
            ents.append([segs[0], v])
        else:
            sub = []
            ents.append([segs[0], {"ns": sub}])
            put(sub, segs[1:], v)
    for pth, v in pairs:
        put(root, pth.split("."), v)
    return {"ns": root}


def dict_paths_family(rng, n):
    """[ns[k] = <rich dictionary>; 2-7 operations whose keys are paths INTO that dictionary (existing ones, existing ones
    extended by a segment, with method names in the middle), among them update(value, key, only_unset) and
    update(namespace, [prefix], only_unset) whose item keys lead below the dict value; as_dict / items]"""
    cases = []
    for _ in range(n):
        root_key = ".".join(rng.choice(NAMES) for _ in range(rng.choice([1, 1, 2])))
        d = rich_dict(rng, 0)
        hist = [{"op": "set", "k": root_key, "v": d}]
        rel = paths_of(d)

        def pick(relative=False):
            p = rng.choice(rel)
            if rng.random() < 0.3:
                p += "." + rng.choice(NAMES)
            return p if relative else root_key + "." + p
        for _ in range(rng.randint(2, 7)):
            r = rng.random()
            if r < 0.12:
                hist.append({"op": "get", "k": pick()})
            elif r < 0.2:
                hist.append({"op": "getsteps", "k": pick()})
            elif r < 0.3:
                hist.append({"op": "contains", "k": pick()})
            elif r < 0.36:
                hist.append({"op": "getd", "k": pick(), "dflt": I(9)})
            elif r < 0.46:
                hist.append({"op": "pop", "k": pick(), "dflt": rng.choice([I(9), NONE])})
            elif r < 0.54:
                hist.append({"op": "del", "k": pick()})
            elif r < 0.68:
                hist.append({"op": "set", "k": pick(), "v": rng.choice([I(5), NONE, rich_dict(rng, 1), random_value(rng)])})
            elif r < 0.78:
                hist.append({"op": "updv", "v": rng.choice([I(6), NONE, D(b=I(1))]), "k": pick(), "ou": rng.random() < 0.7})
            else:
                if rng.random() < 0.5:
                    src = ns_from_paths([(pick(), rng.choice([I(7), NONE, L(I(7))])) for _ in range(rng.randint(1, 3))])
                    hist.append({"op": "updns", "v": src, "k": None, "ou": rng.random() < 0.7})
                else:
                    src = ns_from_paths([(pick(True), rng.choice([I(7), NONE, L(I(7))])) for _ in range(rng.randint(1, 3))])
                    hist.append({"op": "updns", "v": src, "k": root_key, "ou": rng.random() < 0.7})
        hist += rng.choice([[], [{"op": "asdict"}], [{"op": "items", "br": rng.random() < 0.5}], [{"op": "clone"}, {"op": "asdict"}]])
        cases.append(hist)
    return cases


def generate(rng, tier):
    alpha = small_alphabet()
    cases = through_dict_family() + [[a] for a in alpha]
    cases += [[a, b] for a in alpha for b in alpha]
    if tier == "thorough":
        first = [a for a in alpha if a["op"] in ("set", "initdict", "updns")]
        cases += [[a, b, c] for a in first for b in alpha[::2] for c in alpha[1::3]]
    cases += eq_family(rng, 400 if tier == "quick" else 4000)
    cases += dict_paths_family(rng, 500 if tier == "quick" else 5000)
    n = 1500 if tier == "quick" else 30000
    for _ in range(n):
        ln = rng.randint(3, 40) if rng.random() < 0.5 else rng.randint(3, 10)
        cases.append([random_op(rng) for _ in range(ln)])
    return cases


def observe(cases):
    chunks = [cases[i::16] for i in range(16)]
    res = fw.run_impl_parallel("c11_ns.py", [{"cases": ch} for ch in chunks])
    out = [None] * len(cases)
    for k, r in enumerate(res):
        out[k::16] = r
    return out


# ---- Gallina ----------------------------------------------------------------------------------
# Names defined in Corr/C11Judge.v (n_<name>, mk_ = clash-marked, dk = dotted key): parsing literal code-point lists
# dominated the coqc time of the case files. Anything outside the table is printed literally.
SHORT = {"a", "b", "x", "y", "c", "d", "items", "keys", "get", "update", "pop", "clone", "values", "as_dict"}
_raw_g_str = g_str


def _seg(s):
    if s in SHORT:
        return "n_" + s
    if s[:1] == "\u200b" and s[1:] in SHORT:
        return "(mk_ n_%s)" % s[1:]
    return None


def g_str(s):
    one = _seg(s)
    if one:
        return one
    if "." in s:
        segs = [_seg(x) for x in s.split(".")]
        if all(segs):
            return "(dk [%s])" % "; ".join(segs)
    return _raw_g_str(s)


def gv(v):
    (k, x), = v.items()
    if k == "i":
        return "VInt %s" % g_Z(x)
    if k == "s":
        return "VStr %s" % g_str(x)
    if k == "n":
        return "VNone"
    if k == "l":
        return "VList %s" % g_list(["(%s)" % gv(e) for e in x], "val")
    if k == "t":
        return "VTup %s" % g_list(["(%s)" % gv(e) for e in x], "val")
    if k in ("d", "ns"):
        return "%s %s" % ("VDict" if k == "d" else "VNs", g_list([g_pair(g_str(kk), gv(vv)) for kk, vv in x], "(str * val)"))
    raise ValueError(k)


def gop(op):
    k = op["op"]
    key = g_str(op["k"]) if op.get("k") is not None else None
    if k == "set":
        return "OSet %s (%s)" % (key, gv(op["v"]))
    if k == "setattr":
        return "OSetAttr %s (%s)" % (key, gv(op["v"]))
    if k == "get":
        return "OGet %s" % key
    if k == "getd":
        return "OGetD %s (%s)" % (key, gv(op["dflt"]))
    if k == "contains":
        return "OContains %s" % key
    if k == "del":
        return "ODel %s" % key
    if k == "pop":
        return "OPop %s (%s)" % (key, gv(op["dflt"]))
    if k == "updv":
        return "OUpdV (%s) %s %s" % (gv(op["v"]), g_opt(key), g_bool(op["ou"]))
    if k == "updns":
        return "OUpdNs (%s) %s %s" % (gv(op["v"]), g_opt(key), g_bool(op["ou"]))
    if k == "clone":
        return "OClone"
    if k == "items":
        return "OItems %s" % g_bool(op["br"])
    if k == "asdict":
        return "OAsDict"
    if k == "initdict":
        return "OInitDict (%s)" % gv(op["v"])
    if k == "fromdict":
        return "OFromDict (%s)" % gv(op["v"])
    if k == "getsteps":
        return "OGetSteps %s" % key
    if k == "eq":
        return "OEq (%s)" % gv(op["v"])
    raise ValueError(k)


def gout(o):
    (k, x), = o.items()
    if k == "unit":
        return "OutUnit"
    if k == "fail":
        return "OutFail"
    if k == "val":
        return "OutVal (%s)" % gv(x)
    if k == "bool":
        return "OutBool %s" % g_bool(x)
    if k == "items":
        return "OutItems %s" % g_list([g_pair(g_str(kk), gv(vv)) for kk, vv in x], "(str * val)")
    raise ValueError(k)


def term(case, obs):
    ops = g_list([gop(o) for o in obs["ops"]], "op")
    prev, parts = {"ns": []}, []
    for o, st in obs["steps"]:      # the tree is printed only when it differs from the one before the step
        parts.append(g_pair(gout(o), "None" if st == prev else "(Some %s)" % gv(st)[4:]))
        prev = st
    steps = g_list(parts, "(out * option alist)")
    return "{| c_ops := %s; c_steps := %s |}" % (ops, steps)


def nontrivial_key(case, obs):
    prev = {"ns": []}
    mutated = False
    for o, st in obs["steps"]:
        if st != prev:
            mutated = True
        prev = st
    return repr((case, obs["steps"])) if mutated else None


def category(case, obs):
    fails = sum(1 for o, _ in obs["steps"] if "fail" in o)
    return "len %s, %s failing steps" % ("1-2" if len(case) <= 2 else "3-10" if len(case) <= 10 else "11-40", "0" if not fails else "1-2" if fails < 3 else "3+")


def describe(case, obs):
    return {"history": case, "observed_steps": obs["steps"]}


def shrink(case):
    """shortest failing prefix first (a failure at step n needs nothing after n), then histories with chunks / single steps removed"""
    n = len(case)
    for k in range(1, n):
        yield case[:k]
    if n > 8:
        for i in range(0, n - 1, 4):
            yield case[:i] + case[i + 4:] if i + 4 < n else case[:i] + case[-1:]
    for i in range(n - 1):
        yield case[:i] + case[i + 1:]


def search(rng, tier, broken):
    """A proof or the tie broke without a spec failure among the generated cases: look through a fresh quick-size batch
    (never the 30k thorough batch) for a history on which the implementation contradicts the spec; failing that, for the
    shortest history on which it departs from the model."""
    cases = generate(rng, "quick")
    obs = observe(cases)
    bm, bi, bo = fw.judge_cases(sys.modules[__name__], cases, obs, tag="x")
    known = fw.load_known_findings(PROP)
    spec_bad = sorted(set(bi) | {i for i, k in bo if FINDING_CLASSES.get(k) not in known}, key=lambda i: len(cases[i]))
    pick = spec_bad[0] if spec_bad else (sorted(bm, key=lambda i: len(cases[i]))[0] if bm else None)
    if pick is None:
        return None
    what = "implementation contradicts the nested-dictionary spec" if spec_bad else "implementation departs from the model (spec still satisfied)"
    return {"case": cases[pick], "observed": obs[pick], "explain": dict(describe(cases[pick], obs[pick]), what=what)}

"""C11 — Namespace vs Model/Ns.v vs Spec/NestedDict.v over operation histories."""
import itertools
import os

from tie import framework as fw
from tie.framework import g_bool, g_list, g_opt, g_pair, g_str, g_Z

PROP = "C11"
IMPORTS = "From JV Require Import Lib.Base Model.Ns Model.NsRun Model.NsGuard Spec.NestedDict Spec.NestedDictRun Gen.C11Clash Corr.C11Judge."
RULE = ("histories of Namespace operations {set, setattr, get, get-default, contains, del, pop, update(value), update(ns), "
        "update(only_unset), clone, items/keys/values(branches), as_dict, Namespace(dict)} starting from an empty namespace; "
        "keys of depth 1-3 over ordinary names and the method-name clashes; scalar/None/list/tuple/dict/namespace values. "
        "quick: every history of length <=2 over a fixed operation alphabet plus seeded random histories of length 3-40; "
        "after EVERY step the output and the whole __dict__ tree are compared with model and spec. "
        "non-trivial = history with at least one successful mutation; distinct = distinct (history, observations)")
TRUSTED = [
    "Coq 8.16.1 kernel + vm_compute",
    "tie/impl/c11_ns.py (builds values, reads back __dict__ trees) and the Gallina printer in tie/props/c11.py",
    "translator of dir(Namespace) into coq/Gen/C11Clash.v (the theorems hold for ANY clash set)",
]
ASSUMPTIONS = [
    "user key segments do not start with U+200B and are not attribute names of dict other than Namespace's own (hasattr(dict, k) is modelled as False)",
    "exception classes are not compared (the property speaks of agreement with a nested dictionary, not of error types)",
]
EXHAUSTIVE = {"quick": False, "thorough": False}
FINDING_CLASSES = {1: "path-through-dict"}

NAMES = ["a", "b", "items", "keys", "get", "update", "pop", "clone", "values", "as_dict"]


def translate():
    """dir(Namespace) of the current tree -> coq/Gen/C11Clash.v (fail closed on anything that is not a str set)."""
    code = ("import json,sys\nfrom jsonargparse import _namespace as m\n"
            "assert isinstance(m.clash_names,set) and all(isinstance(x,str) for x in m.clash_names)\n"
            "assert m.clash_mark=='\\u200b'\nassert m.meta_keys=={'__default_config__','__path__','__orig__'}\n"
            "print(json.dumps(sorted(m.clash_names)))")
    import subprocess, json
    p = subprocess.run([fw.PY, "-B", "-c", code], stdout=subprocess.PIPE, stderr=subprocess.PIPE, env=fw.impl_env())
    if p.returncode != 0:
        raise fw.TieBroken("cannot read clash_names / clash_mark from the tree: " + p.stderr.decode()[-500:])
    names = json.loads(p.stdout.decode().strip().splitlines()[-1])
    text = "From JV Require Import Lib.Base.\nDefinition clash_names : list str := [\n" + ";\n".join(g_str(n) for n in names) + "].\n"
    path = os.path.join(fw.COQ, "Gen", "C11Clash.v")
    if not os.path.exists(path) or open(path).read() != text:
        open(path, "w").write(text)
    return {"C11Clash.v": "%d names from dir(Namespace)" % len(names)}


# ---- values ---------------------------------------------------------------------------------
def I(n): return {"i": n}
def S(s): return {"s": s}
NONE = {"n": 0}
def L(*xs): return {"l": list(xs)}
def T(*xs): return {"t": list(xs)}
def D(**kw): return {"d": [[k, v] for k, v in kw.items()]}
def NS(**kw): return {"ns": [[k, v] for k, v in kw.items()]}

VALUES = [
    I(1), S("x"), NONE, L(I(1), I(2)), T(I(1), L(I(2))), D(b=I(1)), D(items=I(1), a=D(b=I(2))),
    NS(b=I(3)), NS(items=I(4), a=NS(keys=I(5))), L(NS(a=I(1)), NS(items=I(2))), NS(), D(),
]
KEYS1 = ["a", "b", "items", "a.b", "a.items", "items.a", "a.b.c", "keys.get.pop", "a.items.b", "b.a"]
BADKEYS = ["a b", "a..b", "", ".a"]


def alphabet(keys, values):
    ops = []
    for k in keys:
        for v in values:
            ops.append({"op": "set", "k": k, "v": v})
        ops += [{"op": "get", "k": k}, {"op": "contains", "k": k}, {"op": "del", "k": k},
                {"op": "pop", "k": k, "dflt": I(9)}, {"op": "getd", "k": k, "dflt": I(9)}]
    return ops


def small_alphabet():
    keys = ["a", "items", "a.b", "a.items", "a.b.c"]
    vals = [I(1), NONE, D(b=I(1), items=I(2)), NS(b=I(3), items=I(4)), L(NS(a=I(1)))]
    ops = alphabet(keys, vals)
    ops += [{"op": "setattr", "k": "items", "v": I(7)}, {"op": "setattr", "k": "a.keys", "v": I(7)}]
    ops += [{"op": "updv", "v": I(5), "k": "a.b", "ou": True}, {"op": "updv", "v": I(5), "k": "a", "ou": False},
            {"op": "updv", "v": I(5), "k": None, "ou": False},
            {"op": "updns", "v": NS(a=NS(b=I(6)), items=I(7)), "k": None, "ou": False},
            {"op": "updns", "v": NS(a=NS(b=I(6)), items=I(7)), "k": None, "ou": True},
            {"op": "updns", "v": NS(b=I(6), keys=NS()), "k": "a", "ou": False},
            {"op": "clone"}, {"op": "items", "br": False}, {"op": "items", "br": True}, {"op": "asdict"},
            {"op": "initdict", "v": D(**{"a.b": I(1), "items": D(x=I(2))})},
            {"op": "set", "k": "a b", "v": I(1)}, {"op": "get", "k": "a..b"}, {"op": "contains", "k": "a b"},
            {"op": "pop", "k": "", "dflt": I(9)}]
    return ops


def random_value(rng, depth=0):
    r = rng.random()
    if depth > 2 or r < 0.35:
        return rng.choice([I(rng.randint(0, 3)), S(rng.choice(["x", "y"])), NONE])
    if r < 0.5:
        return L(*[random_value(rng, depth + 1) for _ in range(rng.randint(0, 2))])
    if r < 0.58:
        return T(*[random_value(rng, depth + 1) for _ in range(rng.randint(0, 2))])
    if r < 0.72:
        return {"d": [[k, random_dict_value(rng, depth + 1)] for k in rng.sample(NAMES, rng.randint(0, 2))]}
    if r < 0.8:
        return L(*[random_ns(rng, depth + 1) for _ in range(rng.randint(1, 2))])
    return random_ns(rng, depth)


def random_dict_value(rng, depth):
    r = rng.random()
    if depth > 2 or r < 0.6:
        return rng.choice([I(rng.randint(0, 3)), S("x"), NONE, L(I(1))])
    return {"d": [[k, random_dict_value(rng, depth + 1)] for k in rng.sample(NAMES, rng.randint(0, 2))]}


def random_ns(rng, depth):
    return {"ns": [[k, random_value(rng, depth + 1)] for k in rng.sample(NAMES, rng.randint(0, 3))]}


def random_key(rng, through_dict_ok=True):
    n = rng.choice([1, 1, 2, 2, 3])
    pool = NAMES if rng.random() < 0.5 else NAMES[:4]
    return ".".join(rng.choice(pool) for _ in range(n))


def random_op(rng):
    r = rng.random()
    k = random_key(rng)
    if r < 0.30:
        return {"op": "set", "k": k, "v": random_value(rng)}
    if r < 0.34:
        return {"op": "setattr", "k": k, "v": random_value(rng)}
    if r < 0.42:
        return {"op": "get", "k": k}
    if r < 0.47:
        return {"op": "getd", "k": k, "dflt": I(9)}
    if r < 0.55:
        return {"op": "contains", "k": k}
    if r < 0.63:
        return {"op": "del", "k": k}
    if r < 0.71:
        return {"op": "pop", "k": k, "dflt": rng.choice([I(9), NONE])}
    if r < 0.77:
        return {"op": "updv", "v": random_value_non_ns(rng), "k": rng.choice([k, k, None]), "ou": rng.random() < 0.5}
    if r < 0.85:
        return {"op": "updns", "v": random_ns(rng, 0), "k": rng.choice([None, None, random_key(rng)]), "ou": rng.random() < 0.5}
    if r < 0.88:
        return {"op": "clone"}
    if r < 0.94:
        return {"op": "items", "br": rng.random() < 0.5}
    if r < 0.97:
        return {"op": "asdict"}
    if r < 0.985:
        return {"op": "initdict", "v": {"d": [[random_key(rng), random_dict_value(rng, 1)] for _ in range(rng.randint(0, 3))]}}
    return {"op": rng.choice(["set", "get", "contains", "del"]), "k": rng.choice(BADKEYS), "v": I(1)}


def random_value_non_ns(rng):
    while True:
        v = random_value(rng)
        if "ns" not in v:
            return v


def generate(rng, tier):
    alpha = small_alphabet()
    cases = [[a] for a in alpha]
    cases += [[a, b] for a in alpha for b in alpha]
    if tier == "thorough":
        first = [a for a in alpha if a["op"] in ("set", "initdict", "updns")]
        cases += [[a, b, c] for a in first for b in alpha[::2] for c in alpha[1::3]]
    n = 1500 if tier == "quick" else 30000
    for _ in range(n):
        ln = rng.randint(3, 40) if rng.random() < 0.5 else rng.randint(3, 10)
        cases.append([random_op(rng) for _ in range(ln)])
    return cases


def observe(cases):
    chunks = [cases[i::16] for i in range(16)]
    res = fw.run_impl_parallel("c11_ns.py", [{"cases": ch} for ch in chunks])
    out = [None] * len(cases)
    for k, r in enumerate(res):
        out[k::16] = r
    return out


# ---- Gallina ----------------------------------------------------------------------------------
def gv(v):
    (k, x), = v.items()
    if k == "i":
        return "VInt %s" % g_Z(x)
    if k == "s":
        return "VStr %s" % g_str(x)
    if k == "n":
        return "VNone"
    if k == "l":
        return "VList %s" % g_list(["(%s)" % gv(e) for e in x], "val")
    if k == "t":
        return "VTup %s" % g_list(["(%s)" % gv(e) for e in x], "val")
    if k in ("d", "ns"):
        return "%s %s" % ("VDict" if k == "d" else "VNs", g_list([g_pair(g_str(kk), gv(vv)) for kk, vv in x], "(str * val)"))
    raise ValueError(k)


def gop(op):
    k = op["op"]
    key = g_str(op["k"]) if op.get("k") is not None else None
    if k == "set":
        return "OSet %s (%s)" % (key, gv(op["v"]))
    if k == "setattr":
        return "OSetAttr %s (%s)" % (key, gv(op["v"]))
    if k == "get":
        return "OGet %s" % key
    if k == "getd":
        return "OGetD %s (%s)" % (key, gv(op["dflt"]))
    if k == "contains":
        return "OContains %s" % key
    if k == "del":
        return "ODel %s" % key
    if k == "pop":
        return "OPop %s (%s)" % (key, gv(op["dflt"]))
    if k == "updv":
        return "OUpdV (%s) %s %s" % (gv(op["v"]), g_opt(key), g_bool(op["ou"]))
    if k == "updns":
        return "OUpdNs (%s) %s %s" % (gv(op["v"]), g_opt(key), g_bool(op["ou"]))
    if k == "clone":
        return "OClone"
    if k == "items":
        return "OItems %s" % g_bool(op["br"])
    if k == "asdict":
        return "OAsDict"
    if k == "initdict":
        return "OInitDict (%s)" % gv(op["v"])
    raise ValueError(k)


def gout(o):
    (k, x), = o.items()
    if k == "unit":
        return "OutUnit"
    if k == "fail":
        return "OutFail"
    if k == "val":
        return "OutVal (%s)" % gv(x)
    if k == "bool":
        return "OutBool %s" % g_bool(x)
    if k == "items":
        return "OutItems %s" % g_list([g_pair(g_str(kk), gv(vv)) for kk, vv in x], "(str * val)")
    raise ValueError(k)


def term(case, obs):
    ops = g_list([gop(o) for o in obs["ops"]], "op")
    steps = g_list([g_pair(gout(o), gv(st)[4:]) for o, st in obs["steps"]], "(out * alist)")
    return "{| c_ops := %s; c_obs := %s |}" % (ops, steps)


def nontrivial_key(case, obs):
    prev = {"ns": []}
    mutated = False
    for o, st in obs["steps"]:
        if st != prev:
            mutated = True
        prev = st
    return repr((case, obs["steps"])) if mutated else None


def category(case, obs):
    fails = sum(1 for o, _ in obs["steps"] if "fail" in o)
    return "len %s, %s failing steps" % ("1-2" if len(case) <= 2 else "3-10" if len(case) <= 10 else "11-40", "0" if not fails else "1-2" if fails < 3 else "3+")


def describe(case, obs):
    return {"history": case, "observed_steps": obs["steps"]}


def shrink(case):
    for i in range(len(case)):
        yield case[:i] + case[i + 1:]

"""C01 — a dumped configuration re-parses to the same configuration.
translate(): regenerates coq/Gen/C01Resolvers.v and C01's own copy coq/Gen/C01Tables.v (loader's and dumper's implicit-resolver tables) so that the
theorems of coq/Properties/C01.v are re-checked against the tree on every run.
Correspondence: generated typed parsers x accepted configurations x serialisation variants; real dump / print_config /
save, real re-parse; Coq judges model agreement (Model/C01Conf.v), guard class (Model/C01Guard.v) and the property."""
import json
import os
import re
from decimal import Decimal

from tie import framework as fw
from tie import scalar_tables
from tie.framework import g_bool, g_list, g_pair, g_str, g_Z, run_impl_parallel

PROP = "C01"
JUDGE = os.environ.get("VERIF_C01_JUDGE", "judge_fixed")   # /repo d576475 (fixes/C01-skip-default-trims-dict-leaf.patch) landed
IMPORTS = ("From JV Require Import Lib.Base Lib.Regex Model.TyVal Model.Scalar Model.C01Conf Model.C01Guard "
           "Gen.C01Tables Corr.C01Judge.")
RULE = ("one case = (parser, accepted configuration, variant): parser = 1-5 leaves, some under nested groups (dotted keys, "
        "depth <= 3), each with a type drawn from the grammar str/int/float/bool/Any, Optional, Union (int|str, str|int, "
        "float|str, int|float, bool|int, List[int]|str, ...), List, Dict[str,T], Dict[int,T], typing.OrderedDict[str,T], Tuple[...], Tuple[T,...], Set, "
        "Literal, two Enums (one whose member names are YAML booleans/null), two dataclasses used as type-hint VALUES (Limits, "
        "Sched with a nested Optional[Limits]; below Optional / List / Dict / Tuple, fields left out, given, or explicitly null over "
        "None and non-None field defaults), a subclass-typed argument (Base with classes Base / Sub(**kwargs forwarded) / KW(only "
        "**kwargs): class_path short or full, init_args left out / given / null, dict_kwargs; at the leaf or below Optional; "
        "default None or a spec), nesting depth <= 3, and a well-typed default or "
        "None; configuration = the parser's own answer to generated typed values given as an object or as argv; str values "
        "from a pool of scalar look-alikes (1e3, 1_0, 0x1F, 1:30, .inf, null, ~, yes, on, 2001-01-01, <<, =, ...), YAML "
        "syntax (leading/trailing space, ': ', ' #', '- ', quotes, flow brackets, multi-line, tabs, control and non-BMP "
        "characters, NEL/DEL/C1) and random strings over a numeric-looking alphabet, also as dict keys; variant = "
        "dump(yaml|json|json_indented, skip_none=False)[+skip_default], --print_config[=skip_default|comments] re-fed through "
        "--cfg, save()[default skip_none | skip_none=False] + parse_path; a quarter of the random cases and a dedicated sweep run on a "
        "parser object with a HISTORY (earlier dumps incl. skip_default, an earlier parse, an earlier command line rejected part-way at its --cfg, then set_defaults() or a default config "
        "file changing a declared default; the configuration then often sets that key back to its OLD default) and are judged "
        "against the defaults in force at the end; subclass specs: 6 specs x 3 defaults x 8 variants; quick: systematic single-leaf sweep of the pool over every str-admitting type and format, 9 dataclass-valued configurations x 8 variants, and of "
        "every str-admitting type and format + 900 random cases, thorough: + 9000; round 6: leaves with nargs='+' (str/int/float/bool/Enum "
        "elements; a list at value level), parsers with SUBCOMMANDS (the first-level group `fit` is a subcommand with its own parser and --cfg "
        "next to a second subcommand; required or optional; dumped / saved by the top-level parser, --print_config before the subcommand or "
        "inside it and re-fed to the subcommand's --cfg; 12% of the random cases + a sweep over every variant), parser.dump_header comment "
        "lines (15% of the YAML cases, lines that look like YAML), Dict-valued leaves one to three groups deep (and inside a subcommand) sharing "
        "entries with their default under skip_default, str values spelled like the default of another Union member; non-trivial = the configuration was "
        "accepted and has a non-None leaf; distinct = distinct (declaration, configuration, variant)")
TRUSTED = [
    "Coq 8.16.1 kernel + vm_compute",
    "tie/scalar_tables.py + tie/translate_regex.py (resolver tables and regexes -> Gallina; fail closed)",
    "tie/impl/c01_roundtrip.py (observation of the real parser: accepted configuration, data handed to the dumper, "
    "emitted text, loader's view of the text, re-parsed configuration) and the Gallina printer of this module",
    "hand-written model coq/Model/C01Conf.v, tied by per-case agreement evaluated inside Coq",
    "PyYAML's emitter/scanner pair for document structure and for the characters of a scalar it quoted or left plain "
    "(known false for U+0085 and, from JSON text, U+007F-U+009F/U+FFFE/U+FFFF: finding unprintable-str); json.dumps",
    "Python's float repr / float() round trip (floats are identified with the decimal of their repr)",
]
ASSUMPTIONS = [
    "parser_mode yaml (the default): JSON formats are read back by the YAML loader",
    "declared defaults are well typed (or None); argument keys are identifiers",
    "dict and set values are compared unordered (Python ==), everything else value for value and type for type; NaN = NaN",
    "Any-typed leaves hold JSON-like values whose strings the loader reads as themselves",
    "'the configuration' of the property is the object handed to dump / save: it is looked at again after the call and has "
    "to be what it was before (not observed for --print_config, which serialises inside its own parse); OrderedDict and dict "
    "are one mapping at value level",
    "a generated set value holds at most one NaN (elements are distinct as written): two NaN objects are two elements of a "
    "Python set but a single one after any reload (float identity, not jsonargparse); NaN = NaN in the comparison of configurations",
    "a parser's answers do not depend on what was done with the parser object before: a case with a history is judged by the "
    "same stateless model, given the declared defaults in force when the configuration is parsed",
    "a leaf declared with nargs='+' and type T is a List[T] at value level (each element checked and serialised on its own; the tie "
    "compares per case); a subcommand's options are leaves under the dotted prefix of its name; the configuration always chooses the "
    "subcommand; the `subcommand` key itself is compared by the runner (it has to be, after the re-parse, what the accepted configuration chose)",
    "subclass-typed arguments: at a leaf or below Optional (prev_val reaches them), constructor parameters of scalar types, "
    "declared default None or a spec without dict_kwargs; class_path is compared as the parser normalises it",
]
EXHAUSTIVE = {"quick": False, "thorough": False}
FINDING_CLASSES = {1: "save-skip-none-null-over-default",   # class 2 (skip-default-trims-dict-leaf) repaired: /repo d576475
                   3: "skip-default-eq-conflates-types", 4: "json-nonfinite-float", 5: "unprintable-str",
                   6: "comments-reemit", 7: "enum-member-null", 8: "default-not-normalised",
                   12: "skip-default-prune-vs-carry-over",
                   14: "empty-subcommand-not-reselected"}  # 13 (skip-default-subcommand-crash) repaired: /repo e6822fd   # 9, 10 repaired: /repo 2b39397 (fx_subclass_trim = true)
# class 11 (skip_default pruned the init_args of a subclass spec) is outside the proved statement but NOT a finding: a
# failure there is reported as a violation

# ---------------------------------------------------------------------------------------------------------------------
# generators
# ---------------------------------------------------------------------------------------------------------------------
LOOKALIKE = ["1e3", "1E5", "+1e3", "-1e-3", "1_0e1", "1_000", "._", ".5", "5.", "-.5", ".5e+3", ".e1", "1.5e3", "0x1F", "0o17",
             "017", "08", "0b101", "1:30", "1:30.5", "-1:30", "+1", "-0", "1.0", "1.", "1_", "_1", ".inf", "-.inf", "+.Inf",
             ".NaN", ".nan", "inf", "nan", "Infinity", "-Infinity", "NaN", "null", "Null", "NULL", "~", "", "true", "True",
             "TRUE", "false", "False", "yes", "Yes", "no", "NO", "on", "Off", "y", "n", "Y", "N", "2001-01-01",
             "2001-01-01 10:00:00", "2001-01-01T10:00:00Z", "<<", "=", "!x", "!!str a", "&a", "*a", "123", "-7", "0",
             "1e", "e3", "1e+", "١٢٣", "１２３", "1 000", "0.1", "00.1", "1.e3", "1.e+3", "+.5", "0_", "0x", "0b", "1__2"]
SYNTAX = [" lead", "trail ", " ", "a: b", "a:b", "a #b", "#a", "a#b", "- a", "-", "--", "---", "...", "--- a", "a\nb", "a\n",
          "\nb", "a\n\nb", "a\n b", " a\nb", "\ta", "a\tb", "a\t", "[1, 2]", "{a: 1}", "{a, b}", "{a}", "[a", "{a", "a]", "a}", '"q"', "'q'",
          "it's", 'a"b', "a\\b", "\\", "%a", "@a", "`a", "|", ">", "|-", "? a", "?", ": a", ":", "a:", "a,b", ",", "key: [1]",
          "é", "日本", "😀", "\x1b", "\x00", "\r", "a\rb", "\x0c", " ", "a b", "\xa0", "﻿", "a﻿b", "a b",
          "hello world", "a  b", "a" * 100, ("word " * 30).strip(), "x" * 130 + " y", "class_path"]
BAD = ["\x85", "a\x85b", "\x7f", "a\x9fb", "￾", "x￿"]
WORDS = ["a", "b", "abc", "x1", "foo_bar", "A"]
NUMALPHA = "0123456789+-._:eExobn~ytfN "
POOL = LOOKALIKE + SYNTAX + BAD + WORDS

# dataclasses used as type-hint VALUES (Optional[D], List[D], Dict[str, D], a D field of another D): name -> fields
# (name, type, default); built in the runner with dataclasses.make_dataclass from this very table
DATACLASSES = [
    ("Limits", [("low", ["opt", "float"], {"$f": "0.0"}), ("high", ["opt", "float"], {"$f": "1.0"})]),
    ("Sched", [("name", "str", "a"), ("steps", ["opt", "int"], None), ("warmup", ["opt", "int"], 100),
               ("lim", ["opt", ["dc", "Limits"]], None), ("tags", ["list", "str"], []),
               ("mode", ["union", ["int", "str"]], "auto")]),
]
DC_FIELDS = dict(DATACLASSES)
# subclass-typed arguments: base -> admissible classes (class_path as the parser normalises it: the runner is __main__)
# with the constructor parameters jsonargparse resolves (own first, then those reached through **kwargs); the classes
# themselves are written out in tie/impl/c01_roundtrip.py
BASE_PARAMS = [("a", "int", 1), ("name", ["opt", "str"], None)]
SUBCLASSES = {"Base": [("__main__.Base", BASE_PARAMS),
                       ("__main__.Sub", [("b", "int", 2), ("flag", ["opt", "bool"], True)] + BASE_PARAMS),
                       ("__main__.KW", [])]}

BASE = ["str", "int", "float", "bool"]
UNIONS = [["int", "str"], ["str", "int"], ["float", "str"], ["str", "float"], ["int", "float"], ["float", "int"],
          ["bool", "int"], ["int", "bool"], ["bool", "str"], ["str", "bool"], [["list", "int"], "str"],
          ["str", ["list", "str"]], [["dict", "int"], "int"], ["int", ["list", "str"]], [["enum", "Color"], "str"],
          ["bool", "float"], ["int", "bool", "str"]]
LITS = [["a", "b"], ["a", 1, 2], [1, 2, 3], ["a b", "x:y", "z"], ["on", "1e3", 5]]
FLOATS = ["0.0", "1.0", "-1.5", "0.1", "2.5", "1e16", "1e-05", "1e22", "1.5e+300", "5e-324", "123456.789", "1e15", "0.0001",
          "1e-07", "-2e+20", "3.141592653589793", "100.0", "inf", "-inf", "nan"]
INTS = [0, 1, -1, 2, 7, 10, 42, -100, 255, 1000, 10 ** 6, 2 ** 63, -(2 ** 70), 10 ** 30, 17, 8, 60, 90]


def gen_type(rng, depth=0, hashable=False):
    r = rng.random()
    if depth >= 2 or r < 0.35:
        if hashable:
            return rng.choice(["str", "int", "bool", "float"])
        r2 = rng.random()
        if r2 < 0.08:
            return ["enum", rng.choice(["Color", "Sw"])]
        if r2 < 0.14:
            return ["lit", rng.choice(LITS)]
        if r2 < 0.18:
            return "any"
        if r2 < 0.30:
            return ["dc", rng.choice(["Limits", "Limits", "Sched"])]
        if r2 < 0.40 and depth == 0:
            return ["sub", "Base"]
        return rng.choice(BASE + ["str"])
    if hashable:
        return ["tuple", [gen_type(rng, 2, True) for _ in range(rng.randint(1, 2))]] if r < 0.5 else gen_type(rng, 2, True)
    k = rng.choice(["opt", "opt", "union", "list", "list", "dict", "dict", "odict", "dict_int", "tuple", "tuplevar", "set"])
    if k == "opt":
        return ["opt", gen_type(rng, depth + 1)]
    if k == "union":
        return ["union", rng.choice(UNIONS)]
    if k == "tuple":
        return ["tuple", [gen_type(rng, depth + 1) for _ in range(rng.randint(1, 3))]]
    if k == "set":
        return ["set", gen_type(rng, depth + 1, True)]
    return [k, gen_type(rng, depth + 1)]


def has_dc(t):
    return "\"dc\"" in json.dumps(t)


def has_sub(t):
    return "\"sub\"" in json.dumps(t)


def gen_str(rng):
    r = rng.random()
    if r < 0.35:
        return rng.choice(LOOKALIKE)
    if r < 0.6:
        return rng.choice(SYNTAX)
    if r < 0.63:
        return rng.choice(BAD)
    if r < 0.8:
        return rng.choice(WORDS)
    return "".join(rng.choice(NUMALPHA) for _ in range(rng.randint(1, 5)))


def gen_float(rng):
    if rng.random() < 0.7:
        return {"$f": repr(float(rng.choice(FLOATS)))}
    return {"$f": repr(round(rng.uniform(-1000, 1000), rng.randint(0, 6)))}


def gen_int(rng):
    return rng.choice(INTS) if rng.random() < 0.7 else rng.randint(-10 ** 4, 10 ** 4)


def gen_any(rng, depth=0):
    r = rng.random()
    if depth >= 2 or r < 0.6:
        return rng.choice([None, True, 3, {"$f": "2.5"}, "abc", "a b", "x1", -4])
    if r < 0.8:
        return [gen_any(rng, depth + 1) for _ in range(rng.randint(0, 2))]
    return {rng.choice(WORDS): gen_any(rng, depth + 1) for _ in range(rng.randint(0, 2))}


def gen_value(rng, t):
    """a well-typed value of t in tagged JSON (tie/impl/c01_roundtrip.py dec)"""
    if t == "str":
        return gen_str(rng)
    if t == "int":
        return gen_int(rng)
    if t == "float":
        return gen_float(rng)
    if t == "bool":
        return rng.random() < 0.5
    if t == "any":
        return gen_any(rng)
    k = t[0]
    if k == "opt":
        return None if rng.random() < 0.3 else gen_value(rng, t[1])
    if k == "union":
        mem = rng.choice(t[1])
        if mem == "int" and "float" in t[1]:     # an int that float() cannot hold exactly is outside the float model
            return rng.randint(-10 ** 6, 10 ** 6)
        return gen_value(rng, mem)
    if k == "list":
        return [gen_value(rng, t[1]) for _ in range(rng.randint(0, 3))]
    if k == "nargs":
        return [gen_value(rng, t[1]) for _ in range(rng.randint(1, 3))]
    if k == "dict":
        d = {}
        for _ in range(rng.randint(0, 3)):
            key = gen_str(rng)
            if key != "class_path":
                d[key] = gen_value(rng, t[1])
        return d
    if k == "odict":      # typing.OrderedDict[str, T]: the one mapping the config copies do not rebuild
        return {"$od": [[key, gen_value(rng, t[1])] for key in dict.fromkeys(rng.choice(WORDS + ["1e3", "a: b"]) for _ in range(rng.randint(0, 3)))]}
    if k == "dict_int":
        keys = sorted({gen_int(rng) for _ in range(rng.randint(0, 3))})
        return {"$d": [[key, gen_value(rng, t[1])] for key in keys]}
    if k == "tuple":
        return {"$t": [gen_value(rng, x) for x in t[1]]}
    if k == "tuplevar":
        return {"$t": [gen_value(rng, t[1]) for _ in range(rng.randint(0, 3))]}
    if k == "set":
        # elements distinct as written: two NaN objects are two elements of a Python set (nan != nan) but one after the
        # loader (a single nan object), an artefact of float identity and not of jsonargparse
        items, seen = [], set()
        for _ in range(rng.randint(0, 3)):
            x = gen_value(rng, t[1])
            key = json.dumps(x, sort_keys=True)
            if key not in seen:
                seen.add(key)
                items.append(x)
        return {"$s": items}
    if k == "dc":
        v = {}
        for fname, ftype, fdef in DC_FIELDS[t[1]]:
            r = rng.random()
            if r < 0.35:
                continue                                   # field left to its default
            if r < 0.6 and isinstance(ftype, list) and ftype[0] == "opt":
                v[fname] = None                            # explicit null (over a None or a non-None default)
            else:
                v[fname] = gen_value(rng, ftype)
        return v
    if k == "sub":
        cp, params = rng.choice(SUBCLASSES[t[1]])
        v = {"class_path": cp if rng.random() < 0.6 else cp.split(".")[-1]}
        ia = {}
        for pname, ptype, pdef in params:
            r = rng.random()
            if r < 0.4:
                continue
            ia[pname] = None if (r < 0.55 and isinstance(ptype, list) and ptype[0] == "opt") else gen_value(rng, ptype)
        if ia or (params and rng.random() < 0.2):
            v["init_args"] = ia
        if (not params and rng.random() < 0.8) or rng.random() < 0.1:
            v["dict_kwargs"] = {rng.choice(["k", "z", "depth"]): rng.choice([1, 7, "x", "a b", True, {"$f": "2.5"}]) for _ in range(rng.randint(1, 2))}
        return v
    if k == "lit":
        return rng.choice(t[1])
    if k == "enum":
        return {"$e": [t[1], rng.choice({"Color": ["RED", "GREEN", "BLUE"], "Sw": ["on", "off", "null", "yes", "no", "true"]}[t[1]])]}
    raise ValueError(t)


def nearby(rng, t, d):
    """a value close to the default d (same dict with one item changed, 1 for 1.0, ...) — what skip_default must keep"""
    if isinstance(d, dict) and "class_path" in d:      # a subclass spec close to the default spec
        r = rng.random()
        cp = d["class_path"]
        params = dict((c, p) for c, p in SUBCLASSES["Base"])[cp]
        if r < 0.25:
            return json.loads(json.dumps(d))
        if r < 0.5:
            return dict(json.loads(json.dumps(d)), dict_kwargs={"k": rng.choice([1, "x"])})
        if r < 0.75 and params:
            pname, ptype, _ = rng.choice(params)
            ia = dict(d.get("init_args", {}))
            ia[pname] = gen_value(rng, ptype)
            return {"class_path": cp, "init_args": ia}
        other = rng.choice([c for c, _ in SUBCLASSES["Base"] if c != cp])
        return {"class_path": other}
    if isinstance(t, list) and t[0] == "union" and "str" in t[1] and rng.random() < 0.4:
        # a str spelled like the default of another type ('1' over 1, '1.0' over 1.0, 'True' over True)
        if isinstance(d, dict) and "$f" in d:
            return d["$f"]
        if isinstance(d, (bool, int)):
            return str(d)
    if isinstance(d, dict) and "$f" in d:
        x = float(d["$f"])
        if abs(x) < 1e15 and x == int(x) and rng.random() < 0.7:
            return int(x)
    if isinstance(d, bool):
        return int(d)
    if isinstance(d, int) and abs(d) < 2 ** 53 and rng.random() < 0.5:    # beyond 2**53 repr-decimal identification is inexact
        return {"$f": repr(float(d))} if rng.random() < 0.6 else (d == 1 if d in (0, 1) else d)
    if isinstance(d, dict) and "$d" in d and d["$d"]:
        items = [list(x) for x in d["$d"]]
        i = rng.randrange(len(items))
        sub = t[1] if isinstance(t, list) and t[0] in ("dict_int",) else "int"
        items[i][1] = gen_value(rng, sub)
        return {"$d": items}
    if isinstance(d, dict) and not any(k.startswith("$") for k in d) and d:
        d2 = dict(d)
        key = rng.choice(sorted(d2))
        sub = t[1] if isinstance(t, list) and t[0] == "dict" else (t[1][1] if isinstance(t, list) and t[0] == "opt" and isinstance(t[1], list) and t[1][0] == "dict" else "int")
        d2[key] = gen_value(rng, sub)
        if rng.random() < 0.3:
            d2["extra"] = gen_value(rng, sub)
        return d2
    if isinstance(d, list) and d:
        return [nearby(rng, "int", x) if rng.random() < 0.5 else x for x in d]
    return gen_value(rng, t)


def to_plain(v):
    """typed tagged value -> the JSON-like value a config file would hold"""
    return json.loads(to_argv_text(v, top=False).replace("-.inf", "-Infinity").replace(".inf", "Infinity").replace(".nan", "NaN")) \
        if not isinstance(v, str) else v


def to_argv_text(v, top=True):
    """typed tagged value -> command-line text"""
    if top and isinstance(v, str):
        return v

    def plain(x):
        if isinstance(x, dict):
            if "$f" in x:
                return float(x["$f"])
            if "$t" in x or "$s" in x:
                return [plain(y) for y in x.get("$t", x.get("$s"))]
            if "$e" in x:
                return x["$e"][1]
            if "$d" in x or "$od" in x:
                return {str(k): plain(y) for k, y in x.get("$d", x.get("$od"))}
            return {k: plain(y) for k, y in x.items()}
        if isinstance(x, list):
            return [plain(y) for y in x]
        return x

    s = json.dumps(plain(v))
    return s.replace("-Infinity", "-.inf").replace("Infinity", ".inf").replace("NaN", ".nan")


NAMES = ["a", "b", "k", "n", "val", "opt1", "x", "y", "lr", "name"]
GROUPS = ["g", "grp", "model", "m"]
VARIANTS = [
    ({"kind": "dump", "format": "yaml", "skip_none": False}, 6),
    ({"kind": "dump", "format": "json", "skip_none": False}, 3),
    ({"kind": "dump", "format": "json_indented", "skip_none": False}, 2),
    ({"kind": "dump", "format": "yaml", "skip_none": False, "skip_default": True}, 4),
    ({"kind": "dump", "format": "json", "skip_none": False, "skip_default": True}, 2),
    ({"kind": "print_config", "format": "yaml", "flags": ""}, 3),
    ({"kind": "print_config", "format": "yaml", "flags": "skip_default"}, 2),
    ({"kind": "print_config", "format": "yaml", "flags": "comments"}, 1),
    ({"kind": "save", "format": "yaml"}, 3),
    ({"kind": "save", "format": "json"}, 1),
    ({"kind": "save", "format": "yaml", "skip_none": False}, 2),
]


def pick_variant(rng):
    tot = sum(w for _, w in VARIANTS)
    r = rng.uniform(0, tot)
    for v, w in VARIANTS:
        r -= w
        if r <= 0:
            return dict(v)
    return dict(VARIANTS[0][0])


def set_path(tree, path, node):
    cur = tree
    for p in path[:-1]:
        for name, n in cur:
            if name == p:
                cur = n["grp"]
                break
        else:
            n = {"grp": []}
            cur.append([p, n])
            cur = n["grp"]
    cur.append([path[-1], node])


def make_case(rng, leaves, variant, sub=None):
    """leaves: [(dotted key, type, default, value or ABSENT)]; type ["nargs", T] = add_argument(type=T, nargs='+'); sub = the
    name of the first-level group that is a SUBCOMMAND (its own parser; command line: top-level options, sub, its options)"""
    decl, obj, argv, sub_argv = [], {}, [], []
    has_nargs = False
    for key, t, d, v in leaves:
        if isinstance(t, list) and t[0] == "nargs":
            has_nargs = True
            set_path(decl, key.split("."), {"ty": t[1], "def": d, "nargs": "+"})
        else:
            set_path(decl, key.split("."), {"ty": t, "def": d})
        if v is not ABSENT:
            cur = obj
            parts = key.split(".")
            for p in parts[:-1]:
                cur = cur.setdefault(p, {})
            cur[parts[-1]] = v
            if sub and parts[0] == sub:
                sub_argv.append("--%s=%s" % (".".join(parts[1:]), to_argv_text(v)))
            else:
                argv.append("--%s=%s" % (key, to_argv_text(v)))
    case = {"decl": decl, "variant": variant}
    if sub:
        for name, node in decl:
            if name == sub:
                node["sub"] = True
        if not any(name == sub for name, _ in decl):
            decl.append([sub, {"grp": [], "sub": True}])
        case["sub"] = sub
        argv = argv + [sub] + sub_argv
        obj.setdefault(sub, {})
        obj["subcommand"] = sub        # the configuration always chooses the subcommand
    if (variant["kind"] == "print_config" or rng.random() < 0.25) and not has_nargs:
        case["argv"] = argv
    else:
        case["obj"] = obj
    if variant.get("format") == "yaml" and rng.random() < 0.15:      # parser.dump_header: comment lines in front of the YAML text
        case["header"] = rng.choice([["generated file"], ["a: 1", "- x", ""], ["--- !!str", "'"], ["x # y", "%YAML 1.1"]])
    return case


ABSENT = object()


def no_bare_dc(t):
    """a dataclass type directly at a leaf behaves like an expanded group (its default is the completed Namespace and
    skip_default descends into it): the value grammar has dataclasses below Optional / containers only"""
    return ["opt", t] if isinstance(t, list) and t[0] == "dc" else t


def random_case(rng):
    n = rng.choice([1, 1, 2, 2, 3, 4, 5])
    keys = []
    names = list(NAMES)
    rng.shuffle(names)
    groups = {}
    for i in range(n):
        depth = rng.choice([0, 0, 0, 1, 1, 2])
        path = [rng.choice(GROUPS[: 2 + depth]) for _ in range(depth)] + [names[i]]
        # a name must not be both a leaf and a group
        key = ".".join(path)
        prefixes = {".".join(path[:j]) for j in range(1, len(path))}
        if any(k == key or k in prefixes or key in {".".join(k.split(".")[:j]) for j in range(1, len(k.split(".")))} for k in keys):
            key = names[i]
        keys.append(key)
    variant = pick_variant(rng)
    sub = None
    if rng.random() < 0.12:       # the first-level group `fit` is a SUBCOMMAND with its own parser
        sub = "fit"
        keys = [("fit." + k if rng.random() < 0.7 else k) for k in keys]
        if variant["kind"] == "print_config":     # printed by the subcommand's parser (its part only) or by the top-level parser
            variant["pc_at"] = "sub" if all(k.startswith("fit.") for k in keys) and rng.random() < 0.6 else "top"
    leaves = []
    for key in keys:
        t = no_bare_dc(gen_type(rng))
        if rng.random() < 0.08 and variant["kind"] != "print_config":
            t = ["nargs", rng.choice(["str", "int", "float", "bool", "str", ["enum", "Color"], ["enum", "Sw"]])]
        r = rng.random()
        d = None if r < 0.3 or has_dc(t) else gen_value(rng, t)
        if has_sub(t):            # a spec as the parser itself would hold it: full class_path, no dict_kwargs
            d = None if r < 0.4 else rng.choice([{"class_path": "__main__.Base", "init_args": {"a": 5}}, {"class_path": "__main__.KW"},
                                                 {"class_path": "__main__.Sub", "init_args": {"b": 3, "name": "n"}}])
            if rng.random() < 0.3:
                t = ["opt", t]
        if '"nan"' in json.dumps(d):      # `==` on containers holding the very same nan object is identity-based
            d = None
        r2 = rng.random()
        if r2 < 0.12:
            v = ABSENT
        elif r2 < 0.2 and (isinstance(t, list) and t[0] == "opt"):
            v = None
        elif r2 < 0.45 and d is not None and variant.get("skip_default") or variant.get("flags") == "skip_default" and r2 < 0.45 and d is not None:
            v = nearby(rng, t, d)
        else:
            v = gen_value(rng, t)
        leaves.append((key, t, d, v))
    hist = None
    if rng.random() < 0.25 and not sub:
        hist = gen_history(rng, leaves, variant)
        changed = [k for st in hist if st["op"] == "set_defaults" for k, _ in st["values"]]
        if changed and rng.random() < 0.7:      # the configuration sets the key back to its OLD default
            leaves = [(k, t, d, d if k in changed and d is not None else v) for k, t, d, v in leaves]
    case = make_case(rng, leaves, variant, sub)
    if sub and rng.random() < 0.25:
        case["sub_required"] = False
    if hist:
        case["history"] = hist
    return case


def rejected_parse_step(rng, leaves):
    """an earlier command line on the same parser: the leaves' values (other values of the same types now and then), then a
    --cfg whose content is rejected (a wrong-typed value for a scalar leaf); the caller catches the error"""
    bad = [k for k, t, d, v in leaves if t in ("int", "float", "bool") or t in (["opt", "int"], ["opt", "float"], ["opt", "bool"])]
    if not bad:
        return None
    argv = []
    for k, t, d, v in leaves:
        if v is ABSENT or k in bad:
            continue
        x = v if rng.random() < 0.6 else gen_value(rng, t)
        if x is not None:
            argv.append("--%s=%s" % (k, to_argv_text(x)))
    k = rng.choice(bad)
    content = {}
    cur = content
    parts = k.split(".")
    for p in parts[:-1]:
        cur = cur.setdefault(p, {})
    cur[parts[-1]] = "not a number"
    return {"op": "rejected_parse", "argv": argv + ["--cfg=" + json.dumps(content)]}


def gen_history(rng, leaves, variant):
    """what was done with the same parser object before: dumps (also skip_default) of its defaults, an earlier parse, then
    possibly a change of the defaults (set_defaults / a default config file) — the configuration of the case often sets a
    key to its OLD default afterwards (leaves carry the old default; the judge sees the defaults in force at the end)"""
    hist = []
    sd = bool(variant.get("skip_default")) or variant.get("flags") == "skip_default"
    for _ in range(rng.randint(1, 2)):
        r = rng.random()
        if r < 0.6:
            hist.append({"op": "dump", "format": rng.choice(["yaml", "json"]), "skip_none": rng.random() < 0.3,
                         "skip_default": sd if rng.random() < 0.8 else not sd})
        else:
            hist.append({"op": "parse", "obj": {}})
    rj = rejected_parse_step(rng, leaves)
    if rj and rng.random() < 0.4:
        hist.insert(rng.randint(0, len(hist)), rj)
    cand = [(k, t, d) for k, t, d, v in leaves if not has_dc(t) and not has_sub(t)]
    if cand and rng.random() < 0.8:
        k, t, d = rng.choice(cand)
        newd = gen_value(rng, t)
        if '"nan"' in json.dumps(newd):
            newd = None
        if rng.random() < 0.7:
            hist.append({"op": "set_defaults", "values": [[k, newd]]})
        else:
            content = {}
            cur = content
            parts = k.split(".")
            for p in parts[:-1]:
                cur = cur.setdefault(p, {})
            cur[parts[-1]] = to_plain(newd)
            hist.append({"op": "default_config", "content": content})
    return hist


STR_TYPES = ["str", ["opt", "str"], ["union", ["int", "str"]], ["union", ["str", "int"]], ["union", ["float", "str"]],
             ["union", ["bool", "str"]], ["list", "str"], ["dict", "str"], ["tuple", ["str", "int"]], ["set", "str"],
             ["union", [["list", "int"], "str"]], ["dict", ["opt", "str"]]]


def wrap(t, s):
    """put the string s where the type t holds a str"""
    if t == "str":
        return s
    k = t[0]
    if k in ("opt",):
        return wrap(t[1], s)
    if k == "union":
        return s
    if k == "list":
        return [s, "a"]
    if k == "dict":
        return {s: s} if s != "class_path" else {"k": s}
    if k == "tuple":
        return {"$t": [s, 3]}
    if k == "set":
        return {"$s": [s]}
    return s


def sweep_cases(rng, tier):
    cases = []
    fmts = [{"kind": "dump", "format": "yaml", "skip_none": False}, {"kind": "dump", "format": "json", "skip_none": False}]
    for s in POOL:
        for ti, t in enumerate(STR_TYPES):
            if tier == "quick" and ti >= 2 and rng.random() < 0.5:
                continue
            for f in fmts:
                if f["format"] == "json" and tier == "quick" and rng.random() < 0.6:
                    continue
                cases.append(make_case(rng, [("s", t, None if ti % 2 else wrap(t, "dflt"), wrap(t, s))], dict(f)))
    # every string of length <= 2 (quick) / 3 (thorough, sampled) over the numeric-looking alphabet, str leaf
    alpha = "019+-._:eExobn~ytfN "
    short = [a for a in alpha] + [a + b for a in alpha for b in alpha]
    if tier == "thorough":
        short += [a + b + c for a in alpha for b in alpha for c in alpha if rng.random() < 0.5]
    for i in range(0, len(short), 6):
        chunk = short[i:i + 6]
        leaves = [("k%d" % j, "str", "d", s) for j, s in enumerate(chunk)]
        cases.append(make_case(rng, leaves, {"kind": "dump", "format": "yaml", "skip_none": False}))
    # numbers
    for x in FLOATS:
        for f in fmts + [{"kind": "save", "format": "yaml"}]:
            cases.append(make_case(rng, [("x", "float", {"$f": "1.0"}, {"$f": repr(float(x))}),
                                         ("l", ["list", "float"], None, [{"$f": repr(float(x))}, 1])], dict(f)))
    for z in INTS:
        cases.append(make_case(rng, [("n", "int", 3, z), ("d", ["dict_int", "int"], None, {"$d": [[z, z]]})],
                               dict(rng.choice(fmts))))
    # dataclass-typed VALUES (not groups): explicit nulls over None / non-None field defaults, nested dataclass, every variant
    keep = [{"kind": "dump", "format": "yaml", "skip_none": False}, {"kind": "dump", "format": "json", "skip_none": False},
            {"kind": "dump", "format": "json_indented", "skip_none": False},
            {"kind": "dump", "format": "yaml", "skip_none": False, "skip_default": True},
            {"kind": "print_config", "format": "yaml", "flags": ""}, {"kind": "print_config", "format": "yaml", "flags": "skip_default"},
            {"kind": "save", "format": "yaml", "skip_none": False}, {"kind": "save", "format": "yaml"}]
    dvals = [("lim", ["opt", ["dc", "Limits"]], None, {"high": None}),
             ("lim", ["opt", ["dc", "Limits"]], None, {"low": None, "high": {"$f": "2.5"}}),
             ("lim", ["opt", ["dc", "Limits"]], None, {"low": {"$f": "0.5"}}),
             ("many", ["list", ["dc", "Limits"]], [], [{"low": None, "high": {"$f": "2.0"}}, {}]),
             ("byname", ["dict", ["dc", "Limits"]], None, {"1e3": {"high": None}, "a: b": {}}),
             ("pair", ["tuple", [["dc", "Limits"], "str"]], None, {"$t": [{"low": None}, "null"]}),
             ("sched", ["opt", ["dc", "Sched"]], None, {"name": "1e3", "warmup": None, "lim": {"low": None}, "tags": ["null", "a: b"]}),
             ("sched", ["opt", ["dc", "Sched"]], None, {"steps": None, "lim": None, "mode": "7"}),
             ("sched", ["list", ["opt", ["dc", "Sched"]]], None, [{"steps": 3, "mode": 5, "lim": {"high": None}}, None])]
    for key, t, d, v in dvals:
        for var in keep:
            cases.append(make_case(rng, [(key, t, d, v), ("seed", ["opt", "int"], 7, 3)], dict(var)))
    # mappings whose items need serialising (Enum -> name, Tuple -> list, Set -> list), also typing.OrderedDict — the one mapping
    # the config copies do not rebuild —, as value and as declared default, every variant: the configuration that was
    # serialised must still be the same afterwards
    for t, v in [(["odict", ["enum", "Color"]], {"$od": [["a", {"$e": ["Color", "RED"]}], ["1e3", {"$e": ["Color", "BLUE"]}]]}),
                 (["odict", ["tuple", ["int", "str"]]], {"$od": [["k", {"$t": [1, "null"]}]]}),
                 (["odict", ["set", "int"]], {"$od": [["s", {"$s": [3, 1]}]]}),
                 (["dict", ["enum", "Sw"]], {"on": {"$e": ["Sw", "on"]}, "x": {"$e": ["Sw", "no"]}}),
                 (["list", ["odict", ["enum", "Color"]]], [{"$od": [["a", {"$e": ["Color", "GREEN"]}]]}]),
                 (["opt", ["odict", "str"]], {"$od": [["a", "1e3"], ["b", "a: b"]]})]:
        for var in keep:
            for d in (None, v):
                if tier == "quick" and rng.random() < 0.4:
                    continue
                cases.append(make_case(rng, [("od", t, d, v if rng.random() < 0.7 else ABSENT), ("seed", ["opt", "int"], 7, 3)], dict(var)))
    # subclass-typed arguments: every class, init_args given / left out / null, dict_kwargs, over a None and a spec default
    svals = [{"class_path": "Sub"}, {"class_path": "__main__.Sub", "init_args": {"b": 3, "name": None, "flag": None}},
             {"class_path": "__main__.Base", "init_args": {"name": "1e3"}}, {"class_path": "KW", "dict_kwargs": {"k": 1, "s": "a b"}},
             {"class_path": "__main__.KW"}, {"class_path": "Sub", "init_args": {"a": 5}, "dict_kwargs": {"z": "x"}}]
    sdefs = [None, {"class_path": "__main__.Base", "init_args": {"a": 5}}, {"class_path": "__main__.KW"}]
    for sv in svals:
        for sdf in sdefs:
            for var in keep:
                if tier == "quick" and rng.random() < 0.5:
                    continue
                t = ["sub", "Base"] if rng.random() < 0.7 else ["opt", ["sub", "Base"]]
                lv = [("m", t, sdf, sv), ("seed", ["opt", "int"], 7, 3)]
                c = make_case(rng, lv, dict(var))
                if rng.random() < 0.4:      # ... after an earlier command line of the same parser was rejected part-way
                    c["history"] = [rejected_parse_step(rng, [("m", t, sdf, rng.choice(svals)), lv[1]])]
                cases.append(c)
    cases.append(make_case(rng, [("m", ["sub", "Base"], {"class_path": "__main__.Sub", "init_args": {"b": 3, "name": "n"}},
                                  {"class_path": "__main__.Base", "init_args": {"a": 10, "name": None}})],
                           {"kind": "dump", "format": "yaml", "skip_none": False, "skip_default": True}))
    # subcommands: top-level options + the options of the chosen subcommand (nested group inside), every variant, --print_config
    # before the subcommand (whole configuration) and inside it (its part, re-fed to the subcommand's own --cfg)
    for var in keep + [{"kind": "dump", "format": "json", "skip_none": False, "skip_default": True}]:
        for req in (True, False):
            lv = [("top", "int", 1, 2), ("fit.x", ["opt", "int"], 3, rng.choice([5, None, 3])), ("fit.g.y", "str", "a", rng.choice(["1e3", "null", "a"]))]
            v = dict(var)
            if v["kind"] == "print_config":
                v["pc_at"] = "top"
            c = make_case(rng, lv, v, "fit")
            c["sub_required"] = req
            cases.append(c)
        if var["kind"] == "print_config":
            cases.append(make_case(rng, [("fit.x", ["opt", "int"], 3, 5), ("fit.l", ["list", "str"], [], ["yes", "1:30"])], dict(var, pc_at="sub"), "fit"))
    # Dict-valued leaves inside groups (one, two, three levels deep; also inside a subcommand) whose value shares entries with
    # the declared default: skip_default has to keep or drop the value as a whole wherever the key lives
    sdvars = [{"kind": "dump", "format": "yaml", "skip_none": False, "skip_default": True},
              {"kind": "dump", "format": "json", "skip_none": False, "skip_default": True},
              {"kind": "print_config", "format": "yaml", "flags": "skip_default"}]
    for key in ("d", "g.d", "g.grp.d", "model.g.m.d"):
        for t, d, v in [(["dict", "int"], {"a": 1, "b": 3}, {"a": 1, "b": 2}), (["dict", "str"], {"a": "x", "b": "1e3"}, {"a": "x"}),
                        (["opt", ["dict", ["list", "int"]]], {"a": [1], "b": []}, {"a": [1], "b": [2], "c": []}),
                        (["dict", ["dict", "int"]], {"k": {"a": 1, "b": 2}}, {"k": {"a": 1, "b": 5}}),
                        (["dict_int", "int"], {"$d": [[1, 1], [2, 2]]}, {"$d": [[1, 1], [2, 3]]})]:
            for var in sdvars:
                cases.append(make_case(rng, [(key, t, d, v), ("g.n" if key != "g.d" else "n", "int", 1, 2)], dict(var)))
    for var in sdvars[:2]:
        c = make_case(rng, [("fit.g.d", ["dict", "int"], {"a": 1, "b": 3}, {"a": 1, "b": 2}), ("top", "int", 1, 1)], dict(var), "fit")
        c["sub_required"] = False
        cases.append(c)
    # a str spelled like the declared default of another member type: skip_default must keep it
    for t, d, v in [(["union", ["str", "int"]], 1, "1"), (["union", ["str", "float"]], {"$f": "1.0"}, "1.0"),
                    (["union", ["str", "bool"]], True, "True"), (["union", ["str", "int"]], 17, "17")]:
        for var in sdvars:
            cases.append(make_case(rng, [("u", t, d, v), ("n", "int", 1, 2)], dict(var)))
    # nargs='+': the action holds a list, each element checked and serialised on its own
    for t, d, v in [("str", None, ["1e3", "[1, 2]", "null", "a: b"]), ("int", [1], [2, 3]), ("float", None, [{"$f": "1e16"}, {"$f": "0.5"}]),
                    ("bool", [True], [False, True]), ("str", ["a"], ["a"]),
                    (["enum", "Color"], None, [{"$e": ["Color", "RED"]}, {"$e": ["Color", "BLUE"]}]),
                    (["enum", "Sw"], [{"$e": ["Sw", "on"]}], [{"$e": ["Sw", "yes"]}, {"$e": ["Sw", "off"]}])]:
        for var in keep:
            if var["kind"] != "print_config":
                cases.append(make_case(rng, [("n", ["nargs", t], d, v), ("seed", ["opt", "int"], 7, 3)], dict(var)))
    # histories: the same parser object dumped (skip_default) before its defaults change; the configuration then sets the OLD default
    for t, d_old, d_new in [("float", {"$f": "0.1"}, {"$f": "0.5"}), ("str", "a", "1e3"), (["opt", "int"], 5, None),
                            (["list", "str"], ["x"], []), (["dict", "int"], {"a": 1}, {"a": 2})]:
        for var in keep:
            for change in ("set_defaults", "default_config"):
                h = [{"op": "dump", "format": "yaml", "skip_none": False, "skip_default": True}]
                h.append({"op": "set_defaults", "values": [["lr", d_new]]} if change == "set_defaults"
                         else {"op": "default_config", "content": {"lr": to_plain(d_new)}})
                c = make_case(rng, [("lr", t, d_old, d_old), ("n", "int", 1, 2)], dict(var))
                c["history"] = h
                cases.append(c)
    # the designed findings, in their smallest form
    cases.append(make_case(rng, [("k", ["opt", "int"], 5, None)], {"kind": "save", "format": "yaml"}))
    cases.append(make_case(rng, [("d", ["dict", "int"], {"a": 1, "b": 3}, {"a": 1, "b": 2})],
                           {"kind": "dump", "format": "yaml", "skip_none": False, "skip_default": True}))
    cases.append(make_case(rng, [("u", ["union", ["int", "float"]], {"$f": "1.0"}, 1)],
                           {"kind": "dump", "format": "yaml", "skip_none": False, "skip_default": True}))
    cases.append(make_case(rng, [("x", "float", None, {"$f": "inf"})], {"kind": "dump", "format": "json", "skip_none": False}))
    cases.append(make_case(rng, [("s", "str", None, "a\x85b")], {"kind": "dump", "format": "yaml", "skip_none": False}))
    cases.append({"decl": [["s", {"ty": "str", "def": "a"}]], "argv": ["--s=NO"],
                  "variant": {"kind": "print_config", "format": "yaml", "flags": "comments"}})
    cases.append({"decl": [["k", {"ty": ["union", ["float", "int"]], "def": -143624}]], "argv": [],
                  "variant": {"kind": "dump", "format": "yaml", "skip_none": False}})
    cases.append(make_case(rng, [("e", ["opt", ["enum", "Sw"]], None, {"$e": ["Sw", "null"]})],
                           {"kind": "dump", "format": "yaml", "skip_none": False}))
    return cases


def generate(rng, tier):
    cases = sweep_cases(rng, tier)
    for _ in range(900 if tier == "quick" else 9000):
        cases.append(random_case(rng))
    return cases


# ---------------------------------------------------------------------------------------------------------------------
# observation
# ---------------------------------------------------------------------------------------------------------------------
def observe(cases):
    out = [None] * len(cases)
    if not cases:
        return out
    n = min(fw.JOBS, len(cases))
    res = run_impl_parallel("c01_roundtrip.py", [{"cases": cases[k::n], "dataclasses": DATACLASSES} for k in range(n)])
    for k, r in enumerate(res):
        for i, o in zip(range(k, len(cases), n), r):
            out[i] = o
    return out


# ---------------------------------------------------------------------------------------------------------------------
# Gallina
# ---------------------------------------------------------------------------------------------------------------------
def g_fl(r):
    x = float(r)
    if x != x:
        return "FNan"
    if x in (float("inf"), float("-inf")):
        return "(FInf %s)" % g_bool(x < 0)
    sign, digits, exp = Decimal(repr(x)).as_tuple()
    m = int("".join(map(str, digits)))
    if m == 0:
        return "(FFin 0 0)"
    while m % 10 == 0:
        m //= 10
        exp += 1
    return "(FFin %s %s)" % (g_Z(-m if sign else m), g_Z(exp))


def g_val(v):
    if v is None:
        return "VNone"
    if isinstance(v, bool):
        return "(VBool %s)" % g_bool(v)
    if isinstance(v, int):
        return "(VInt %s)" % g_Z(v)
    if isinstance(v, str):
        return "(VStr %s)" % g_str(v)
    if isinstance(v, list):
        return "(VList %s)" % g_list([g_val(x) for x in v], "val")
    if isinstance(v, dict):
        if "$f" in v:
            return "(VFloat %s)" % g_fl(v["$f"])
        if "$t" in v:
            return "(VTuple %s)" % g_list([g_val(x) for x in v["$t"]], "val")
        if "$s" in v:
            return "(VSet %s)" % g_list([g_val(x) for x in v["$s"]], "val")
        if "$e" in v:
            return "(VEnum %s %s)" % (g_str(v["$e"][0]), g_str(v["$e"][1]))
        if "$d" in v or "$od" in v:
            return "(VDict %s)" % g_list([g_pair(g_val(k), g_val(x)) for k, x in v.get("$d", v.get("$od"))], "(val * val)")
        if "$o" in v:
            return "(VOpaque %s %s)" % (g_str(v["$o"][0]), g_str(v["$o"][1]))
        return "(VDict %s)" % g_list([g_pair(g_val(k), g_val(x)) for k, x in v.items()], "(val * val)")
    raise ValueError("cannot print %r" % (v,))


ENUM_MEMBERS = {"Color": ["RED", "GREEN", "BLUE"], "Sw": ["on", "off", "null", "yes", "no", "true"]}


def g_ty(t):
    if isinstance(t, str):
        return {"str": "CStr", "int": "CInt", "float": "CFloat", "bool": "CBool", "any": "CAny", "none": "CNone"}[t]
    k = t[0]
    if k == "opt":
        return "(CUnion [%s; CNone])" % g_ty(t[1])
    if k == "union":
        return "(CUnion %s)" % g_list([g_ty(x) for x in t[1]], "cty")
    if k in ("list", "nargs"):
        return "(CList %s)" % g_ty(t[1])
    if k == "dict":
        return "(CDict false %s)" % g_ty(t[1])
    if k == "dict_int":
        return "(CDict true %s)" % g_ty(t[1])
    if k == "odict":      # OrderedDict(val) / dict(val): the same mapping at value level
        return "(CDict false %s)" % g_ty(t[1])
    if k == "tuple":
        return "(CTuple %s)" % g_list([g_ty(x) for x in t[1]], "cty")
    if k == "tuplevar":
        return "(CTupleVar %s)" % g_ty(t[1])
    if k == "set":
        return "(CSet %s)" % g_ty(t[1])
    if k == "lit":
        return "(CLit %s)" % g_list([g_val(x) for x in t[1]], "val")
    if k == "enum":
        return "(CEnum %s %s)" % (g_str(t[1]), g_list([g_str(m) for m in ENUM_MEMBERS[t[1]]], "str"))
    if k == "sub":
        return "(CSub %s)" % g_list(["(%s, CData %s)" % (g_str(cp), g_list(["(%s, %s, %s)" % (g_str(n), g_ty(ft), g_val(fd))
                                                                             for n, ft, fd in params], "(str * cty * val)"))
                                     for cp, params in SUBCLASSES[t[1]]], "(str * cty)")
    if k == "dc":
        return "(CData %s)" % g_list(["(%s, %s, %s)" % (g_str(n), g_ty(ft), g_val(fd)) for n, ft, fd in DC_FIELDS[t[1]]],
                                     "(str * cty * val)")
    raise ValueError(t)


def decl_leaves(decl, prefix=""):
    for name, node in decl:
        if "grp" in node:
            yield from decl_leaves(node["grp"], prefix + name + ".")
        else:
            yield prefix + name, node


def variant_flags(v):
    fmt = "FJson" if v.get("format", "yaml").startswith("json") else "FYaml"
    if v["kind"] == "dump":
        return fmt, bool(v.get("skip_none", False)), bool(v.get("skip_default", False)), False
    if v["kind"] == "save":
        sn = v.get("skip_none")
        return fmt, True if sn is None else bool(sn), False, False
    flags = v.get("flags", "").split(",")
    return fmt, "skip_null" in flags, "skip_default" in flags, "comments" in flags


EMPTY_TERM = ("{| c_leaves := []; c_var := {| vr_fmt := FYaml; vr_skip_none := false; vr_skip_default := false; vr_comments := false |}; "
              "c_strs := []; c_floats := []; c_dumped := Some []; c_reloaded := Some []; c_out := Some []; c_after := None; c_req_sub := false; c_sub := None |}")


def accepted(obs):
    return obs.get("status") == "ok" or obs.get("status", "").startswith("crash1")


def per_leaf(keys, flat, extra):
    if not isinstance(flat, list) or extra:
        return "None"
    d = {k: v for k, v in flat}
    if any(k not in keys for k in d):
        return "None"
    return "(Some %s)" % g_list(["(Some %s)" % g_val(d[k]) if k in d else "None" for k in keys], "(option val)")


def req_sub(case):
    """the serialisation is done by a parser that has a REQUIRED subcommand (not: --print_config inside the subcommand)"""
    v = case["variant"]
    return bool(case.get("sub")) and case.get("sub_required", True) and not (v["kind"] == "print_config" and v.get("pc_at") != "top")


def top_sub(case):
    """the serialisation is done by the top-level parser of a parser with subcommands"""
    v = case["variant"]
    return bool(case.get("sub")) and not (v["kind"] == "print_config" and v.get("pc_at") != "top")


def term(case, obs):
    if "cfg0" not in obs:
        return EMPTY_TERM
    nodes = dict(decl_leaves(case["decl"]))
    cfg0 = {k: v for k, v in obs["cfg0"]}
    keys = sorted(nodes)
    if sorted(cfg0) != keys:
        # a configuration whose keys are not the declared leaves is outside the model: force a disagreement
        return EMPTY_TERM.replace("c_out := Some []", "c_out := None")
    defs = {k: v for k, v in obs["defs"]}     # the declared defaults as the parser holds them (set iteration order)
    types = {k: v for k, v in obs["types"]}   # the type hints as typing really built them (cached Union member order)
    leaves = g_list(["({| lf_key := %s; lf_ty := %s; lf_def := %s |}, %s)"
                     % (g_str(k), g_ty(types[k]), g_val(defs[k]), g_val(cfg0[k])) for k in keys],
                    "(leaf * val)")
    fmt, sn, sd, cm = variant_flags(case["variant"])
    strs = g_list(["(%s, (%s, %s))" % (g_str(s), g_bool(p), "None" if "err" in r else "(Some %s)" % g_val(r["val"]))
                   for s, p, r in obs.get("strs", [])], "(str * (bool * option val))")
    floats = g_list(["(%s, (%s, %s))" % (g_fl(r), g_str(y), g_str(j)) for r, y, j in obs.get("floats", [])],
                    "(fl * (str * str))")
    if obs["status"] != "ok":
        dumped = reloaded = out = "None"
    else:
        dumped = per_leaf(keys, obs["dumped"], obs["dumped_extra"])
        reloaded = per_leaf(keys, obs["reloaded"], obs["reloaded_extra"])
        c1 = obs["cfg1"]
        if isinstance(c1, list) and sorted(k for k, _ in c1) == keys:
            d1 = {k: v for k, v in c1}
            out = "(Some %s)" % g_list([g_val(d1[k]) for k in keys], "val")
        else:
            out = "None"
    a = obs.get("cfg0_after")
    if a is None:
        after = "None"
    elif isinstance(a, list) and sorted(k for k, _ in a) == keys:
        da = {k: v for k, v in a}
        after = "(Some %s)" % g_list([g_val(da[k]) for k in keys], "val")
    else:
        after = "(Some [])"      # the object no longer has the declared leaves: differs from every non-empty configuration
    return ("{| c_leaves := %s; c_var := {| vr_fmt := %s; vr_skip_none := %s; vr_skip_default := %s; vr_comments := %s |}; c_strs := %s; "
            "c_floats := %s; c_dumped := %s; c_reloaded := %s; c_out := %s; c_after := %s; c_req_sub := %s; c_sub := %s |}"
            % (leaves, fmt, g_bool(sn), g_bool(sd), g_bool(cm), strs, floats, dumped, reloaded, out, after, g_bool(req_sub(case)),
               "(Some %s)" % g_str(case["sub"] + ".") if top_sub(case) and obs.get("sub_chosen") == case["sub"] else "None"))


def nontrivial_key(case, obs):
    if "cfg0" not in obs or all(v is None for _, v in obs["cfg0"]):
        return None
    return json.dumps([case["decl"], obs["cfg0"], case["variant"]], sort_keys=True)


def tname(t):
    return t if isinstance(t, str) else t[0]


def category(case, obs):
    v = case["variant"]
    var = v["kind"] + "/" + v.get("format", "yaml") + ("+skip_default" if v.get("skip_default") or v.get("flags") == "skip_default" else "") \
        + ("+comments" if v.get("flags") == "comments" else "") + ("+keep_none" if v["kind"] == "save" and v.get("skip_none") is False else "")
    st = obs.get("status", "?")
    if st == "ok":
        c1 = obs.get("cfg1")
        st = "reparsed" if isinstance(c1, list) else "reparse-" + str(c1.get("$err"))
    n = len(list(decl_leaves(case["decl"])))
    return "%s | %d leaves | %s" % (var, min(n, 5), st.split(":")[0])


def describe(case, obs):
    return {"declaration (name -> type, default; nested groups)": case["decl"],
            "history of the parser object before": case.get("history", []),
            "input": case.get("argv", case.get("obj")),
            "variant": case["variant"],
            "accepted configuration": obs.get("cfg0"),
            "emitted text": obs.get("text"),
            "re-parsed configuration": obs.get("cfg1"),
            "the configuration object after the serialisation": obs.get("cfg0_after"),
            "status": obs.get("status"), "msg": obs.get("msg")}


def shrink(case):
    decl = case["decl"]
    lv = list(decl_leaves(decl))
    if len(lv) > 1:
        for key, _ in lv:
            def drop(d, prefix=""):
                out = []
                for name, node in d:
                    if "grp" in node:
                        sub = drop(node["grp"], prefix + name + ".")
                        if sub or node.get("sub"):
                            out.append([name, dict(node, grp=sub)])
                    elif prefix + name != key:
                        out.append([name, node])
                return out

            c = dict(case, decl=drop(decl))
            if "argv" in case:
                k2 = key[len(case["sub"]) + 1:] if case.get("sub") and key.startswith(case["sub"] + ".") else key
                c["argv"] = [a for a in case["argv"] if not a.startswith("--%s=" % k2)]
            else:
                obj = json.loads(json.dumps(case["obj"]))
                cur = obj
                parts = key.split(".")
                ok = True
                for p in parts[:-1]:
                    if p not in cur:
                        ok = False
                        break
                    cur = cur[p]
                if ok:
                    cur.pop(parts[-1], None)
                c["obj"] = obj
            yield c


# ---------------------------------------------------------------------------------------------------------------------
# translator + failing-input search when a theorem breaks
# ---------------------------------------------------------------------------------------------------------------------
def translate():
    info, _ = scalar_tables.regenerate()                 # the shared copy (C02/C05 judges import it)
    info2, _ = scalar_tables.regenerate("C01Tables.v")   # C01's own copy: what Properties/C01.v and the judge are built on
    info.update(info2)
    return info


WITNESS_V = """From JV Require Import Lib.Base Lib.Regex Model.TyVal Model.Scalar Model.C01Conf Model.C01Guard Gen.C01Tables.
Eval vm_compute in (witness 4000 (And (listed_re loader_table) (Not (listed_re dumper_table)))).
Eval vm_compute in (witness 4000 (And int_out (Not (tag_re loader_table TgInt)))).
Eval vm_compute in (witness 4000 (And yaml_float_out (Not (tag_re loader_table TgFloat)))).
Eval vm_compute in (witness 4000 (And yaml_float_out (Not (tag_re dumper_table TgFloat)))).
Eval vm_compute in (witness 4000 (And repr_float_fin (Not (tag_re loader_table TgFloat)))).
"""


def coq_witnesses():
    name = "cases_C01_w_%d" % os.getpid()
    path = os.path.join(fw.COQ, "Corr", name + ".v")
    with open(path, "w") as f:
        f.write(WITNESS_V)
    try:
        rc, out = fw.sh("cd %s && timeout 300 coqc -Q . JV Corr/%s.v" % (fw.COQ, name), timeout=320)
    finally:
        for ext in (".v", ".vo", ".vok", ".vos", ".glob"):
            try:
                os.remove(path[:-2] + ext)
            except OSError:
                pass
        try:
            os.remove(os.path.join(fw.COQ, "Corr", "." + name + ".aux"))
        except OSError:
            pass
    res = []
    if rc != 0:
        return res
    for blk in re.findall(r"=\s*(.*?)\n\s*:\s*option", out, re.S):
        if "Some" in blk:
            res.append("".join(chr(int(x)) for x in re.findall(r"\d+", re.sub(r"%\w+", "", blk))))
        else:
            res.append(None)
    return res


def search(rng, tier, broken):
    """a theorem or the tie broke: try the witnesses of the verified checker, wrapped into one-key parsers, then a fresh
    larger run, judged by Coq against the property"""
    cands = []
    ws = coq_witnesses()
    variants = [{"kind": "dump", "format": "yaml", "skip_none": False}, {"kind": "dump", "format": "json", "skip_none": False},
                {"kind": "save", "format": "yaml", "skip_none": False}]
    for i, w in enumerate(ws):
        if w is None:
            continue
        for v in variants:
            if i == 0:
                for t in STR_TYPES[:6]:
                    cands.append(make_case(rng, [("s", t, None, wrap(t, w))], dict(v)))
            elif i == 1:
                try:
                    cands.append(make_case(rng, [("n", "int", None, int(w))], dict(v)))
                except ValueError:
                    pass
    # floats and ints whose representation the broken inclusion may concern
    for x in FLOATS:
        for v in variants:
            cands.append(make_case(rng, [("x", "float", None, {"$f": repr(float(x))})], dict(v)))
    cands += generate(rng, "quick")
    obs = observe(cands)
    bm, bi, bo = fw.judge_cases(__import__("tie.props.c01", fromlist=["x"]), cands, obs, tag="x")
    known = fw.load_known_findings(PROP)
    bad = sorted(set(bi) | {i for i, k in bo if FINDING_CLASSES.get(k) not in known})
    if not bad:
        # model disagreements judged against the property: none failed it
        return None
    i = bad[0]
    return {"case": cands[i], "observed": obs[i], "explain": describe(cands[i], obs[i])}


META = {
    "level_text": "Proved in Coq for all inputs of the modelled space (coq/Properties/C01.v): (S1) C01_str_plain_agree - every "
                  "string the dumper's resolver leaves a plain str is read back as str by the loader (regular-language "
                  "inclusion over the resolver tables regenerated from the live loader/dumper classes on every run, decided by "
                  "a verified Brzozowski-derivative checker); (S2) C01_number_texts_resolve - every text of the int / YAML "
                  "float / JSON finite-float / bool / null representers resolves to the tag of its value in the loader (and "
                  "the dumper); (V) C01_reload_identity - for any verdict of PyYAML's plain-allowed analysis, any serialised "
                  "value tree written as YAML or JSON (finite floats) loads back to itself; (P) C01_dump_parse_roundtrip - for "
                  "every parser (typed leaves under nested groups), configuration and variant (yaml/json, nulls kept or "
                  "dropped, skip_default; i.e. dump, print_config, save) inside the guard, if each leaf value survives its own "
                  "serialise/parse pair then dump -> text -> parse returns the configuration value for value and type for type. "
                  "(P') C01_dump_parse_roundtrip_simple (round 6) - for parsers of the container grammar (str/int/float/bool, List, Dict[str,.], "
                  "Tuple[..], Tuple[.,...] nested at will, Optional[T] for T not str) per-leaf stability is PROVED by structural induction on the "
                  "type for any loader oracle and any declared default (simple_rt / leaf_stable_simple), so inside the guard the round trip "
                  "holds with NO premise about the leaves; that the real parser hands out values of these types (wt) is checked per case by the "
                  "judge (simple_tie). C01_dump_parse_roundtrip_subcommands - (P) for a dump taken by the top-level parser of a parser with "
                  "subcommands (skip_default does not reach the subcommand's options; classes 13/14). "
                  "Eight _refuted witnesses show the unguarded statement false of the faithful model; two more are regression witnesses about the rule before /repo 2b39397. Exercised by the "
                  "correspondence only: that each accepted leaf value survives serialise/parse OUTSIDE the container grammar of (P') (leaf_stable is a premise of "
                  "(P), evaluated per case over the rest of the type grammar: str under Optional/Union, general Union/Literal/Enum/Set/Dict[int]/dataclass-typed values/subclass specs with dict_kwargs), the real "
                  "dump / --print_config / save+parse_path paths, nested groups, subcommands, nargs lists, dump_header, and the model itself (data handed to the "
                  "dumper, loader's view of the text, re-parsed configuration, every written str and float against PyYAML).",
    "level_note": "Partial: premises of (V)/(P) are Python's int/float <-> text conversions (int_text_ok, yfloat_text_ok, "
                  "jfloat_text_ok; checked per observed float by the judge) and per-leaf stability; PyYAML's emitter/scanner "
                  "are trusted for document structure and for the characters of a scalar (known false for U+0085 and, from "
                  "JSON text, C1 controls / U+FFFE / U+FFFF / U+2028-9: finding unprintable-str). yaml_comments output "
                  "(re-emitted by ruyaml) is not modelled (finding comments-reemit). Ten open findings are guarded by class (Model/C01Guard.v classes 1,3-8,12,13,14; 2, 9, 10 repaired in /repo; 13 = dump(skip_default) of a parser with a required subcommand raises, 14 = a dump holding none of the chosen subcommand's options is not re-parsed as choosing it); class 11 (skip_default pruned a subclass spec's init_args) is outside the proved statement without being a finding: failures there are violations. Histories on one parser object (dump, parse, set_defaults, default config file) are exercised by the correspondence only "
                  "(Model/C01Guard.v) and reported as KNOWN-FINDING. parser_mode yaml only; one level of subcommands (no nested subcommands); no dataclasses expanded as groups, no subclass specs inside containers or with nested class parameters, "
                  "no registered/restricted types (PositiveInt, timedelta, Path...), no multifile save with __path__ metas, links, toml/jsonnet; a dataclass directly as the type of a leaf (behaves as an expanded group) is outside the space. No axioms (Print Assumptions: closed under the global context).",
    "technique": "Rocq proof: verified regex-inclusion certificates over regenerated resolver tables + structural induction on "
                 "values and leaf lists; correspondence of a hand-written value-level model with real dump/print_config/save "
                 "round trips, judged inside Coq",
}

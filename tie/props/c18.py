"""C18 — save never destroys data: the real ArgumentParser.save under fault injection vs Model/SaveFS.v vs Spec/SaveFSSpec.v.

A case = one call of save() in a scratch directory:
  flags        multifile, overwrite, skip_validation, format, whether the target's directory exists
  decl         the parser / configuration: int and Any scalars, sub-parsers (ActionParser, possibly nested, possibly
               with a dotted key), Dict-typed arguments with enable_path, an ActionJsonnet argument, a Path_fr argument
               listed in save_path_content — each either inline or loaded from its own file (dir, file)
  layout       "sep": inputs live in another directory; "same": inputs live in the directory saved to
  pre          pre-existing files / directories in the target directory
  faults       invalid value at a key, unserialisable value at a key, the n-th dump_using_format call raises,
               the source of a save_path_content entry has disappeared
"""
import copy
import json
import os

from tie.framework import g_bool, g_list, g_nat, g_str, run_impl_parallel

PROP = "C18"
IMPORTS = "From JV Require Import Lib.Base Model.SaveFS Spec.SaveFSSpec Corr.C18Judge."
RULE = ("a systematic sweep (one nested configuration with 4 sub-files x single/multi-file x overwrite on/off x skip_validation "
        "x {no fault, invalid value at each int key, unserialisable value at each Any key, every index of the failing "
        "dump_using_format call} x {nothing, each target, all targets, a directory in the way} pre-existing), a deterministic list of "
        "special shapes (two sub-configs with one basename, a sub-file named like the main file, a save_path_content file "
        "saved onto itself / from elsewhere / whose source is gone, the last serialisation failing with every target "
        "pre-existing, an existing target x overwrite on/off x each of the 10 spellings of the target, the fsspec branch "
        "(local://dir/x) x flags x pre-existing target (content / empty / directory) x every failing point of dump(), targets "
        "no Path accepts (null byte, a non-path object), '-' as a file name, an EMPTY content file) plus seeded "
        "random configurations (0-4 sub-files of 4 kinds, nesting, dotted keys, colliding basenames, same-directory layout, "
        "save over the loaded file, json format, missing target directory, two simultaneous faults, 20% with the target path "
        "spelled as ./x, ../out/x, dir//x, through a symlink, ~/out/x, file://dir/x, a Path_fc object whose cwd is not "
        "the process cwd, the fsspec URL local://dir/x, a name with a null byte, a non-path object); a case is "
        "non-trivial when it has a sub-file, a fault or a pre-existing target; distinct = distinct "
        "(flags, declaration shape, faults, pre-existing entries, outcome)")
TRUSTED = [
    "Coq 8.16.1 kernel + vm_compute",
    "tie/impl/c18_save.py: scratch-directory fixtures, fault injection from the harness process, directory snapshots, "
    "text interning, exception -> {ok, path, refuse, fail}; and the Gallina printer",
    "hand-written model coq/Model/SaveFS.v (save_fixed), tied by per-case agreement evaluated inside Coq",
    "the oracle answers of the case (validate passes?, serialised texts) are measured on the real validate / dump / "
    "dump_using_format before save is called; the part of the configuration each file stands for is rebuilt by the harness",
]
ASSUMPTIONS = [
    "the target directory is flat and local (no symlinks among its entries, no permission bits - the harness runs as root, "
    "no remote targets; an fsspec URL naming a local file, local://dir/x, IS an input: c_kind = TFsspec, with the directory "
    "existing - fsspec creates missing directories itself, which a flat directory cannot show); the form of the target path (plain, ./x, ../d/x, d//x, through a symlinked directory) is part "
    "of the input (i_alias); model and spec speak about the FILE the target resolves to, whatever its spelling (~/x, "
    "file://..., a Path object with its own cwd are exercised by the harness and resolve to the same model input)",
    "failures considered: refused or uncreatable target, invalid configuration, failing serialisation, unreadable "
    "save_path_content source; an OS-level crash between two successful writes is outside the property",
    "serialise/parse round trip of the written texts is C01's subject: the theorem states which text is in which file",
]
EXHAUSTIVE = {"quick": False, "thorough": False}
# The four defects of the pinned tree (single-file-truncate, multifile-partial-write, subfile-name-collision,
# path-content-self-truncate) were repaired in /repo by "fix: save renders and validates every file before writing
# any ..." (known_findings/C18.txt, fixed: lines). The judge compares the implementation with the render-then-write
# model save_fixed; any recurrence of those is a VIOLATION.
# One residual hole of that fix is open (class 1): the collision test against the main file compares absolute path
# strings and is defeated by a target path given as ./main.yaml, ../d/main.yaml, d//main.yaml or through a symlink.
# When fixes/C18-collision-realpath.patch is applied in /repo:  FINDING_CLASSES = {}  and  JUDGE = "judge_fixed"
# (the model then ignores the form of the target path), and the open: line in known_findings/C18.txt becomes fixed:.
# Round 6, open (class 2): a target given as an fsspec URL naming a local file (local://<dir>/x) goes through save's
# fsspec branch, which has no overwrite check, opens the file before dump() and is preceded by Path(path, "sw")
# whose "w" check opens the file for writing. When fixes/C18-fsspec-target.patch is applied in /repo:
# FINDING_CLASSES = {}  and  JUDGE = "judge_fsfixed", and the open: line in known_findings/C18.txt becomes fixed:.
FINDING_CLASSES = {}  # fsspec-target-unprotected repaired in /repo e66d4c0
JUDGE = "judge_fsfixed"
if os.environ.get("VERIF_C18_FSFIXED"):  # to try a tree that has the patch without editing this file
    FINDING_CLASSES, JUDGE = {}, "judge_fsfixed"

JSONNET_TEXT = '{"c": 3, "d": 2+2}'


# ------------------------------------------------------------------------------------------------
# declarations
# ------------------------------------------------------------------------------------------------
def it_int(name, val):
    return {"name": name, "kind": "int", "val": val}


def it_any(name, val=None):
    return {"name": name, "kind": "any", "val": val}


def it_parser(name, items, file=None, d=""):
    return {"name": name, "kind": "parser", "items": items, "file": file, "dir": d}


def it_dict(name, val, file=None, d=""):
    return {"name": name, "kind": "dict", "val": val, "file": file, "dir": d}


def it_jsonnet(name, file, d=""):
    return {"name": name, "kind": "jsonnet", "val": JSONNET_TEXT, "file": file, "dir": d}


def it_pathc(name, text, file, d=""):
    return {"name": name, "kind": "pathc", "val": text, "file": file, "dir": d}


def walk(items, prefix=""):
    for it in items:
        key = prefix + it["name"]
        yield key, it
        if it["kind"] == "parser":
            yield from walk(it["items"], key + ".")


def keys_of(decl, kind):
    return [k for k, it in walk(decl) if it["kind"] == kind]


def sub_files(decl):
    return [(k, it) for k, it in walk(decl) if it["kind"] in ("parser", "dict", "jsonnet", "pathc") and it.get("file")]


def mk_case(decl, multifile=True, overwrite=False, skipval=False, fmt="yaml", main="main.yaml", dir_ok=True,
            layout="sep", input_main="input_main.yaml", pre=(), faults=(), via="plain"):
    return {"multifile": multifile, "overwrite": overwrite, "skipval": skipval, "fmt": fmt, "main": main, "dir_ok": dir_ok,
            "layout": layout, "input_main": input_main, "decl": decl, "pre": [list(p) for p in pre],
            "faults": [list(f) for f in faults], "via": via}


# how the target is spelled; the file meant is always <target dir>/<main>. The first five differ in the form of the
# path string; the last four are spellings that Path resolves (expanduser, file:// scheme, a Path object with its own
# cwd) but that do not name the file when handed to os.path.* as they are.
VIAS = ["plain", "dot", "dotdot", "slash", "link", "tilde", "fileurl", "pathobj", "chdir", "fsspec"]
# targets no Path accepts (PathError before anything is looked at), and "-" (Path's spelling of standard output,
# which save() nevertheless opens as the file <cwd>/-; only used with main == "-")
VIAS_REJECTED = ["nul", "badtype"]
VIA_SHOW = {"plain": "'<dir>/%s'", "dot": "'./%s'", "dotdot": "'../out/%s'", "slash": "'<dir>//%s'", "link": "'<symlink to dir>/%s'",
            "tilde": "'~/out/%s' (HOME = parent of <dir>)", "fileurl": "'file://<dir>/%s'",
            "pathobj": "Path_fc('%s', cwd=<dir>) with the process elsewhere",
            "chdir": "Path_fc('%s') created inside <dir>, used after os.chdir away",
            "fsspec": "'local://<dir>/%s' (an fsspec URL naming the file)",
            "nul": "'<dir>/ma\\0in%s' (null byte in the name)", "badtype": "12345 (not a path; file meant: %s)",
            "dash": "'%s' from inside <dir>"}


SWEEP_DECL = [
    it_int("k", 3),
    it_parser("s1", [it_int("x", 5), it_any("w"), it_parser("inner", [it_int("x", 9), it_any("w")], "i.yaml", "a")], "s1.yaml", "a"),
    it_dict("d1", {"a": 1, "b": 2}, "d1.yaml"),
    it_any("anyv"),
    it_parser("s2", [it_int("x", 7), it_any("w", "text")], "s2.yaml", "b"),
]


def sweep(tier):
    decl = SWEEP_DECL
    faults = [[]]
    faults += [[["invalid", k]] for k in keys_of(decl, "int")] + [[["invalid", "d1"]]]
    faults += [[["unser", k]] for k in keys_of(decl, "any")]
    faults += [[["failcall", n]] for n in range(6)]
    targets = ["main.yaml", "i.yaml", "d1.yaml", "s1.yaml", "s2.yaml"]
    pres = [[]] + [[[t, "file", "old " + t]] for t in targets] + [[[t, "file", "old " + t] for t in targets]]
    pres += [[["s1.yaml", "dir"]], [["main.yaml", "dir"]], [["unrelated.txt", "file", "keep me"], ["s2.yaml", "file", ""]]]
    cases = []
    for multifile in (True, False):
        for overwrite in (False, True):
            for fl in faults:
                for pre in pres:
                    if not multifile and any(p[0] not in ("main.yaml", "unrelated.txt") for p in pre) and len(pre) == 1:
                        continue
                    cases.append(mk_case(decl, multifile, overwrite, False, pre=pre, faults=fl))
    # skip_validation: invalid values get as far as the serialiser
    for multifile in (True, False):
        for fl in ([["invalid", "s1.x"]], [["invalid", "k"], ["unser", "s2.w"]], [["invalid", "d1"], ["failcall", 2]], []):
            for pre in ([], [["main.yaml", "file", "old"]]):
                cases.append(mk_case(decl, multifile, True, True, pre=pre, faults=fl))
    return cases


def sweep_special():
    """Deterministic scenarios that need a particular shape: colliding file names, a content file saved onto itself,
    a source that disappeared, the LAST serialisation failing with everything pre-existing."""
    cases = []
    sub = lambda name, f, d: it_parser(name, [it_int("x", 5), it_any("w")], f, d)  # noqa: E731
    # two sub-configs with the same basename (parser/parser, dict/parser, nested/top-level)
    clash_decls = [
        [it_int("k", 3), sub("s1", "s.yaml", "a"), sub("s2", "s.yaml", "b")],
        [it_int("k", 3), it_dict("d1", {"a": 1, "b": 2}, "s.yaml", "a"), sub("s2", "s.yaml", "b")],
        [it_int("k", 3), it_parser("s1", [it_int("x", 5), sub("inner", "s.yaml", "b")], "s.yaml", "a")],
        [it_int("k", 3), sub("s1", "s.yaml", "a"), it_jsonnet("jn", "s.yaml", "b")],
    ]
    for decl in clash_decls:
        for overwrite in (False, True):
            for pre in ([], [["s.yaml", "file", "old s"]], [["main.yaml", "file", "old main"], ["other.txt", "file", "keep"]]):
                for fl in ([], [["failcall", 2]]):
                    cases.append(mk_case(decl, True, overwrite, pre=pre, faults=fl))
        cases.append(mk_case(decl, False, True))
    # a sub-file named like the main file
    for decl in ([it_int("k", 3), sub("s1", "s1.yaml", "a"), sub("s2", "s2.yaml", "b")],
                 [it_int("k", 3), it_dict("d1", {"a": 1, "b": 2}, "s2.yaml", "a")],
                 [it_int("k", 3), it_pathc("pc", "precious", "s2.yaml", "a")]):
        for overwrite in (False, True):
            for pre in ([], [["s2.yaml", "file", "old"]]):
                for via in VIAS:
                    cases.append(mk_case(decl, True, overwrite, main="s2.yaml", pre=pre, via=via))
    # an existing target, however it is spelled: refused without overwrite, replaced with it
    plain_decl = [it_int("k", 3), it_any("anyv", "text")]
    for via in VIAS:
        for multifile in (True, False):
            for overwrite in (False, True):
                for decl in (plain_decl, clash_decls[1]):
                    cases.append(mk_case(decl, multifile, overwrite, pre=[["main.yaml", "file", "my only copy\n"]], via=via))
                cases.append(mk_case(plain_decl, multifile, overwrite, pre=[["main.yaml", "file", ""]], via=via))
                cases.append(mk_case(plain_decl, multifile, overwrite, pre=[["main.yaml", "dir"]], via=via))
    # the fsspec branch: every flag combination x pre-existing target (content / empty / directory / none) x every
    # point at which dump() can fail x missing directory
    for decl in (plain_decl, clash_decls[0][:2]):
        for multifile in (True, False):
            for overwrite in (False, True):
                for pre in ([], [["main.yaml", "file", "my only copy\n"]], [["main.yaml", "file", ""]], [["main.yaml", "dir"]],
                            [["main.yaml", "file", "my only copy\n"], ["other.txt", "file", "keep"]]):
                    for fl in ([], [["invalid", "k"]], [["failcall", 0]], [["unser", "anyv"]] if decl is plain_decl else [["failcall", 1]]):
                        for skipval in (False, True):
                            if skipval and not fl:
                                continue
                            cases.append(mk_case(decl, multifile, overwrite, skipval, pre=pre, faults=fl, via="fsspec"))
    # targets that are rejected before anything is looked at; "-" is a file name like any other
    for via in VIAS_REJECTED + ["dash"]:
        main = "-" if via == "dash" else "main.yaml"
        for decl in (plain_decl, clash_decls[0][:2]):
            for multifile in (True, False):
                for overwrite in (False, True):
                    for pre in ([], [[main, "file", "my only copy\n"]]):
                        for fl in ([], [["invalid", "k"]]):
                            cases.append(mk_case(decl, multifile, overwrite, main=main, pre=pre, faults=fl, via=via))
    # the form of the target path must not matter otherwise
    for via in VIAS[1:]:
        for multifile in (True, False):
            for fl in ([], [["invalid", "k"]], [["failcall", 1]]):
                cases.append(mk_case(clash_decls[0], multifile, True, pre=[["main.yaml", "file", "old main"]], faults=fl, via=via))
                cases.append(mk_case(SWEEP_DECL, multifile, False, pre=[["other.txt", "file", "keep"]], faults=fl, via=via))
    # save_path_content: file living in the directory saved to / elsewhere / gone; a later failure after it
    pc_decl = [it_int("k", 3), it_any("anyv"), it_pathc("pc.path", "precious", "file.txt"), sub("s1", "s1.yaml", "")]
    for layout in ("same", "sep"):
        for overwrite in (False, True):
            for main in ("main.yaml", "input_main.yaml"):
                if layout == "sep" and main != "main.yaml":
                    continue
                faultsets = [[], [["unser", "anyv"]], [["failcall", 0]], [["failcall", 1]], [["invalid", "k"]]]
                if layout == "sep":
                    faultsets += [[["missing_src", "pc.path"]], [["missing_src", "pc.path"], ["invalid", "k"]]]
                pres = [[]] if layout == "same" else [[], [["file.txt", "file", "old file"]],
                                                      [["file.txt", "file", "old file"], ["s1.yaml", "file", "old s1"],
                                                       ["main.yaml", "file", "old main"]]]
                for fl in faultsets:
                    for pre in pres:
                        cases.append(mk_case(pc_decl, True, overwrite, main=main, layout=layout, pre=pre, faults=fl))
    # a content file that is EMPTY (the file must still be produced / replaced)
    for text in ("", "precious"):
        e_decl = [it_int("k", 3), it_pathc("pc.path", text, "file.txt", "a"), sub("s1", "s1.yaml", "")]
        for overwrite in (False, True):
            for pre in ([], [["file.txt", "file", "old file"]]):
                cases.append(mk_case(e_decl, True, overwrite, pre=pre))
    # everything pre-existing, overwrite=True, the last step (serialisation of the main configuration) fails
    late = [it_any("anyv"), it_int("k", 3), sub("s1", "s1.yaml", "a"), it_dict("d1", {"a": 1, "b": 2}, "d1.yaml"),
            it_jsonnet("jn", "j.jsonnet", "b")]
    allpre = [[t, "file", "old " + t] for t in ("main.yaml", "s1.yaml", "d1.yaml", "j.jsonnet")]
    for fl in ([["unser", "anyv"]], [["failcall", 2]], [["failcall", 1]], [["unser", "s1.w"]], []):
        for overwrite in (False, True):
            for pre in ([], allpre, allpre[:1], allpre[3:]):
                cases.append(mk_case(late, True, overwrite, pre=pre, faults=fl))
    return cases


NAMES = ["s.yaml", "t.yaml", "u.yaml", "v.json", "w.yaml"]
TEXTS = ["", "old content\n", "k: 1\n", "precious", "x: 5\nw: null\n"]


def gen_items(rng, depth, used, layout, want_clash):
    """A list of declared items for one parser level."""
    items = [it_int("x" if depth else "k", rng.randint(1, 9))]
    if rng.random() < 0.7:
        items.append(it_any("w" if depth else "anyv", rng.choice([None, None, "text", 4])))
    nsub = rng.choice([0, 1, 1, 2, 2, 3]) if depth == 0 else (1 if depth < 2 and rng.random() < 0.35 else 0)
    for j in range(nsub):
        kind = rng.choice(["parser", "parser", "parser", "dict", "dict", "jsonnet", "pathc"] if depth == 0 else ["parser", "dict"])
        base = "%s%d" % ({"parser": "s", "dict": "d", "jsonnet": "jn", "pathc": "pc"}[kind], j)
        name = base
        if depth == 0 and rng.random() < 0.2:
            name = "grp." + base
        if kind == "pathc":
            name = base + ".path" if rng.random() < 0.5 else base
        from_file = kind in ("jsonnet", "pathc") or rng.random() < 0.85
        f = d = None
        if from_file:
            for _ in range(20):
                if kind == "pathc":
                    f = rng.choice(["file.txt", "data.bin", "s.yaml"])
                elif kind == "jsonnet":
                    f = rng.choice(["j.jsonnet", "s.yaml"])
                else:
                    f = rng.choice(NAMES)
                d = "" if layout == "same" else rng.choice(["", "a", "b"])
                if (d, f) in used:
                    continue
                if layout == "same" and any(f == uf for _, uf in used):
                    continue
                if not want_clash and any(f == uf for _, uf in used):
                    continue
                break
            else:
                f = "%s_%d_%d.yaml" % (base, depth, len(used))
                d = ""
            used.add((d, f))
        if kind == "parser":
            items.append(it_parser(name, gen_items(rng, depth + 1, used, layout, want_clash), f, d or ""))
        elif kind == "dict":
            items.append(it_dict(name, {"a": rng.randint(1, 5), "b": 2}, f, d or ""))
        elif kind == "jsonnet":
            items.append(it_jsonnet(name, f, d or ""))
        else:
            items.append(it_pathc(name, rng.choice(["precious", "line1\nline2\n", ""]), f, d or ""))
    rng.shuffle(items)
    return items


def gen_random(rng):
    layout = "same" if rng.random() < 0.25 else "sep"
    want_clash = rng.random() < 0.15
    input_main = "input_main.yaml"
    used = {("", input_main)}
    decl = gen_items(rng, 0, used, layout, want_clash)
    subs = sub_files(decl)
    names = [it["file"] for _, it in subs]
    main = "main.yaml"
    r = rng.random()
    if layout == "same" and r < 0.4:
        main = input_main  # save over the file the configuration was loaded from
    elif names and r > 0.93:
        main = rng.choice(names) if layout == "sep" else main  # main file named like one of its sub-files
    pre = []
    if layout == "sep":
        for t in sorted(set(names + [main])):
            q = rng.random()
            if q < 0.28:
                pre.append([t, "file", rng.choice(TEXTS)])
            elif q < 0.33:
                pre.append([t, "dir"])
    elif main != input_main and main not in names and rng.random() < 0.4:
        pre.append([main, "file", rng.choice(TEXTS)])
    taken = set(names + [main, input_main] + [p[0] for p in pre])
    if rng.random() < 0.6 and "other.txt" not in taken:
        pre.append(["other.txt", "file", "unrelated"])
    if rng.random() < 0.2 and "zz" not in taken:
        pre.append(["zz", "dir"])
    ints, anys = keys_of(decl, "int"), keys_of(decl, "any")
    dicts = [k for k, it in walk(decl) if it["kind"] == "dict"]
    pcs = [k for k, it in subs if it["kind"] == "pathc"]
    faults = []
    multifile = rng.random() < 0.72
    q = rng.random()
    ncalls = 1 + len([1 for _, it in subs if it["kind"] in ("parser", "dict")])
    if q < 0.28:
        pass
    elif q < 0.50:
        faults.append(["invalid", rng.choice(ints + dicts)])
    elif q < 0.68 and anys:
        faults.append(["unser", rng.choice(anys)])
    elif q < 0.86:
        faults.append(["failcall", rng.randrange(ncalls + 1)])
    elif q < 0.91 and pcs and layout == "sep" and multifile:  # (single-file mode never reads the file)
        faults.append(["missing_src", rng.choice(pcs)])
    elif anys:
        faults.append(["invalid", rng.choice(ints)])
        faults.append(rng.choice([["unser", rng.choice(anys)], ["failcall", rng.randrange(ncalls + 1)]]))
    via = rng.choice(VIAS[1:] + VIAS_REJECTED) if rng.random() < 0.24 else "plain"
    # (fsspec.open creates missing directories itself: nested result, outside the flat directory model)
    dir_ok = rng.random() > 0.04 or via == "fsspec"
    return mk_case(decl, multifile=multifile, overwrite=rng.random() < 0.55, skipval=rng.random() < 0.15,
                   fmt="json" if rng.random() < 0.12 else "yaml", main=main, dir_ok=dir_ok, layout=layout,
                   input_main=input_main, pre=pre, faults=faults, via=via)


def generate(rng, tier):
    cases = sweep(tier) + sweep_special()
    for _ in range(500 if tier == "quick" else 12000):
        cases.append(gen_random(rng))
    return cases


# ------------------------------------------------------------------------------------------------
# observation
# ------------------------------------------------------------------------------------------------
def observe(cases):
    n = 16 if len(cases) >= 64 else 1
    chunks = [cases[i::n] for i in range(n)]
    res = run_impl_parallel("c18_save.py", [{"cases": ch} for ch in chunks], timeout=1500)
    out = [None] * len(cases)
    for k, r in enumerate(res):
        out[k::n] = r
    return out


# ------------------------------------------------------------------------------------------------
# Gallina
# ------------------------------------------------------------------------------------------------
def g_fs(snap):
    return g_list(["(%s, %s)" % (g_str(n), "Dir" if c < 0 else "File %d%%N" % c) for n, c in snap], "(name * node)")


def g_outcome(c):
    return "Fail" if c is None else "(Out %d%%N)" % c


def g_src(src):
    if src[0] == "dump":
        return "(SrcDump %s)" % g_outcome(src[1])
    if src[0] == "orig":
        return "(SrcOrig %d%%N)" % src[1]
    if src[0] == "here":
        return "SrcPathHere"
    return "(SrcPathExt %s)" % ("None" if src[1] is None else "(Some %d%%N)" % src[1])


def term(case, obs):
    subs = g_list(
        ["{| s_depth := %s; s_branch := %s; s_name := %s; s_src := %s |}" % (g_nat(s["depth"]), g_bool(s["branch"]), g_str(s["name"]), g_src(s["src"]))
         for s in obs["subs"]], "sub")
    fc = [f[1] for f in case["faults"] if f[0] == "failcall"]
    inp = ("{| i_multifile := %s; i_overwrite := %s; i_skipval := %s; i_dir_ok := %s; i_alias := %s; i_main := %s; i_fs := %s; "
           "i_valid := %s; i_full := %s; i_subs := %s; i_mainr := %s; i_failcall := %s |}") % (
        g_bool(case["multifile"]), g_bool(case["overwrite"]), g_bool(case["skipval"]), g_bool(obs.get("path_ok", case["dir_ok"])),
        g_bool(obs["alias"]), g_str(case["main"]), g_fs(obs["before"]), g_bool(obs["valid"]), g_outcome(obs["full"]), subs,
        g_outcome(obs["mainr"]), "(Some %s)" % g_nat(fc[0]) if fc else "None")
    res = {"ok": "KOk", "path": "KPath", "refuse": "KRefuse", "fail": "KFail"}[obs["res"]]
    kind = "TFsspec" if obs.get("kind") == "fsspec" else "TLocal"
    return "{| c_kind := %s; c_in := %s; c_res := %s; c_fs := %s; c_reparse := %s |}" % (
        kind, inp, res, g_fs(obs["after"]), g_bool(bool(obs["reparse"])))


def shape(items):
    return [(it["name"], it["kind"], it.get("file"), it.get("dir"), shape(it["items"]) if it["kind"] == "parser" else None) for it in items]


def nontrivial_key(case, obs):
    if not (obs["subs"] or case["faults"] or any(p[0] == case["main"] for p in case["pre"])):
        return None
    return json.dumps([case["multifile"], case["overwrite"], case["skipval"], case["fmt"], case["main"], case["dir_ok"],
                       case.get("via", "plain"), case["layout"], shape(case["decl"]), case["faults"], [p[:2] for p in case["pre"]], obs["res"],
                       obs["after"] == obs["before"]])


def category(case, obs):
    f = "+".join(sorted({x[0] for x in case["faults"]})) or "nofault"
    changed = "unchanged" if obs["after"] == obs["before"] else "changed"
    return "%s/%s/%d subs/%s/%s/%s%s" % ("multi" if case["multifile"] else "single", "ow" if case["overwrite"] else "noow",
                                         min(len(obs["subs"]), 4), f, obs["res"], changed,
                                         "/target as " + case["via"] if case.get("via", "plain") != "plain" else "")


def describe(case, obs):
    t = obs["texts"]

    def fs(snap):
        return {n: ("<dir>" if c < 0 else t[c][:60]) for n, c in snap}

    return {
        "call": "parser.save(cfg, %s, format=%r, skip_validation=%s, overwrite=%s, multifile=%s)%s" % (
            VIA_SHOW[case.get("via", "plain")] % case["main"], case["fmt"], case["skipval"], case["overwrite"], case["multifile"],
            "" if case["dir_ok"] else " in a directory that does not exist"),
        "configuration": shape(case["decl"]),
        "layout": case["layout"],
        "faults": case["faults"],
        "directory_before": fs(obs["before"]),
        "directory_after": fs(obs["after"]),
        "result": obs["res"], "exception": obs["exc"], "parsed_back_equal": obs["reparse"],
        "sub_files_in_declaration_order": [[s["key"], s["name"], s["src"][0]] for s in obs["subs"]],
    }


def shrink(case):
    for i in range(len(case["faults"])):
        c = copy.deepcopy(case)
        del c["faults"][i]
        yield c
    for i in range(len(case["pre"])):
        c = copy.deepcopy(case)
        del c["pre"][i]
        yield c

    def drop(items, path):
        for i, it in enumerate(items):
            yield path + [i]
            if it["kind"] == "parser":
                yield from drop(it["items"], path + [i])

    used = {f[1] for f in case["faults"] if f[0] != "failcall"}
    for path in drop(case["decl"], []):
        c = copy.deepcopy(case)
        items = c["decl"]
        for i in path[:-1]:
            items = items[i]["items"]
        it = items[path[-1]]
        if it["kind"] == "int" and len([x for x in items if x["kind"] == "int"]) == 1:
            continue
        del items[path[-1]]
        live = {k for k, _ in walk(c["decl"])}
        if not used <= live:
            continue
        yield c
    for k, v in (("fmt", "yaml"), ("skipval", False), ("layout", "sep"), ("dir_ok", True), ("via", "plain"), ("via", "dot")):
        if case.get(k, v) != v and not (k == "layout"):
            c = copy.deepcopy(case)
            c[k] = v
            yield c


def search(rng, tier, broken):
    """After a broken proof / tie: ONE fresh quick-sized batch (under a minute), whatever the tier; the smallest case that
    contradicts the spec inside the guard (or outside it in a class that is not a listed finding) is the failing input."""
    import sys

    from tie import framework as F

    mod = sys.modules[__name__]
    cases = sweep_special() + [gen_random(rng) for _ in range(600)]
    obs = observe(cases)
    bm, bi, bo = F.judge_cases(mod, cases, obs, tag="f")
    known = F.load_known_findings(PROP)
    bad = set(bi) | {i for i, k in bo if FINDING_CLASSES.get(k) not in known}
    if not bad:
        return None
    i = min(bad, key=lambda j: (len(json.dumps(cases[j]["decl"])), len(cases[j]["pre"]), len(cases[j]["faults"])))
    return {"case": cases[i], "observed": obs[i], "explain": describe(cases[i], obs[i])}


META = {
    "level_text": "Theorems in coq/Properties/C18.v about save_fixed, the step-list model of ArgumentParser.save (check and "
                  "render every file, refuse two configs mapped to one file, then write) over a directory name -> File text | "
                  "Dir, for EVERY input: any directory content, single-/multi-file, any flags, any number of sub-files with "
                  "any (also colliding) names in any order, every oracle of which validate / serialiser / get_content step "
                  "fails (incl. an injected n-th serialiser call), any form of the target path. Without guard: "
                  "C18_no_silent_overwrite (without overwrite=True every existing file or directory is unchanged, success or "
                  "failure), C18_existing_target_refused, C18_existing_subfile_refused, C18_directory_in_the_way_refused, "
                  "C18_subfile_collision_refused (each fails with the directory unchanged), C18_only_targets_touched, "
                  "C18_failed_save_changes_nothing (EVERY failure leaves the directory exactly as it was). Guarded by "
                  "alias_clash = false (not: multi-file, target path in non-normal form, a sub-file named like the main "
                  "file): C18_save_then_parse (after success every target holds exactly the text it stands for; a "
                  "save_path_content file saved onto itself keeps its content), C18_name_collision_refused, "
                  "C18_model_meets_spec, C18_judge_sound (in class 0 an observation the model reproduces satisfies "
                  "Spec/SaveFSSpec.v). Outside the guard read-back is false on the current tree: "
                  "C18_collision_with_main_refuted (open finding collision-with-main-unnormalised-path, replayed on the real "
                  "code; fixes/C18-collision-realpath.patch). The model is tied to the real save by fault injection from "
                  "the harness in scratch directories with directory snapshots (model and spec agreement computed inside "
                  "Coq). The four defects of the pre-fix order (fixed in /repo) are kept as *_old_order_refuted regression "
                  "witnesses about save_old, which is not the model of the current code. Round 6: the FSSPEC BRANCH of save is "
                  "inside the model (save_impl k i, k = TLocal | TFsspec; save_fsspec = the branch as it is: Path(path,'sw') "
                  "opens the file for writing, no overwrite check, fsspec.open before dump). There (a) and (b) are FALSE: "
                  "C18_fsspec_silent_overwrite_refuted, C18_fsspec_truncates_on_failure_refuted, "
                  "C18_fsspec_multifile_refusal_truncates_refuted, and C18_fsspec_current_failure_empties_target (EVERY failing "
                  "save through the branch leaves the target empty) - open finding fsspec-target-unprotected (class 2, replayed "
                  "on the real code; fixes/C18-fsspec-target.patch). For the patched branch save_fsspec_fixed all statements are "
                  "proved for every input (C18_fsspec_fixed_failed_save_changes_nothing, _no_silent_overwrite, "
                  "_existing_target_refused, _multifile_refused_untouched, _only_target_touched, _save_then_parse), and for the "
                  "whole implementation whichever way the target is resolved: C18_impl_fixed_failed_save_changes_nothing, "
                  "C18_impl_fixed_no_silent_overwrite, C18_impl_fixed_meets_spec, C18_judge_fixed_sound (the judge bin/check "
                  "uses), C18_judge_fsfixed_sound + C18_judge_fsfixed_no_class (the judge after the patch has no class left).",
    "level_note": "Proved: the statements above for the model. Only exercised by the correspondence: that the real save "
                  "performs exactly the modelled steps (result kind, directory afterwards), and that a successful save parses "
                  "back to the configuration (the theorem states which text is in which file; the serialise/parse round trip "
                  "of one text is C01). Trusted: Coq kernel/VM; the fixture/snapshot harness and Gallina printer; the "
                  "model's faithfulness outside the exercised scenarios; validate, the serialiser and get_content are an "
                  "oracle whose answers are measured per case before the call. No axioms. Outside the statement: OS-level "
                  "failures between two writes of the final write loop, permission bits, symlinks among the directory "
                  "entries, remote (non-local fsspec / URL) targets, a missing directory under an fsspec target (fsspec creates "
                  "it), a DIRECTORY named '-' as the target (Path skips its checks for '-').",
    "technique": "Rocq proof by induction over the step list / sub-file list (the check phase writes nothing; invariant on "
                 "the pending list: distinct names, each checked, each carrying the expected text; flush lemmas) + judge "
                 "soundness theorem generic in the save function (judge_sound_core: any save with the four properties "
                 "meets the spec) instantiated for the local branch, the current judge and the patched fsspec branch + "
                 "fault-injection correspondence evaluated in Coq",
}

"""C17 — exactly one subcommand is selected and only its settings survive.
Generated subcommand trees x structured inputs; real parsers vs Model/C17Subcmd.v vs Spec/C17SubcmdSpec.v."""
import ast
import hashlib
import json
import os

from tie import framework
from tie.framework import TieBroken, g_bool, g_list, g_opt, g_pair, g_str, g_Z, run_impl_parallel

PROP = "C17"
IMPORTS = "From JV Require Import Lib.Base Model.C17Subcmd Spec.C17SubcmdSpec Corr.C17Judge."
RULE = ("seeded random subcommand trees (1-3 levels of subcommands, 1-4 subcommands per level, required or optional, "
        "int options and a --cfg option at any level, dest 'subcommand'/'cmd'/'sel', names reused across levels and, in a third of "
        "the trees, drawn also from attribute/method names of Namespace: get, items, keys, values, update, clone, pop, as_dict) x "
        "~12 inputs per tree through parse_args (options, --cfg strings and subcommand tokens at every level), "
        "parse_object, parse_string, each without or with a generated environment (values for options of inner levels on most "
        "paths) whose reading is switched on by default_env=True in the constructor, by the root.default_env setter AFTER the tree "
        "is built, or by parse_*(env=True), or is switched OFF (setter after a default_env=True build, or never on) with the "
        "variables present all the same; and parse_env(<explicit mapping>) with os.environ clean or holding other variables of the "
        "same prefix (decoys); inputs "
        "select, omit, mis-name, or give settings for several subcommands; a case is non-trivial when some channel "
        "names a subcommand or gives a section for one; distinct = distinct (tree, input)")
TRUSTED = [
    "Coq 8.16.1 kernel + vm_compute",
    "tie/impl/c17_subcmd.py (builds the real parsers, renders argv / JSON / environment variables, strips the 'cfg' keys) and the Gallina printer",
    "hand-written model coq/Model/C17Subcmd.v, tied by per-case agreement evaluated inside Coq",
    "argparse's tokenisation of argv into options, the subcommand token and the remainder",
    "translate(): recognition of the pinned / repaired shape of the two `if` tests of get_subcommands that selects the model variant (a wrong recognition surfaces as model disagreements)",
]
ASSUMPTIONS = [
    "options are --k type=int with int defaults; config values are nested objects with int/str leaves (no explicit null, no lists), keys unique at every level (json_ok, checked per case by the judge)",
    "no default_config_files, no subcommand aliases, no PREFIX_CFG environment variable, names are lower-case without '.' (one subcommand name, as_dict, has a '_')",
    "option names, subcommand names, dest and 'cfg' are pairwise different inside one parser (wf_parser)",
]
EXHAUSTIVE = {"quick": False, "thorough": False}
FINDING_CLASSES = {1: "falsy-subcommand-name-keeps-all-sections", 2: "cfg-naming-other-subcommand-drops-settings",
                   3: "env-mapping-ignored-by-handle-subcommands"}

# Which tree is under test?  The model (Model/C17Subcmd.v) takes a `variant` {fx_falsy; fx_cfg; fx_envmap}: one flag per
# fix patch of a C17 finding; coq/Corr/C17Judge.v: `judge_v <variant>` judges against that model and drops the finding
# class of every fix the tree has (a recurrence is then a VIOLATION).  translate() reads from the tree under test
# (framework.REPO): the two `if` tests of get_subcommands the first two patches touch, and whether handle_subcommands
# hands an `env=` mapping to subparser.parse_env (third patch); every other shape of those lines selects the unfixed
# behaviour, so a changed line is judged against it and shows up as a failing input.  Set C17_JUDGE in the environment
# (a Gallina expression, e.g. 'judge_v {| fx_falsy := true; fx_cfg := true; fx_envmap := false |}') to force one.
JUDGE = "judge"
JUDGE_OVERRIDE = os.environ.get("C17_JUDGE")
_FIXED_REMOVE_TEST = "subcommand and len(subcommand_keys) > 1 and (fail_no_subcommand or require_single)"
_FIXED_MEMBER_TEST = "subcommand not in action._name_parser_map"
_ORIG_REMOVE_TEST = "subcommand and len(subcommand_keys) > 1"
_ORIG_MEMBER_TEST = "action._required and subcommand not in action._name_parser_map"


def translate():
    """No Gallina is generated for C17 (the model is hand-written); this only recognises which of the
    four modelled trees the implementation is and selects the judge built for it."""
    global JUDGE
    path = os.path.join(framework.REPO, "jsonargparse", "_actions.py")
    try:
        tree = ast.parse(open(path).read())
    except (OSError, SyntaxError) as e:
        raise TieBroken("cannot read %s: %s" % (path, e), witness=None)
    fn = None
    for node in ast.walk(tree):
        if isinstance(node, ast.ClassDef) and node.name == "_ActionSubCommands":
            for it in node.body:
                if isinstance(it, ast.FunctionDef) and it.name == "get_subcommands":
                    fn = it
    if fn is None:
        raise TieBroken("_ActionSubCommands.get_subcommands not found in %s" % path, witness=None)
    tests = [ast.unparse(n.test) for n in ast.walk(fn) if isinstance(n, ast.If)]
    falsy_fixed = _FIXED_MEMBER_TEST in tests and _ORIG_MEMBER_TEST not in tests
    cfg_fixed = _FIXED_REMOVE_TEST in tests and _ORIG_REMOVE_TEST not in tests
    # handle_subcommands: does `subparser.parse_env(...)` get the caller's environment mapping (keyword env)?
    hs = None
    for node in ast.walk(tree):
        if isinstance(node, ast.ClassDef) and node.name == "_ActionSubCommands":
            for it in node.body:
                if isinstance(it, ast.FunctionDef) and it.name == "handle_subcommands":
                    hs = it
    if hs is None:
        raise TieBroken("_ActionSubCommands.handle_subcommands not found in %s" % path, witness=None)
    penv_calls = [n for n in ast.walk(hs) if isinstance(n, ast.Call) and isinstance(n.func, ast.Attribute)
                  and n.func.attr == "parse_env"]
    envmap_fixed = bool(penv_calls) and all(any(k.arg == "env" for k in c.keywords) for c in penv_calls)
    g = lambda b: "true" if b else "false"
    JUDGE = "judge_v {| fx_falsy := %s; fx_cfg := %s; fx_envmap := %s |}" % (g(falsy_fixed), g(cfg_fixed), g(envmap_fixed))
    if JUDGE_OVERRIDE:
        JUDGE = JUDGE_OVERRIDE
    return {"get_subcommands_if_tests": tests,
            "handle_subcommands_parse_env_keywords": [[k.arg for k in c.keywords] for c in penv_calls], "judge": JUDGE}


OPTN = ["x", "y", "z", "w", "v", "u"]
SUBN = ["a", "b", "c", "d", "e", "f"]
# subcommand names that are also attributes / methods of jsonargparse.Namespace (or argparse.Namespace): whatever looks a
# section up by attribute instead of by key finds the bound method; these must behave like any other name
SUBN_ATTR = ["get", "items", "keys", "values", "update", "clone", "pop", "as_dict"]
DESTS = ["subcommand", "cmd", "sel"]


# ------------------------------------------------------------------------------------------------
# generators
# ------------------------------------------------------------------------------------------------
def gen_parser(rng, levels, top=True):
    opts = [[k, rng.randint(0, 9)] for k in rng.sample(OPTN, rng.choice([0, 1, 1, 2, 2, 3]))]
    P = {"cfg": rng.random() < (0.8 if top else 0.5), "opts": opts, "has": levels > 0, "req": True,
         "dest": "subcommand", "choices": []}
    if levels > 0:
        P["req"] = rng.random() < 0.6
        P["dest"] = rng.choice(DESTS)
        n = rng.choice([1, 2, 2, 3, 3, 4])
        names = rng.sample(SUBN + SUBN_ATTR if rng.random() < 0.35 else SUBN, n)
        for nm in names:
            sub_levels = levels - 1 if rng.random() < 0.7 else max(0, levels - 2)
            if levels - 1 > 0 and nm == names[0]:
                sub_levels = levels - 1  # keep the requested depth on one path
            P["choices"].append([nm, gen_parser(rng, sub_levels, False)])
    return P


def gen_cfg(rng, P, rich, for_env=False):
    """an OBJ aimed at parser P"""
    o = []
    for k, _ in P["opts"]:
        if rng.random() < (0.6 if for_env else 0.4):
            o.append([k, rng.randint(10, 99)])
    if rng.random() < 0.03 and not for_env:
        o.append(["q", 5])  # undeclared key
    if P["has"]:
        names = [n for n, _ in P["choices"]]
        r = rng.random()
        if r < (0.5 if for_env else 0.35):
            o.append([P["dest"], rng.choice(names)])
        elif r < (0.56 if for_env else 0.38):
            o.append([P["dest"], "zz"])
        elif r < 0.40 and not for_env:
            o.append([P["dest"], ""])
        for n, Q in P["choices"]:
            if rng.random() < rich:
                sec = gen_cfg(rng, Q, rich, for_env)
                if sec or rng.random() < 0.3:
                    o.append([n, sec])
        if rng.random() < 0.02 and not for_env:
            o.append(["zz", [["x", 1]]])
    rng.shuffle(o)
    return o


def gen_argv(rng, P, rich):
    items = []
    for k, _ in P["opts"]:
        if rng.random() < 0.35:
            items.append(["opt", k, rng.randint(100, 999)])
    if rng.random() < 0.02:
        items.append(["opt", "q", 1])
    if P["cfg"]:
        for _ in range(rng.choice([0, 0, 1, 1, 1, 2])):
            items.append(["cfg", gen_cfg(rng, P, rich)])
    elif rng.random() < 0.01:
        items.append(["cfg", []])
    rng.shuffle(items)
    sub = None
    if P["has"]:
        r = rng.random()
        if r < 0.6:
            n, Q = rng.choice(P["choices"])
            sub = [n, gen_argv(rng, Q, rich)]
        elif r < 0.62:
            sub = ["zz", {"items": [], "sub": None}]
    elif rng.random() < 0.02:
        sub = ["a", {"items": [], "sub": None}]
    return {"items": items, "sub": sub}


def gen_input(rng, P):
    rich = rng.choice([0.2, 0.4, 0.6])
    # the environment is generated richer than the configs (values for options of inner levels on most paths), so that
    # what each level reads from it - under every way of switching it on or off - is exercised at depth >= 2
    env = gen_cfg(rng, P, rng.choice([0.5, 0.8]), for_env=True) if rng.random() < 0.5 else None
    r = rng.random()
    if r < 0.45:
        entry = {"kind": "args", "argv": gen_argv(rng, P, rich)}
    elif r < 0.65:
        entry = {"kind": "object", "cfg": gen_cfg(rng, P, rich)}
    elif r < 0.85:
        entry = {"kind": "string", "cfg": gen_cfg(rng, P, rich)}
    else:
        # parser.parse_env(mapping): the environment is an explicit mapping; os.environ is clean ("env": []) or holds
        # other variables of the same prefix (decoys) that this parse must not see
        entry = {"kind": "env", "map": gen_cfg(rng, P, rng.choice([0.5, 0.8]), for_env=True)}
        env = gen_cfg(rng, P, rng.choice([0.5, 0.8]), for_env=True) if rng.random() < 0.35 else []
    return env, entry


def generate(rng, tier):
    cases = []
    ntrees = 300 if tier == "quick" else 5000
    for t in range(ntrees):
        levels = rng.choice([1, 2, 2, 3])
        P = gen_parser(rng, levels)
        for _ in range(12):
            env, entry = gen_input(rng, P)
            case = {"parser": P, "env": env, "entry": entry}
            if entry["kind"] == "env":
                # parse_env reads the environment whatever default_env says: only the flag the tree is built with varies
                case["envmode"] = rng.choice(["ctor", "setter", "off", "off_setter"])
            elif env is not None:
                # how environment parsing is switched on (or off, with the variables present all the same)
                case["envmode"] = rng.choice(["ctor", "ctor", "setter", "setter", "arg", "off_setter", "off"])
            cases.append(case)
    return cases


# ------------------------------------------------------------------------------------------------
# observation
# ------------------------------------------------------------------------------------------------
def observe(cases):
    n = 16
    chunks = [cases[i::n] for i in range(n)]
    res = run_impl_parallel("c17_subcmd.py", [{"cases": ch} for ch in chunks])
    out = [None] * len(cases)
    for k, r in enumerate(res):
        out[k::n] = r
    return out


# ------------------------------------------------------------------------------------------------
# Gallina
# ------------------------------------------------------------------------------------------------
def t_parser(P):
    ch = g_list([g_pair(g_str(n), t_parser(Q)) for n, Q in P["choices"]], "(str * parser)%type")
    opts = g_list([g_pair(g_str(k), g_Z(d)) for k, d in P["opts"]], "(str * Z)%type")
    return "(Parser %s %s %s %s %s %s)" % (g_bool(P["cfg"]), opts, g_bool(P["has"]), g_bool(P["req"]), g_str(P["dest"]), ch)


def t_cfgt(v):
    if isinstance(v, list):
        return "(CObj %s)" % t_cobj(v)
    if isinstance(v, str):
        return "(CStr %s)" % g_str(v)
    return "(CInt %s)" % g_Z(v)


def t_cobj(o):
    return g_list([g_pair(g_str(k), t_cfgt(v)) for k, v in o], "(str * cfgt)%type")


def t_argv(A):
    items = []
    for it in A["items"]:
        if it[0] == "opt":
            items.append("IOpt %s %s" % (g_str(it[1]), g_Z(it[2])))
        else:
            items.append("ICfg %s" % t_cobj(it[1]))
    sub = "None" if A["sub"] is None else "(Some (%s, %s))" % (g_str(A["sub"][0]), t_argv(A["sub"][1]))
    return "(ArgvT %s %s)" % (g_list(items, "item"), sub)


def t_node(v):
    if isinstance(v, dict):
        return "(NNs %s)" % t_ns(v)
    if v is None:
        return "NNone"
    if isinstance(v, str):
        return "(NStr %s)" % g_str(v)
    return "(NInt %s)" % g_Z(v)


def t_ns(d):
    return g_list([g_pair(g_str(k), t_node(v)) for k, v in d.items()], "(str * node)%type")


ENV_ON_MODES = ("ctor", "setter", "arg")


def env_on(case):
    """is the environment to be read?  (the variables are in os.environ whenever case["env"] is not None)"""
    if case["entry"]["kind"] == "env":
        return True   # parse_env(mapping): i_env is what os.environ holds (possibly nothing)
    return case["env"] is not None and case.get("envmode", "ctor") in ENV_ON_MODES


def term(case, obs):
    e = case["entry"]
    if e["kind"] == "args":
        entry = "EArgs %s" % t_argv(e["argv"])
    elif e["kind"] == "object":
        entry = "EObject %s" % t_cobj(e["cfg"])
    elif e["kind"] == "env":
        entry = "EEnv %s" % t_cobj(e["map"])
    else:
        entry = "EString %s" % t_cobj(e["cfg"])
    env = "(Some %s)" % t_cobj(case["env"] or []) if env_on(case) else "None"
    o = "(Some %s)" % t_ns(obs["ok"]) if "ok" in obs else "None"
    return "{| c_parser := %s; c_input := {| i_env := %s; i_entry := %s |}; c_obs := %s |}" % (
        t_parser(case["parser"]), env, entry, o)


# ------------------------------------------------------------------------------------------------
# evidence helpers
# ------------------------------------------------------------------------------------------------
def _mentions(o, P):
    if not P["has"]:
        return False
    names = {n for n, _ in P["choices"]}
    return any(k == P["dest"] or k in names for k, _ in o)


def _argv_mentions(A):
    return A["sub"] is not None or any(it[0] == "cfg" and it[1] for it in A["items"])


def nontrivial_key(case, obs):
    P, e = case["parser"], case["entry"]
    m = (env_on(case) and _mentions(case["env"] or [], P))
    m = m or (e["kind"] == "args" and _argv_mentions(e["argv"])) or (e["kind"] == "env" and _mentions(e["map"], P))
    m = m or (e["kind"] in ("object", "string") and _mentions(e["cfg"], P))
    if not m:
        return None
    return hashlib.sha1(json.dumps([case, obs], sort_keys=True).encode()).hexdigest()


def _depth(P):
    return 1 + max([_depth(Q) for _, Q in P["choices"]], default=0) if P["has"] else 0


def category(case, obs):
    return "%s/%s/levels=%d/%s" % (case["entry"]["kind"], "env:" + case.get("envmode", "ctor") if case["env"] is not None else "noenv",
                                   _depth(case["parser"]), "ok" if "ok" in obs else obs["fail"])


def describe(case, obs):
    e = case["entry"]
    d = {"parser_tree": case["parser"], "environment_read": env_on(case)}
    if e["kind"] == "env":
        d["os.environ"] = _render_env(case["env"] or [])
        d["tree_built_with"] = case.get("envmode", "ctor")
    elif case["env"] is not None:
        d["environment"] = _render_env(case["env"])
        d["environment_switch"] = {"ctor": "root built with default_env=True",
                                   "setter": "tree built, then root.default_env = True",
                                   "arg": "default_env=False, parse_*(..., env=True)",
                                   "off_setter": "tree built with default_env=True, then root.default_env = False",
                                   "off": "default_env=False (variables present, must not be read)"}[case.get("envmode", "ctor")]
    if e["kind"] == "args":
        d["call"] = "parse_args(%r)" % (_render_argv(e["argv"]),)
    elif e["kind"] == "object":
        d["call"] = "parse_object(%s)" % json.dumps(_obj(e["cfg"]))
    elif e["kind"] == "env":
        d["call"] = "parse_env(%r)  # explicit mapping; os.environ as shown" % (_render_env(e["map"]),)
    else:
        d["call"] = "parse_string(%r)" % json.dumps(_obj(e["cfg"]))
    d["observed"] = obs
    return d


def _obj(o):
    return {k: (_obj(v) if isinstance(v, list) else v) for k, v in o}


def _render_argv(A):
    out = []
    for it in A["items"]:
        out.append("--%s=%d" % (it[1], it[2]) if it[0] == "opt" else "--cfg=" + json.dumps(_obj(it[1])))
    if A["sub"] is not None:
        out.append(A["sub"][0])
        out += _render_argv(A["sub"][1])
    return out


def _render_env(o, prefix="APP_"):
    env = {}
    for k, v in o:
        if isinstance(v, list):
            env.update(_render_env(v, prefix + k.upper() + "__"))
        else:
            env[prefix + k.upper()] = str(v)
    return env


# ------------------------------------------------------------------------------------------------
# shrinking
# ------------------------------------------------------------------------------------------------
def _drop_each(o):
    for i in range(len(o)):
        yield o[:i] + o[i + 1:]
    for i, (k, v) in enumerate(o):
        if isinstance(v, list):
            for w in _drop_each(v):
                yield o[:i] + [[k, w]] + o[i + 1:]


def _shrink_argv(A):
    if A["sub"] is not None:
        yield {"items": A["items"], "sub": None}
        for r in _shrink_argv(A["sub"][1]):
            yield {"items": A["items"], "sub": [A["sub"][0], r]}
    for i, it in enumerate(A["items"]):
        yield {"items": A["items"][:i] + A["items"][i + 1:], "sub": A["sub"]}
        if it[0] == "cfg":
            for w in _drop_each(it[1]):
                yield {"items": A["items"][:i] + [["cfg", w]] + A["items"][i + 1:], "sub": A["sub"]}


def _shrink_parser(P):
    for i in range(len(P["choices"])):
        if len(P["choices"]) > 1:
            yield dict(P, choices=P["choices"][:i] + P["choices"][i + 1:])
        n, Q = P["choices"][i]
        for R in _shrink_parser(Q):
            yield dict(P, choices=P["choices"][:i] + [[n, R]] + P["choices"][i + 1:])
    for i in range(len(P["opts"])):
        yield dict(P, opts=P["opts"][:i] + P["opts"][i + 1:])


def shrink(case):
    e = case["entry"]
    if e["kind"] == "env":
        if case["env"]:
            yield dict(case, env=[])
            for w in _drop_each(case["env"]):
                yield dict(case, env=w)
        if case.get("envmode", "ctor") != "ctor":
            yield dict(case, envmode="ctor")
        for w in _drop_each(e["map"]):
            yield dict(case, entry={"kind": "env", "map": w})
    elif case["env"] is not None:
        yield dict(case, env=None)
        if case.get("envmode", "ctor") != "ctor":
            yield dict(case, envmode="ctor")
        for w in _drop_each(case["env"]):
            yield dict(case, env=w)
    if e["kind"] == "args":
        for a in _shrink_argv(e["argv"]):
            yield dict(case, entry={"kind": "args", "argv": a})
    elif e["kind"] != "env":
        for w in _drop_each(e["cfg"]):
            yield dict(case, entry={"kind": e["kind"], "cfg": w})
    for P in _shrink_parser(case["parser"]):
        yield dict(case, parser=P)


# ------------------------------------------------------------------------------------------------
# bounded failing-input search after a broken proof / tie (framework step 5): ONE fresh quick-sized batch
# ------------------------------------------------------------------------------------------------
def search(rng, tier, broken):
    from tie.framework import judge_cases, load_known_findings
    import sys
    mod = sys.modules[__name__]
    cases = generate(rng, "quick")
    obs = observe(cases)
    bad_model, bad_in, bad_out = judge_cases(mod, cases, obs, tag="x")
    known = load_known_findings(PROP)
    bad = sorted(set(bad_in) | {i for i, k in bad_out if FINDING_CLASSES.get(k) not in known})
    if not bad:
        return None
    i = bad[0]
    return {"case": cases[i], "observed": obs[i], "explain": describe(cases[i], obs[i])}


META = {
    "level_text": "Rocq theorems (coq/Properties/C17.v) over a Gallina model of the parse pipeline, for subcommand trees of ANY depth "
                  "and width and every input of the modelled space (structured argv with options, --cfg values and subcommand tokens at "
                  "every level; parse_object; parse_string; with or without environment parsing and any environment; parse_env(mapping) with "
                  "any mapping and any content of os.environ). "
                  "C17_one_selected / C17_one_selected_or_falsy / C17_required_selected / C17_optional_missing_gives_none: a successful "
                  "parse has, at every level, the name of a declared subcommand under the subcommand key, that subcommand's complete "
                  "section (every declared option has a value), a well-selected section below it, and no section of any other "
                  "subcommand; an unselected optional subcommand leaves no section at all. C17_required_missing_fails: a required "
                  "subcommand with nothing given is rejected with the documented error. C17_command_line_name_wins and "
                  "C17_config_name_wins, C17_environment_name_wins (a parse_env mapping naming a declared subcommand) prove the explicit clauses of the selection rule at the top level: the token on the command "
                  "line wins whatever --cfg values/environment name, and the subcommand key of a parse_object/parse_string config wins "
                  "whatever the environment names or which sections carry settings. C17_config_entry_selection_rule (round 6) proves the WHOLE "
                  "rule at the top level for parse_object/parse_string, every tree, variant, environment and JSON object whose subcommand key is "
                  "absent or a string: the stored choice IS Spec.select of the inputs - the config's key, else the declared name the environment "
                  "gives, else the first DECLARED subcommand with a non-empty section in the config, else None (nothing else is ever chosen). "
                  "C17_fixed_one_selected (+2 corollaries): with "
                  "fixes/C17-falsy-subcommand-name-keeps-all-sections.patch the full statement holds without guard. The settings-given "
                  "clause on the argv path (--cfg values), the rule at nested levels and the VALUES inside the chosen "
                  "sections (last given on this level, else environment, else default: Spec.spec_ok with select / values_ok evaluated "
                  "on the inputs), and ACCEPTANCE (Spec.must_succeed: when every source is clean - only declared options, names and "
                  "sections - and along the selected path every level has a determinable choice, from whatever mix of sources, or is "
                  "optional, a failing parse is a spec failure) are judged per case inside Coq against the real parsers, not proved. The model (get_subcommands, "
                  "handle_subcommands, __call__, _load_env_vars, apply_config, the second get_subcommand pass in apply_parsing_links, "
                  "validate) is tied to real parsers built from generated trees of 1-3 subcommand levels with 1-4 subcommands each.",
    "level_note": "Three recorded findings (known_findings/C17.txt), each with a fix patch in fixes/ and a model variant flag; the "
                  "harness recognises which fixes the tree under test has and passes the variant to the judge: a falsy subcommand name "
                  "keeps all sections (guard dest_truthy, C17_falsy_name_refuted; fixed in /repo cc83855); a --cfg value naming another "
                  "subcommand drops given settings (judge class 2, C17_cfg_names_other_refuted; fixed in /repo efb952a); "
                  "parse_env(mapping) lets the sub-parsers read os.environ (judge class 3 = osenv_clean, "
                  "C17_env_mapping_decoy_refuted; fixed in /repo bad2da5). Not proved: Spec.select below the top "
                  "level and for --cfg values on the command line, the values and must_succeed - exercised by the correspondence only. Failing "
                  "parses are only compared as 'failed' (the error kind is not tied); a failure is a spec failure only under must_succeed "
                  "(a sufficient condition: unclean inputs demand nothing). Not modelled: default_config_files, aliases, explicit null, "
                  "PREFIX_CFG variables, non-int options; two defects were seen by probe in that unmodelled space (notes/C17.md, round 6: a "
                  "default config file without a choice on a parser with a required subcommand made every parse fail - fixed in /repo e3568f9; "
                  "APP_CFG giving a.x together with APP_SUBCOMMAND=a lost a.x - fixed in /repo 3663e43); that space is still NOT covered by any "
                  "theorem or by the tie. Since 3663e43 _load_env_vars runs the environment-named sub-parser with defaults=False; the model's "
                  "load_env_vars still merges that sub-parser's defaults there (the later handle_subcommands pass adds them in the code): "
                  "observationally equal on every generated case (0 disagreements), shape to be followed next round. Trusted: Coq kernel/VM, the model's faithfulness outside the generated cases, "
                  "the harness rendering of argv/JSON/environment, argparse tokenisation. No axioms.",
    "technique": "Rocq proof by induction on fuel over a Gallina model of the parse pipeline, parameterised by the tree variant "
                 "(pinned / repaired): invariants Handled -> Sel through handle_subcommands and the links pass, preservation of an "
                 "explicit subcommand key through _parse_common, the implicit choice (first declared section) through get_subcommands/handle/links "
                 "and a section-by-section characterisation of merge_config on JSON objects (unique keys); + seeded correspondence on generated parser trees judged in Coq "
                 "against the model and the executable selection-and-values spec",
}
